"""CLI / session correspondence stream: real habutax `InputStore`, `solve`, `ValueStore.to_config`,
`fill_pdfs`-style reading vs the Lean model `HabuVerif.Cli` (`sessionFile`, `toConfig`, `attachMeta`,
`readBack`, `pyInt`).

    run(seed, n, run_step) -> {'cases', 'disagreements', 'distribution', 'samples'}

`run_step(list_of_lines) -> list_of_lines` pipes protocol lines to `HabuVerif.CliDrv.step` (see
lean/HabuVerif/Drv/CliDrv.lean; the main driver dispatches lines starting with `cli ` to it, so a caller
using the main driver prefixes every line with `cli `).  Text travels as hex of its UTF-8 bytes, `-` = empty.

Sub-streams:
  store     a real InputStore on a real temp file: random initial text (clean / unclean / unparsable), random
            answers through `store[name] = value` with fake input specifications, `store.write(path)`;
            the bytes on disk vs `sessionFile`, and re-reading + `provides` vs the model's `rerun`
  solve     the REAL `habutax.solve(args)` in-process (`--prompt-missing --writeback-input`, builtins.input
            scripted from scenarios.Policy, years 2021-2023, form 1040 and small requests), interrupted at
            EVERY input() call index j of the session, for each kind: KeyboardInterrupt (-> refusal),
            EOFError, RuntimeError (any exception escaping from inside solve), plus the session's natural end
            (success, an unsupported form, a failing line) and an unsupported requested form;
            the file on disk vs `sessionFile(initial, answers before j)`; it must parse; the re-run on it must
            not ask any of those answers again (property check on the real code, reported as a disagreement
            with model '-')
  solution  real `ValueStore.to_config` with real habutax field types + `solution['habutax'] = {...}` +
            `write` to a real file + the reading `fill_pdfs`/`PDFFiller._read_form_fields` perform
            (pdftk never reached) vs `toConfig/attachMeta/write` and `readBack`
  pyint     `int(text)` vs `pyInt` on ASCII texts
"""
import argparse
import builtins
import configparser
import contextlib
import io
import os
import random
import re
import sys
import tempfile
import warnings

sys.dont_write_bytecode = True
_here = os.path.dirname(os.path.abspath(__file__))
if _here not in sys.path:
    sys.path.insert(0, _here)

import ini_stream as I   # noqa: E402  (generators for INI texts, hex helpers)

hx = I.hx


def triple(a, b, c):
    return f'{hx(a)}:{hx(b)}:{hx(c)}'


def read_raw(path):
    with open(path, newline='', encoding='utf-8') as f:
        return f.read()


def write_raw(path, text):
    with open(path, 'w', newline='', encoding='utf-8') as f:
        f.write(text)


# ------------------------------------------------------------------ (a) InputStore on a file

class FakeInput:
    def __init__(self, section, base):
        self._s, self._b = section, base

    def section(self):
        return self._s

    def base_name(self):
        return self._b


ANS_SECTIONS = ['1040', 'w-2:0', 'w-2:1', '1099-int:0', 'nc_d-400', 'a', 'A', 'b', 'x y', 'DEFAULT', '', 's]t', ' pad ']
ANS_KEYS = ['k', 'K', 'key', 'filing_status', 'box_1', 'number_w-2', 'first_name', 'x y', 'opt%', 'a=b', ' lead',
            '#h', '[q', 'q]', 'é']
ANS_VALS = ['yes', 'no', '0', '1234.50', 'Single', 'Bob', 'Alice Q', ' yes', 'no ', '  12 Main St  ', '', '%', '100%',
            '= x', 'a: b', '# c', '[s]', 'x]', '\tv', 'v\x0c', 'é', '123-45-6789', 'Apt #4', '12 Elm St #3', 'a ; b', ';x',
            '#4B', 'x # y ; z']


def gen_answers(rng, present_sections):
    out = []
    for _ in range(rng.randint(0, 7)):
        if present_sections and rng.random() < 0.5:
            s = rng.choice(present_sections)
        else:
            s = rng.choice(ANS_SECTIONS)
        if rng.random() < 0.85:
            s = s if s not in ('DEFAULT', '') or rng.random() < 0.15 else '1040'
        k = rng.choice(ANS_KEYS[:8]) if rng.random() < 0.8 else rng.choice(ANS_KEYS)
        v = rng.choice(ANS_VALS[:8]) if rng.random() < 0.7 else rng.choice(ANS_VALS)
        out.append((s, k, v))
    return out


STORE_VIOLATIONS = []
_PLAIN = set('abcdefghijklmnopqrstuvwxyzABCDEFGHIJKLMNOPQRSTUVWXYZ0123456789-_:')


def store_case(rng, tmp):
    """returns (protocol lines, expected answers, distribution keys)"""
    from habutax import inputs as hinputs
    r = rng.random()
    if r < 0.12:
        text = ''
    elif r < 0.82:
        text = I.gen_valid(rng, cr=rng.random() < 0.15)
    elif r < 0.95:
        text = I.gen_structured(rng, cr=rng.random() < 0.15)
    else:
        text = I.gen_malformed(rng)
    path = os.path.join(tmp, 'store.ini')
    write_raw(path, text)
    present = []
    try:
        cp0 = I.fresh()
        cp0.read_string(text.replace('\r\n', '\n').replace('\r', '\n'))
        present = cp0.sections()
    except Exception:  # noqa
        pass
    answers = gen_answers(rng, present)
    specs = {f'{i}/{s}.{k}': FakeInput(s, k) for i, (s, k, v) in enumerate(answers)}
    toks = ' '.join(triple(*a) for a in answers)
    lines = [f'session {hx(text)} {toks}'.strip(), f'rerun {hx(text)} {toks}'.strip(),
             f'clean {hx(text)} {toks}'.strip()]
    keys = []
    try:
        store = hinputs.InputStore(path, specs)
    except Exception as e:  # noqa
        name = I.err_name(e)
        keys.append('store:read-' + name)
        # nothing is written: the file is untouched
        assert read_raw(path) == text
        return lines, ['err ' + name, 'err ' + name, 'err ' + name], keys
    stopped = None
    try:
        for i, (s, k, v) in enumerate(answers):
            store[f'{i}/{s}.{k}'] = v
    except Exception as e:  # noqa   (the solver would let it escape; `finally` still writes)
        stopped = I.err_name(e)
    store.write(path)
    disk = read_raw(path)
    keys.append('store:written' + (':after-' + stopped if stopped else ''))
    # statement check (C13/C20): an answer is ANY text the user types (one line); for plainly named forms and inputs the
    # store must take it -- '%', '=', ':', '#', ';' and blanks included -- or the answer is lost and asked again
    if stopped is not None and all(a and a != 'DEFAULT' and set(a) <= _PLAIN and b and set(b) <= _PLAIN and '\n' not in c_ and '\r' not in c_
                                   for a, b, c_ in answers):
        STORE_VIOLATIONS.append({'op': lines[0][:300], 'model': '-',
                                 'real': f'an answer could not be stored ({stopped}); answers: {answers!r}'[:400]})
    exp_session = 'ok ' + hx(disk)
    try:
        again = hinputs.InputStore(path, specs)
        exp_rerun = ' '.join(['ok'] + [('T' if again.provides(FakeInput(s, k)) else 'F') for s, k, v in answers])
        keys.append('store:reread-ok')
        # statement check (C13/C20): an answer typed for an input of a plainly named form reads back as typed (stripped)
        last = {}
        all_plain = all(a and set(a) <= _PLAIN and set(b) <= _PLAIN for a, b, _c in answers)
        done = len(answers) if (stopped is None and all_plain) else 0
        for s_, k_, v_ in answers[:done]:
            last[(s_, k_.lower())] = v_
        for (s_, k_), v_ in last.items():
            if s_ and set(s_) <= _PLAIN and set(k_) <= _PLAIN and s_ != 'DEFAULT' and v_.strip() and '\n' not in v_ and '\r' not in v_:
                try:
                    got = again.config.get(s_, k_)
                except Exception as e:  # noqa
                    got = f'<{type(e).__name__}>'
                if got != v_.strip():
                    STORE_VIOLATIONS.append({'op': lines[0][:300], 'model': '-',
                                             'real': f'the answer {v_!r} typed for {s_}.{k_} reads back from the written file as {got!r}'})
                keys.append('store:value-readback')
        # statement check (C20): "contains every value it held before plus every answer given" and "re-running
        # does not ask for those answers again" -- for plainly named forms/inputs every answer, the BLANK ones
        # included (a blank answer is a valid answer: 0, '', "no"), is provided by the file written, and every
        # option the file held before is still there
        if stopped is None and all_plain:
            for s_, k_, v_ in answers:
                if s_ != 'DEFAULT' and '\n' not in v_ and '\r' not in v_ and not again.provides(FakeInput(s_, k_)):
                    STORE_VIOLATIONS.append({'op': lines[0][:300], 'model': '-',
                                             'real': f'the answer {v_!r} given for {s_}.{k_} is not in the file written: a re-run would ask for it again'})
                keys.append('store:answer-provided' + (':blank' if not v_.strip() else ''))
            for s_ in present:
                for k_ in cp0.options(s_):
                    if not (set(s_) <= _PLAIN and set(k_) <= _PLAIN):
                        continue
                    if not again.config.has_option(s_, k_):
                        STORE_VIOLATIONS.append({'op': lines[0][:300], 'model': '-',
                                                 'real': f'{s_}.{k_}, held by the file before the session, is gone from the file written'})
                    keys.append('store:held-before-kept')
    except Exception as e:  # noqa
        exp_rerun = 'err ' + I.err_name(e)
        keys.append('store:reread-' + I.err_name(e))
    return lines, [exp_session, exp_rerun, '*store:written-config-IniClean'], keys


# ------------------------------------------------------------------ (b) the real solve

_input_cache = {}


def find_input(year, name):
    from habutax import forms as hforms, form as hform
    sec, base = name.split('.')
    key = (year, sec)
    if key not in _input_cache:
        fn, inst = hform.name_and_instance(sec)
        cls = {f.form_name: f for f in hforms.available_forms[year]}[fn]
        _input_cache[key] = {i.base_name(): i for i in cls(instance=inst).inputs()}
    return _input_cache[key][base]


class Script:
    """deterministic answers: what is typed at the prompt for input `name` on its `attempt`-th try"""

    def __init__(self, seed, year, policy, noisy):
        self.seed, self.year, self.policy, self.noisy = seed, year, policy, noisy

    def typed(self, name, attempt):
        import scenarios
        inp = find_input(self.year, name)
        ans = self.policy.answer(inp)
        if ans is None or not inp.valid(ans):
            ans = '' if inp.valid('') else '0'
        if self.noisy:
            u = scenarios.h01(self.seed, name, 'noise')
            if attempt == 0 and u < 0.06:
                bad = scenarios.pick(self.seed, name + '/bad', ['maybe', 'abc', '12x', '?'])
                if not inp.valid(bad):
                    return bad, False
            if 0.06 <= u < 0.16:
                ans = scenarios.pick(self.seed, name + '/pad', [' ', '  ', '\t']) + ans if u < 0.11 else ans + ' '
        return ans, True


def run_solve(year, formlist, path, script, stop_at=None, exc=None, solution=None):
    """one real `habutax.solve(args)`; returns (answers stored, names asked, escaped exception, input() calls)"""
    import habutax
    calls = [0]
    answers, asked = [], []
    cur = [None, 0]

    def fake_input(prompt=''):
        j = calls[0]
        calls[0] += 1
        if stop_at is not None and j >= stop_at:
            raise exc()
        m = re.match(r'\n----\[ (.*?) \]----', prompt)
        if m:
            cur[0], cur[1] = m.group(1), 0
            asked.append(cur[0])
        else:
            cur[1] += 1
        text, valid = script.typed(cur[0], cur[1])
        if valid:
            sec, base = cur[0].split('.')
            answers.append((sec, base, text))
        return text

    args = argparse.Namespace(input_file=path, year=year, forms=list(formlist), prompt_missing=True,
                              writeback_input=True, solution=solution)
    saved = builtins.input
    builtins.input = fake_input
    err = None
    try:
        with contextlib.redirect_stdout(io.StringIO()):
            try:
                habutax.solve(args)
            except BaseException as e:  # noqa
                if isinstance(e, SystemExit):
                    raise
                err = e
    finally:
        builtins.input = saved
    return answers, asked, err, calls[0]


SMALL_REQUESTS = [['1040'], ['1040'], ['1040'], ['1040_sb'], ['8889'], ['1040_s1'], ['1040_sa'], ['nc_d-400'],
                  ['1040', 'nc_d-400'], ['8959'], ['8606'], ['1040_s3'], ['w-2:0'], ['1099-int:0', '1099-div:0']]


def prefill(rng, full_text, drop):
    """an initial file: the answers of a finished session minus some, with layout noise"""
    out = []
    for l in full_text.split('\n'):
        if ' = ' in l and rng.random() < drop:
            continue
        r = rng.random()
        if ' = ' in l and r < 0.15:
            k, v = l.split(' = ', 1)
            l = f'{k.upper() if rng.random() < 0.3 else k}: {v}'
        elif ' = ' in l and r < 0.2:
            l = l + '   '
        out.append(l)
        if rng.random() < 0.05:
            out.append('# a comment the write-back will drop')
    return '\n'.join(out)


def solve_scenario(seed, idx, tmp, budget):
    """yields case dicts: {'lines': [...], 'expect': [...], 'keys': [...], 'violations': [...]}"""
    import scenarios
    rng = random.Random(f'{seed}/cli/solve/{idx}')
    year = rng.choice([2021, 2022, 2023])
    policy, pkind = scenarios.gen_policy(f'{seed}/cli/{idx}', year)
    if rng.random() < 0.15:
        # a failing line: Schedule A line 8a sums an empty list when there is no 1098
        policy.fixed.update({'1040.itemize': 'yes', '1040.number_1098': '0'})
        pkind += '+fail'
    formlist = rng.choice(SMALL_REQUESTS)
    script = Script(f'{seed}/cli/{idx}', year, policy, noisy=rng.random() < 0.6)
    path = os.path.join(tmp, 'solve.ini')
    # --- initial file
    mode = rng.random()
    if mode < 0.35:
        initial = None                                  # absent: Path.touch creates it
    else:
        if os.path.exists(path):
            os.unlink(path)
        run_solve(year, formlist, path, script)
        full_text = read_raw(path)
        initial = prefill(rng, full_text, drop=rng.choice([0.05, 0.15, 0.5]))
        try:
            t = I.fresh(); t.read_string(initial)
        except Exception:  # noqa
            initial = full_text

    def reset():
        if os.path.exists(path):
            os.unlink(path)
        if initial is not None:
            write_raw(path, initial)
    init_text = initial or ''

    def check(kind, answers_before, err):
        disk = read_raw(path)
        toks = ' '.join(triple(*a) for a in answers_before)
        lines = [f'session {hx(init_text)} {toks}'.strip(), f'clean {hx(init_text)} {toks}'.strip(),
                 f'rerun {hx(init_text)} {toks}'.strip()]
        expect = ['ok ' + hx(disk), '*solve:written-config-IniClean']
        violations = []
        try:
            cp = I.fresh()
            with open(path, encoding='utf-8') as f:
                cp.read_file(f)
            expect.append(' '.join(['ok'] + [('T' if cp.has_option(s, k) else 'F') for s, k, v in answers_before]))
            for (s, k, v) in answers_before:
                if not cp.has_option(s, k) or cp.get(s, k) != v.strip():
                    violations.append(f'{kind}: answer {s}.{k}={v!r} reads back as '
                                      f'{cp.get(s, k) if cp.has_option(s, k) else None!r}')
        except Exception as e:  # noqa
            expect.append('err ' + I.err_name(e))
            violations.append(f'{kind}: file left behind does not parse: {I.err_name(e)}')
        # the re-run must not ask again (on a copy: the re-run writes back too)
        keep = read_raw(path)
        _, asked2, _, _ = run_solve(year, formlist, path, script)
        again = set(asked2) & {f'{s}.{k}' for s, k, v in answers_before}
        if again:
            violations.append(f'{kind}: re-run asked again for {sorted(again)[:5]}')
        write_raw(path, keep)
        return {'lines': lines, 'expect': expect, 'violations': violations,
                'keys': [f'solve:{kind}' + (':' + type(err).__name__ if err is not None else '')]}

    # --- the full session
    reset()
    full_answers, full_asked, full_err, ncalls = run_solve(year, formlist, path, script)
    first = check('natural-end', full_answers, full_err)
    first['keys'] += [f'solve:session:year={year}', 'solve:session:request=' + '+'.join(formlist),
                      'solve:session:initial=' + ('absent' if initial is None else 'prefilled'),
                      'solve:session:input-calls=' + ('0' if ncalls == 0 else '1-9' if ncalls < 10 else '10-49' if ncalls < 50 else '50+'),
                      'solve:session:retries=' + str(ncalls - len(full_answers) > 0)]
    yield first
    budget -= 1
    # which answers precede input() call j: replay the script bookkeeping
    # (answers are appended at the call that returns a valid text)
    reset()
    # an unsupported form in the request: NotImplementedError before any prompt
    _, _, err, _ = run_solve(year, list(formlist) + ['no_such_form'], path, script)
    yield check('unsupported-request', [], err)
    budget -= 1
    for j in range(ncalls + 1):
        for exc in (KeyboardInterrupt, EOFError, RuntimeError):
            if budget <= 0:
                return
            reset()
            answers, asked, err, _ = run_solve(year, formlist, path, script, stop_at=j, exc=exc)
            if answers != full_answers[:len(answers)]:
                yield {'lines': [], 'expect': [], 'keys': ['solve:nondeterministic'],
                       'violations': [f'interrupted session is not a prefix of the full one (year {year}, {formlist}, j={j})']}
            yield check(exc.__name__, answers, err)
            budget -= 1


# ------------------------------------------------------------------ (c) solution files

FORM_NAMES = ['1040', '1040_s1', 'w-2:0', 'w-2:1', 'nc_d-400', 'a', 'A', '8889', 'habutax', 'DEFAULT', 'x y']
LINE_NAMES = ['1', '1a', '2b', '25d', 'first_name', 'filing_status', 'A', 'a', 'Total', 'x y', 'k=v', '#n', '[b', 'é']
STRINGS = ['', 'Bob', 'Alice Q', '12 Main St', ' padded ', 'two\nlines', 'a\n\nb', 'x\n', '100%', '%(x)s', '# hash', '; semi',
           'a = b', 'é', 'l1\n l2', 'l1\n#l2', '[x]', 'tab\there', 'Apt #4', '#4B', 'Teacher ; tutor', 'x # y']


def gen_solution(rng):
    """(key, field, value) in store order, with real habutax field types"""
    from habutax import fields as hf, enum as henum
    out = []
    used = set()
    odd = rng.random() < 0.12         # a solution that (ab)uses the special section names
    for _ in range(rng.randint(0, 9)):
        form = rng.choice(FORM_NAMES[:8]) if rng.random() < 0.9 else rng.choice(FORM_NAMES)
        if odd and rng.random() < 0.5:
            form = rng.choice(['DEFAULT', 'DEFAULT', 'habutax'])
        line = rng.choice(LINE_NAMES[:7]) if rng.random() < 0.85 else rng.choice(LINE_NAMES)
        key = f'{form}.{line}'
        if key in used:
            continue
        used.add(key)
        t = rng.random()
        if t < 0.3:
            places = rng.choice([0, 2, 2, 2, 4])
            f = hf.FloatField(line, lambda s, i, v: 0.0, places=places)
            val = round(rng.choice([0.0, -1.5, 1234.567, 1e6, 2.5e-3, 99999999.99, -0.004]) * rng.choice([1, 1, 7]), places)
        elif t < 0.45:
            f = hf.IntegerField(line, lambda s, i, v: 0)
            val = rng.choice([0, 1, -3, 2023, 10 ** 12])
        elif t < 0.6:
            f = hf.BooleanField(line, lambda s, i, v: False)
            val = rng.random() < 0.5
        elif t < 0.7:
            f = hf.EnumField(line, henum.filing_status, lambda s, i, v: None)
            val = rng.choice([None] + list(henum.filing_status))
        else:
            f = hf.StringField(line, lambda s, i, v: '')
            val = rng.choice(STRINGS[:5]) if rng.random() < 0.6 else rng.choice(STRINGS)
        out.append((key, f, val))
    return out


def solution_case(rng, tmp):
    from habutax import values as hvalues, pdf_filler
    import habutax
    items = gen_solution(rng)
    year = rng.choice([2021, 2022, 2023, 2023, 7, 0, 123456789])
    version = rng.choice([habutax.__version__, habutax.__version__, '1.0', 'v 2', ''])
    vs = hvalues.ValueStore()
    fmap = {}
    for key, f, val in items:
        vs[key] = val
        fmap[key] = f
    triples = [(key.split('.')[0], key.split('.')[1], f.to_string(val)) for key, f, val in items]
    toks = ' '.join(triple(*t) for t in triples)
    keys = []
    try:
        sol = vs.to_config(fmap)
        sol['habutax'] = {'tax_year': year, 'version': version}
    except Exception as e:  # noqa
        return [], [], ['solution:to_config-' + I.err_name(e)]
    path = os.path.join(tmp, 'solution.ini')
    with open(path, 'w') as f:
        sol.write(f)
    text = read_raw(path)
    lines = [f'solution {year} {hx(version)} {toks}'.strip(), f'readback {hx(text)}']
    expect = [hx(text)]
    # what fill_pdfs + PDFFiller read, up to from_string
    try:
        # the solution is read by the REAL `habutax.fill_pdfs` (its reader construction, year parsing, removal of the
        # special section); only the PDFFiller it would build is replaced by a recorder
        import types
        captured = {}

        class Capture:
            def __init__(self, solution, forms, output, flatten=False):
                captured['sol'] = solution

            def fill(self):
                pass

        class AnyYear(dict):
            def __missing__(self, k):
                return []

            def __getitem__(self, k):
                captured['year'] = k
                return dict.__getitem__(self, k) if k in self else []
        orig_filler, orig_forms = habutax.pdf_filler.PDFFiller, habutax.forms.available_forms
        try:
            habutax.pdf_filler.PDFFiller = Capture
            habutax.forms.available_forms = AnyYear(orig_forms)
            habutax.fill_pdfs(types.SimpleNamespace(solution=path, output='x', flatten=False))
        finally:
            habutax.pdf_filler.PDFFiller = orig_filler
            habutax.forms.available_forms = orig_forms
        back = captured['sol']
        y = captured['year']
        seen = []

        class Rec:
            def __init__(self, form):
                self.form = form

            def from_string(self, s):
                seen[-1][1].append(s)
                return s
        p = pdf_filler.PDFFiller(back, [], 'x')
        forms_read = []
        for form_name in back:
            if form_name == 'DEFAULT':
                continue
            names = list(back[form_name])
            seen.append((form_name, []))
            p._field_map = {f'{form_name}.{fn}': Rec(form_name) for fn in names}
            p._read_form_fields(form_name)
            forms_read.append((form_name, list(zip(names, seen[-1][1]))))
        expect.append(f'ok {y} ' + '|'.join(f'{hx(n)}:' + ','.join(f'{hx(k)}={hx(v)}' for k, v in os_) for n, os_ in forms_read))
        same = all((fo, li.lower(), tx) in [(n, k, v) for n, os_ in forms_read for k, v in os_] for fo, li, tx in triples)
        keys.append(f'solution:readback-ok:texts-preserved={same}')
    except Exception as e:  # noqa
        expect.append('err ' + I.err_name(e))
        keys.append('solution:readback-' + I.err_name(e))
    return lines, expect, keys


# ------------------------------------------------------------------ pyint

INT_ALPHA = list('0123456789') * 3 + list('+-_ \t\n') + ['x', '.', 'e', '0x', '__', '\x0c', '\xa0']


def pyint_case(rng):
    r = rng.random()
    if r < 0.4:
        s = str(rng.choice([0, 7, 2023, -5, 10 ** 20, 123456]))
        if rng.random() < 0.3:
            s = rng.choice([' ', '\n', '+', '00', '']) + s + rng.choice(['', ' ', '\n', '_', '_0'])
    else:
        s = ''.join(rng.choice(INT_ALPHA) for _ in range(rng.randint(0, 7)))
    try:
        exp = str(int(s))
    except ValueError:
        exp = 'none'
    return [f'pyint {hx(s)}'], [exp], ['pyint:' + ('int' if exp != 'none' else 'none')]


# ------------------------------------------------------------------ the run

def run(seed, n, run_step, prefix=''):
    with warnings.catch_warnings():
        warnings.simplefilter('ignore')
        import habutax  # noqa: F401
        from habutax import forms  # noqa: F401
    n_store = max(1, int(n * 0.35))
    n_solve = max(4, int(n * 0.35))
    n_solution = max(1, int(n * 0.22))
    n_pyint = max(1, n - n_store - n_solve - n_solution)
    tmp = tempfile.mkdtemp(prefix='cli_stream_')
    lines, expect, owner = [], [], []
    dist = {}
    cases = 0
    extra_disagreements = []

    def bump(k):
        dist[k] = dist.get(k, 0) + 1

    def add(ls, ex, keys):
        nonlocal cases
        cases += 1
        for k in keys:
            bump(k)
        for l, e in zip(ls, ex):
            lines.append(prefix + l)
            expect.append(e)
            owner.append(cases)

    del STORE_VIOLATIONS[:]
    for i in range(n_store):
        add(*store_case(random.Random(f'{seed}/cli/store/{i}'), tmp))
    for v in STORE_VIOLATIONS:
        bump('store:PROPERTY-VIOLATION')
        extra_disagreements.append(v)
    done, idx = 0, 0
    while done < n_solve:
        for case in solve_scenario(seed, idx, tmp, n_solve - done):
            add(case['lines'], case['expect'], case['keys'])
            done += 1
            for v in case['violations']:
                bump('solve:PROPERTY-VIOLATION')
                extra_disagreements.append({'op': (case['lines'] or ['<solve>'])[0][:400], 'model': '-', 'real': v})
        idx += 1
    bump_sessions = idx
    dist['solve:sessions'] = bump_sessions
    for i in range(n_solution):
        add(*solution_case(random.Random(f'{seed}/cli/solution/{i}'), tmp))
    for i in range(n_pyint):
        add(*pyint_case(random.Random(f'{seed}/cli/pyint/{i}')))
    for y in (0, 9, 10, 2023, 10 ** 15):
        add([f'dec {y}'], [hx(str(y))], ['dec'])

    model = run_step(lines)
    disagreements = list(extra_disagreements)
    if len(model) != len(lines):
        disagreements.append({'op': '<stream>', 'model': f'{len(model)} answer lines', 'real': f'{len(lines)} ops'})
    for l, m, r in zip(lines, model, expect):
        if r.startswith('*'):
            # record-only: the model's own classification (is the written configuration IniClean?)
            bump(f'{r[1:]}={m}')
            if m not in ('T', 'F'):
                disagreements.append({'op': l[:2000], 'model': m[:2000], 'real': 'T or F expected'})
            continue
        if m != r:
            disagreements.append({'op': l[:2000], 'model': m[:2000], 'real': r[:2000]})
    samples = [{'op': lines[k][:300], 'real': expect[k][:300]} for k in range(0, len(lines), max(1, len(lines) // 12))]
    try:
        for f in os.listdir(tmp):
            os.unlink(os.path.join(tmp, f))
        os.rmdir(tmp)
    except OSError:
        pass
    return {'cases': cases, 'disagreements': disagreements, 'distribution': dict(sorted(dist.items())),
            'samples': samples, 'lines': len(lines)}


if __name__ == '__main__':
    # python cli_stream.py <seed> <n> <command that runs CliDrv.step over stdin lines>
    import subprocess
    seed_, n_, cmd = sys.argv[1], int(sys.argv[2]), sys.argv[3:]

    def run_step(ls):
        p = subprocess.run(cmd, input=('\n'.join(ls) + '\n').encode(), stdout=subprocess.PIPE, check=True)
        return p.stdout.decode().split('\n')[:-1]
    res = run(seed_, n_, run_step)
    print('cases', res['cases'], 'lines', res['lines'], 'disagreements', len(res['disagreements']))
    for k, v in res['distribution'].items():
        print(f'  {k}: {v}')
    for d in res['disagreements'][:8]:
        print('OP   ', d['op'][:600]); print('MODEL', d['model'][:600]); print('REAL ', d['real'][:600])
