import random, sys
from common import run_driver
import toy

def run(n, seed0, verbose=False):
    cases, proto = [], []
    for k in range(n):
        rng = random.Random(f'{seed0}/toy/{k}')
        c = toy.gen_case(rng)
        cases.append(c)
        proto += c.protocol()
    out = run_driver(proto)
    # split model output per case: each solve ends in 'done' unless abort/fuel (single line)
    pos = 0
    bad = []
    stats = {}
    for k, c in enumerate(cases):
        model = []
        while pos < len(out):
            l = out[pos]; pos += 1
            if l == 'done':
                break
            model.append(l)
        model = [toy.canon_model_abort(l) for l in model]
        real = c.run_real()[0]
        key = real[0]
        stats[' '.join(key.split(' ')[:3])] = stats.get(' '.join(key.split(' ')[:3]), 0) + 1
        if model != real:
            bad.append((k, model, real))
    return bad, stats, cases

if __name__ == '__main__':
    n = int(sys.argv[1]); s = sys.argv[2] if len(sys.argv) > 2 else '0'
    bad, stats, cases = run(n, s)
    print(stats)
    print('disagreements', len(bad))
    for k, m, r in bad[:3]:
        print('case', k)
        print('\n'.join(cases[k].protocol()))
        for a, b in zip(m + ['<none>'] * 10, r + ['<none>'] * 10):
            if a != b:
                print(' MODEL', a); print(' REAL ', b)
