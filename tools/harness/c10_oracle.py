"""C10 oracle: every name a form definition can refer to resolves.

    run(seed, tier) -> dict(violations, checked, witnesses, samples, static, distribution, ...)

(a) STATIC CROSS-CHECK on the real objects, independent of the translator and of the Lean analysis: the Python AST
    of every shipped form class is walked; every string key passed to `v[...]` / `i[...]` (f-strings expanded over
    the `range(...)` / literal-sequence loops and `n=n` lambda defaults found in the source; a loop bounded by an
    input is explored up to WINDOW), every `s.form('...')` and every `threshold('...')` name is checked against the
    INSTANTIATED forms (`Form.fields()`, `Form.inputs()`, `Form._thresholds`, `available_forms`).  The unresolved
    names are compared with the witnesses of the Lean obligations (tools/gen_c10.py, the mirror of
    Dsl/RefsCheck.lean):  `static_only` (the AST check finds an unresolved name the Lean check does not flag: a
    possible hole in the Lean analysis — reported as a violation) and `lean_only` (flagged by Lean, not by the
    AST: imprecision of the abstract read-set analysis; the replay search below then refutes it).
(b) For every failed obligation / witness a REAL solve that reaches it is searched: the line is requested directly
    (`field_names`), its guarding inputs are set from the line's own reads (booleans yes, counts 1 or just past the
    declared lines, amounts positive), then random policies.  The exception class observed is recorded and the
    scenario returned as a replay.  The deliberately absent forms (tools/c10_absent_forms.json) are confirmed the
    same way: the solve must abort with NotImplementedError('Form … is not supported.').
(c) STATEMENT ORACLE on explored random solves (whole returns and directly requested rare lines): an abort with
    RecursionError, an AssertionError raised in solver.py (or by `Form.threshold`), AttributeError, NameError,
    KeyError or ValueError('… values to unpack') is a violation, with a replay.
All randomness derives from the seed string.  Nothing is printed.
"""
import ast
import inspect
import os
import random
import sys

from common import REPO, VERIF  # noqa: F401  (sets sys.path, env)

TOOLS = os.path.join(VERIF, 'tools')
if TOOLS not in sys.path:
    sys.path.insert(0, TOOLS)

YEARS = (2021, 2022, 2023)
WINDOW = 64


# ======================================================================================================
# (a) static cross-check
# ======================================================================================================
class _Unknown(Exception):
    pass


def _safe_eval(node, env):
    """value of an iterable / constant expression made of literals, range, list, tuple, + and bound constants"""
    if isinstance(node, ast.Constant):
        return node.value
    if isinstance(node, (ast.List, ast.Tuple)):
        return [_safe_eval(x, env) for x in node.elts]
    if isinstance(node, ast.Name):
        b = env.get(node.id)
        if b is not None and b[0] == 'const':
            return b[1]
        raise _Unknown()
    if isinstance(node, ast.BinOp) and isinstance(node.op, ast.Add):
        a, b = _safe_eval(node.left, env), _safe_eval(node.right, env)
        if isinstance(a, (list, tuple, range)) and isinstance(b, (list, tuple, range)):
            return list(a) + list(b)
        if isinstance(a, (int, str)) and type(a) is type(b):
            return a + b
        raise _Unknown()
    if isinstance(node, ast.Call) and isinstance(node.func, ast.Name) and not node.keywords:
        if node.func.id == 'range':
            args = [_safe_eval(x, env) for x in node.args]
            if all(isinstance(x, int) and not isinstance(x, bool) for x in args) and 1 <= len(args) <= 3:
                return range(*args)
            raise _Unknown()
        if node.func.id in ('list', 'tuple', 'sorted') and len(node.args) == 1:
            return list(_safe_eval(node.args[0], env))
    raise _Unknown()


def _accessor(node, env):
    """'v' / 'i' when the node is the values / inputs accessor of a line function"""
    if isinstance(node, ast.Name) and node.id not in env:
        if node.id in ('v', 'values'):
            return 'v'
        if node.id in ('i', 'inputs'):
            return 'i'
    return None


def _iter_binding(node, env):
    try:
        val = _safe_eval(node, env)
        if isinstance(val, (list, tuple, range, str)):
            return ('choices', [x if isinstance(x, str) else str(x) for x in val]
                    if all(isinstance(x, (str, int)) and not isinstance(x, bool) for x in val) else None)
    except _Unknown:
        pass
    if isinstance(node, ast.Call) and isinstance(node.func, ast.Name) and node.func.id == 'range' and node.args:
        lo = 0
        bound = node.args[0]
        if len(node.args) >= 2:
            bound = node.args[1]
            try:
                lo = _safe_eval(node.args[0], env)
            except _Unknown:
                return None
            if not isinstance(lo, int):
                return None
        src = None
        if isinstance(bound, ast.Subscript) and _accessor(bound.value, env) == 'i' and \
                isinstance(bound.slice, ast.Constant) and isinstance(bound.slice.value, str):
            src = bound.slice.value
        return ('range', lo, None, src)
    return None


def _key_pattern(node, env):
    if isinstance(node, ast.Constant) and isinstance(node.value, str):
        return [('lit', node.value)]
    if isinstance(node, ast.Name):
        b = env.get(node.id)
        if b and b[0] == 'const' and isinstance(b[1], str):
            return [('lit', b[1])]
        if b and b[0] == 'choices' and b[1] is not None:
            return [('oneOf', list(b[1]))]
        return [('?',)]
    if isinstance(node, ast.JoinedStr):
        out = []
        for part in node.values:
            if isinstance(part, ast.Constant):
                out.append(('lit', str(part.value)))
                continue
            val = part.value if isinstance(part, ast.FormattedValue) else part
            if getattr(part, 'format_spec', None) is not None or getattr(part, 'conversion', -1) != -1:
                out.append(('?',))
            elif isinstance(val, ast.Name):
                b = env.get(val.id)
                if b is None:
                    out.append(('?',))
                elif b[0] == 'const':
                    out.append(('lit', str(b[1])))
                elif b[0] == 'choices':
                    out.append(('oneOf', list(b[1])) if b[1] is not None else ('?',))
                elif b[0] == 'range':
                    out.append(('nat', b[1], b[2], b[3]))
                else:
                    out.append(('?',))
            elif isinstance(val, ast.Call) and isinstance(val.func, ast.Attribute) and val.func.attr == 'instance':
                out.append(('inst',))
            else:
                out.append(('?',))
        return out
    return [('?',)]


class _Walker:
    def __init__(self):
        self.keys = []        # dict(kind, pattern, lineno, field)
        self.thresholds = []  # dict(form (None = own | str | '?'), pattern, lineno, field)
        self.forms = []       # dict(name pattern, lineno)
        self.field = None

    def visit(self, node, env):
        m = getattr(self, 'v_' + type(node).__name__, None)
        if m is not None:
            return m(node, env)
        for ch in ast.iter_child_nodes(node):
            self.visit(ch, env)

    def _bind_target(self, target, binding, env):
        env = dict(env)
        names = [target.id] if isinstance(target, ast.Name) else \
            [n.id for n in ast.walk(target) if isinstance(n, ast.Name)]
        for n in names:
            env[n] = binding if isinstance(target, ast.Name) and binding is not None else ('unknown',)
        return env

    def v_For(self, node, env):
        self.visit(node.iter, env)
        env2 = self._bind_target(node.target, _iter_binding(node.iter, env), env)
        for s in node.body + node.orelse:
            self.visit(s, env2)

    def _comp(self, node, env, elts):
        env2 = env
        for g in node.generators:
            self.visit(g.iter, env2)
            env2 = self._bind_target(g.target, _iter_binding(g.iter, env2), env2)
            for c in g.ifs:
                self.visit(c, env2)
        for e in elts:
            self.visit(e, env2)

    def v_ListComp(self, node, env):
        self._comp(node, env, [node.elt])

    v_GeneratorExp = v_SetComp = v_ListComp

    def v_DictComp(self, node, env):
        self._comp(node, env, [node.key, node.value])

    def _function(self, args, body, env):
        env2 = dict(env)
        pos = args.posonlyargs + args.args
        defaults = [None] * (len(pos) - len(args.defaults)) + list(args.defaults)
        pairs = list(zip(pos, defaults)) + list(zip(args.kwonlyargs, args.kw_defaults))
        for a, d in pairs:
            env2.pop(a.arg, None)
            if d is None:
                continue
            if isinstance(d, ast.Name) and d.id in env:
                env2[a.arg] = env[d.id]
            else:
                try:
                    env2[a.arg] = ('const', _safe_eval(d, env))
                except _Unknown:
                    env2[a.arg] = ('unknown',)
        for extra in (args.vararg, args.kwarg):
            if extra is not None:
                env2.pop(extra.arg, None)
        # the accessors are parameters: never treat them as shadowed
        for acc in ('v', 'i', 'values', 'inputs'):
            if env2.get(acc) == ('unknown',) or any(a.arg == acc for a, _ in pairs):
                env2.pop(acc, None)
        # local constants (`NUM_FIELDS = 14`): names assigned exactly once in this function, to a literal value
        stores = {}
        for st in body:
            for n in ast.walk(st):
                if isinstance(n, ast.Name) and isinstance(n.ctx, ast.Store):
                    stores[n.id] = stores.get(n.id, 0) + 1
        for st in body:
            if isinstance(st, ast.Assign) and len(st.targets) == 1 and isinstance(st.targets[0], ast.Name) and \
                    stores.get(st.targets[0].id) == 1:
                try:
                    val = _safe_eval(st.value, env2)
                except _Unknown:
                    continue
                if isinstance(val, (int, str)) and not isinstance(val, bool):
                    env2[st.targets[0].id] = ('const', val)
        for s in body:
            self.visit(s, env2)

    def v_Lambda(self, node, env):
        self._function(node.args, [node.body], env)

    def v_FunctionDef(self, node, env):
        self._function(node.args, node.body, env)

    def v_Call(self, node, env):
        # the field a lambda / bound function belongs to: XField('name', fn, ...)
        fname = None
        if node.args and isinstance(node.func, ast.Name) and node.func.id.endswith('Field'):
            pat = _key_pattern(node.args[0], env)
            if all(p[0] == 'lit' for p in pat):
                fname = ''.join(p[1] for p in pat)
        if isinstance(node.func, ast.Attribute) and node.func.attr == 'threshold' and node.args:
            owner = node.func.value
            form = None
            if isinstance(owner, ast.Call) and isinstance(owner.func, ast.Attribute) and owner.func.attr == 'form':
                if owner.args:
                    fp = _key_pattern(owner.args[0], env)
                    form = ''.join(p[1] for p in fp) if all(p[0] == 'lit' for p in fp) else '?'
            self.thresholds.append({'form': form, 'pattern': _key_pattern(node.args[0], env), 'lineno': node.lineno,
                                    'field': self.field})
        if isinstance(node.func, ast.Attribute) and node.func.attr == 'form' and node.args:
            self.forms.append({'pattern': _key_pattern(node.args[0], env), 'lineno': node.lineno, 'field': self.field})
        saved = self.field
        if fname is not None:
            self.field = fname
        for ch in ast.iter_child_nodes(node):
            self.visit(ch, env)
        self.field = saved

    def v_Subscript(self, node, env):
        acc = _accessor(node.value, env)
        if acc is not None:
            self.keys.append({'kind': acc, 'pattern': _key_pattern(node.slice, env), 'lineno': node.lineno,
                              'field': self.field})
        for ch in ast.iter_child_nodes(node):
            self.visit(ch, env)


def show_pattern(pat):
    out = []
    for p in pat:
        if p[0] == 'lit':
            out.append(p[1])
        elif p[0] == 'nat':
            out.append('{%d..%s}' % (p[1], '' if p[2] is None else p[2]))
        elif p[0] == 'oneOf':
            out.append('{' + '|'.join(p[1]) + '}')
        elif p[0] == 'inst':
            out.append('{instance}')
        else:
            out.append('{?}')
    return ''.join(out)


def _expand(pat, inst):
    """concrete keys (unbounded holes explored up to WINDOW); None when a part is unknown"""
    keys = ['']
    if len(pat) == 3 and pat[0][0] == 'lit' and pat[0][1].endswith(':') and '.' not in pat[0][1] and \
            pat[1][0] == '?' and pat[2][0] == 'lit' and pat[2][1].startswith('.'):
        # an instance computed at run time: the form must have the key whatever the instance
        pat = [pat[0], ('oneOf', ['0', '7']), pat[2]]
    for p in pat:
        if p[0] == 'lit':
            alts = [p[1]]
        elif p[0] == 'nat':
            alts = [str(n) for n in range(p[1], p[1] + WINDOW if p[2] is None else p[2])]
        elif p[0] == 'oneOf':
            alts = list(p[1])
        elif p[0] == 'inst':
            if inst is None:
                return None
            alts = [inst]
        else:
            return None
        keys = [k + a for k in keys for a in alts]
    return keys


class RealForms:
    """instantiated forms of a year"""

    def __init__(self, year, absent):
        from habutax import forms as hforms
        self.year = year
        self.classes = list(hforms.available_forms[year])
        self.by_name = {c.form_name: c for c in self.classes}       # later wins, as in the solver's _form_map
        self.absent = set(absent)
        self._inst = {}

    def form(self, cls, inst):
        key = (cls, inst)
        if key not in self._inst:
            try:
                self._inst[key] = cls(instance=inst)
            except Exception as e:  # noqa: BLE001
                self._inst[key] = e
        return self._inst[key]

    def names(self, cls, inst, kind):
        f = self.form(cls, inst)
        if isinstance(f, Exception):
            return None
        return {x.base_name() for x in (f.fields() if kind == 'v' else f.inputs())}

    def check_key(self, cls, inst, kind, key):
        """(ok, qualified name, why)"""
        if '.' not in key:
            own = self.form(cls, inst)
            qn = f'{cls.form_name}{":" + inst if inst else ""}.{key}'
            names = self.names(cls, inst, kind)
            if names is None:
                return False, qn, f'own form cannot be constructed: {own!r}'
            return (key in names), qn, f'the own form {cls.form_name!r} has no {"line" if kind == "v" else "input"} {key!r}'
        f, k = key.split('.', 1)
        if '.' in k:
            return False, key, 'more than one dot'
        parts = f.split(':')
        if len(parts) > 2:
            return False, key, 'more than one colon in the form name'
        cn, ins = parts[0], (parts[1] if len(parts) == 2 else None)
        tcls = self.by_name.get(cn)
        if tcls is None:
            if cn in self.absent:
                return True, key, 'deliberately absent form'
            return False, key, f'no form class {cn!r} in the year\'s form list'
        names = self.names(tcls, ins, kind)
        if names is None:
            return False, key, f'form {f!r} cannot be constructed: {self.form(tcls, ins)!r}'
        return (k in names), key, f'form {f!r} has no {"line" if kind == "v" else "input"} {k!r}'


def static_check(year, absent):
    """unresolved references of the real form classes of a year, found on the AST"""
    real = RealForms(year, absent)
    unresolved, checked = [], 0
    for cls in real.classes:
        try:
            src_file = inspect.getsourcefile(cls)
            tree = ast.parse(open(src_file, encoding='utf-8').read())
        except Exception as e:  # noqa: BLE001
            unresolved.append({'year': year, 'class': cls.form_name, 'kind': 'source', 'name': None, 'pattern': '',
                               'why': f'source not available: {e!r}', 'where': None})
            continue
        cdef = next((n for n in ast.walk(tree) if isinstance(n, ast.ClassDef) and n.name == cls.__name__), None)
        if cdef is None:
            continue
        w = _Walker()
        # module-level helper functions that receive the accessors (called from lines) are walked as well
        for node in tree.body:
            if isinstance(node, ast.FunctionDef):
                w.visit(node, {})
        w.visit(cdef, {})
        insts = list(getattr(cls, 'valid_instances', None) or [None])
        rel = os.path.relpath(src_file, REPO)
        for rec in w.keys:
            pat = rec['pattern']
            seen = set()
            for inst in insts:
                keys = _expand(pat, inst)
                checked += 1
                if keys is None:
                    if show_pattern(pat) not in seen:
                        seen.add(show_pattern(pat))
                        unresolved.append({'year': year, 'class': cls.form_name, 'kind': rec['kind'], 'name': None,
                                           'pattern': show_pattern(pat), 'field': rec['field'],
                                           'why': 'part of the key is computed at run time', 'where': f'{rel}:{rec["lineno"]}'})
                    continue
                for k in keys:
                    ok, qn, why = real.check_key(cls, inst, rec['kind'], k)
                    if not ok:
                        unbounded = any(p[0] == 'nat' and p[2] is None for p in pat)
                        src = next((p[3] for p in pat if p[0] == 'nat' and p[2] is None), None)
                        unresolved.append({'year': year, 'class': cls.form_name, 'kind': rec['kind'], 'name': qn,
                                           'pattern': show_pattern(pat), 'field': rec['field'],
                                           'why': ('the loop index is not bounded by the code; ' if unbounded else '') + why,
                                           'bound_input': src, 'where': f'{rel}:{rec["lineno"]}'})
                        break
        for rec in w.thresholds:
            checked += 1
            tform = cls
            if rec['form'] == '?':
                tform = None
            elif rec['form'] is not None:
                tform = real.by_name.get(rec['form'].split(':')[0])
            pat = rec['pattern']
            table = None
            if tform is not None:
                fobj = real.form(tform, (getattr(tform, 'valid_instances', None) or [None])[0])
                table = getattr(fobj, '_thresholds', None) if not isinstance(fobj, Exception) else None
            keys = _expand(pat, None)
            if table is None or keys is None or any(k not in table for k in keys):
                bad = None if keys is None or table is None else next(k for k in keys if k not in table)
                unresolved.append({'year': year, 'class': cls.form_name, 'kind': 'threshold', 'name': bad,
                                   'pattern': show_pattern(pat), 'field': rec['field'],
                                   'why': 'threshold name is computed at run time' if keys is None else
                                          ('threshold table not available' if table is None else f'no threshold {bad!r}'),
                                   'where': f'{rel}:{rec["lineno"]}'})
        for rec in w.forms:
            checked += 1
            keys = _expand(rec['pattern'], None)
            if keys is None or any(k.split(':')[0] not in real.by_name for k in keys):
                unresolved.append({'year': year, 'class': cls.form_name, 'kind': 'form', 'name': None if keys is None else keys[0],
                                   'pattern': show_pattern(rec['pattern']), 'field': rec['field'],
                                   'why': 'self.form(…) of a form that is not in the year\'s list', 'where': f'{rel}:{rec["lineno"]}'})
        # required fields are fields
        for inst in insts:
            f = real.form(cls, inst)
            if isinstance(f, Exception):
                continue
            checked += 1
            names = {x.name() for x in f.fields()}
            for rf in f.required_fields():
                if rf.name() not in names:
                    unresolved.append({'year': year, 'class': cls.form_name, 'kind': 'required', 'name': rf.name(),
                                       'pattern': '', 'field': None, 'why': 'required field is not a field', 'where': rel})
    return unresolved, checked


# ======================================================================================================
# exceptions
# ======================================================================================================
def classify(e):
    """(is a C10 violation, kind, culprit, where) for the exception a solve ended with"""
    name = type(e).__name__
    frames = []
    tb = e.__traceback__
    while tb is not None:
        frames.append((tb.tb_frame, tb.tb_lineno))
        tb = tb.tb_next
    last_file = os.path.basename(frames[-1][0].f_code.co_filename) if frames else ''
    last_fn = frames[-1][0].f_code.co_name if frames else ''
    where = None
    for fr, ln in reversed(frames):
        fn = fr.f_code.co_filename
        if os.sep + 'forms' + os.sep in fn:
            where = f'{os.path.relpath(fn, REPO)}:{ln}'
            break
    if isinstance(e, RecursionError):
        culprit = None
        for fr, _ in frames[:60]:
            mis = fr.f_locals.get('mis') if fr.f_code.co_name == '_attempt_field' else None
            if mis is not None:       # the MissingInputSpecification being retried
                culprit = getattr(mis, 'input_name', None)
                break
        return True, 'RecursionError', culprit, where or 'solver.py (_add_input_spec retry)'
    if isinstance(e, AssertionError):
        if last_file == 'solver.py':
            # `assert ud.dependency in self._field_map` is raised while handling the UnmetDependency
            culprit = getattr(e.__context__, 'dependency', None)
            return True, 'AssertionError(solver.py)', culprit, f'solver.py:{frames[-1][1]} {last_fn}'
        if last_file == 'form.py' and last_fn == 'threshold':
            return True, 'AssertionError(threshold)', str(e)[:120], where
        return False, name, None, where
    if isinstance(e, (AttributeError, NameError, KeyError)):
        return True, name, str(e)[:120], where or f'{last_file}:{frames[-1][1] if frames else 0}'
    if isinstance(e, ValueError) and 'values to unpack' in str(e):
        return True, 'ValueError(unpack)', str(e)[:120], where or last_file
    return False, name, str(e)[:120], where


# ======================================================================================================
# (b) replay search
# ======================================================================================================
def _line_reads(ir_class, line):
    import gen_c10
    return gen_c10.refs_of_line(line)


def _full_input(form_name, key):
    return key if '.' in key else f'{form_name}.{key}'


def _input_kinds(ir):
    kinds = {}
    for c in ir['classes']:
        for n, k in c['inputs']:
            kinds[(c['name'], n)] = k
    return kinds


def _affirm(kind, count=1):
    k = kind[0] if kind else 'str'
    if k == 'bool':
        return 'yes'
    if k == 'int':
        return str(count)
    if k == 'float':
        return '1200'
    return None


def guard_settings(ir, cname, inst, line, witness):
    """answers that make the branches of a line execute: its own boolean inputs yes, its counts 1 (or just past
    the declared lines for an unbounded index), the amounts it reads through `cls:{n}.key` positive"""
    kinds = _input_kinds(ir)
    form_name = f'{cname}{":" + inst if inst else ""}'
    rv, ri = _line_reads(None, line)
    fixed = {}
    over = None
    name = witness.get('name')
    for pat in ri:
        if all(p[0] == 'lit' for p in pat):
            key = ''.join(p[1] for p in pat)
            full = _full_input(form_name, key)
            f, k = full.split('.', 1)
            kind = kinds.get((f.split(':')[0], k))
            a = _affirm(kind)
            if a is not None:
                fixed[full] = a
    for pat in rv:
        # cls:{n}.key  ->  one instance with a positive amount
        if len(pat) == 3 and pat[0][0] == 'lit' and pat[1][0] == 'nat' and pat[2][0] == 'lit' and pat[0][1].endswith(':'):
            cls = pat[0][1][:-1]
            key = pat[2][1].lstrip('.')
            kind = kinds.get((cls, key))
            if kind and kind[0] == 'float':
                fixed[f'{cls}:0.{key}'] = '1200'
            elif kind and kind[0] == 'bool':
                fixed[f'{cls}:0.{key}'] = 'yes'
            fixed.setdefault(f'1040.number_{cls}', '1')
    if name and witness.get('why', '').startswith('the loop index is not bounded'):
        # the first index that has no line: ask for one more item than there are lines
        digits = ''.join(ch if ch.isdigit() else ' ' for ch in (witness.get('key') or name).split('.')[-1]).split()
        if digits:
            over = int(digits[0]) + 1
    return fixed, over


def _enum_consts(node, out):
    """enumeration members the line's program compares with: (enum id, member)"""
    if isinstance(node, list):
        if len(node) == 3 and node[0] == 'enumv' and all(isinstance(x, str) for x in node[1:]):
            out.add((node[1], node[2]))
        for x in node:
            _enum_consts(x, out)
    elif isinstance(node, dict):
        for x in node.values():
            _enum_consts(x, out)
    return out


def enum_directed_plans(ir, line, base):
    """one plan per enumeration member the line mentions: every input of that enumeration answers that member
    (a branch such as `if v['1099-div:{n}.box_14_2'] == NC` is then taken)"""
    consts = sorted(_enum_consts(line.get('body'), set()))
    kinds = _input_kinds(ir)
    plans, combined = [], dict(base)
    for eid, member in consts:
        if eid in ('filing_status',) or 'filing_status' in eid.lower().replace(' ', '_'):
            continue
        keys = sorted({k for (_c, k), kind in kinds.items() if kind and kind[0] == 'enum' and kind[1] == eid})
        if not keys:
            continue
        g = dict(base)
        for k in keys:
            g[k] = member
            combined.setdefault(k, member)
        plans.append((f'enum {eid}={member}', g, 0.0))
    if len(plans) > 1:
        plans.append(('enum members combined', combined, 0.0))
    return plans[:8]


def search_replay(sc, seed, year, ir, cname, inst, line, witness, attempts, kinds_wanted=None):
    """run real solves that request the line until one ends in a C10 exception; returns (record, tries)"""
    form_name = f'{cname}{":" + inst if inst else ""}'
    field = f'{form_name}.{line["name"]}'
    base, over = guard_settings(ir, cname, inst, line, witness)
    status = sc.STATUS_MEMBERS[year]
    plans = [('benign', {}, 0.0), ('guards', dict(base), 0.0)]
    if over is not None:
        g2 = dict(base)
        bound = witness.get('bound_input') or '1040.number_dependents'
        for k in list(g2):
            if k.endswith('number_dependents'):
                g2[k] = str(over)
        g2[bound] = str(over)
        plans.insert(1, ('past the declared lines', g2, 0.0))
    directed = enum_directed_plans(ir, line, base)
    plans += directed
    # guards that are LINES, not inputs, cannot be set directly; the commonest one is `1040.itemizing` (a branch taken
    # only by a filer who really itemizes): a return that itemizes whatever the amounts (seed C10g: a line that does
    # not exist, read only on the itemizing branch of a worksheet)
    plans.insert(2, ('itemizing return', dict(base, **{'1040.itemize': 'yes', '1040_sa.itemize_though_less': 'yes',
                                                       '1040.number_1098': '1', '1040.number_dependents': '0'}), 0.0))
    attempts = max(attempts, len(plans))
    rng = random.Random(f'{seed}/c10/search/{year}/{field}')
    for k in range(max(0, attempts - len(plans))):
        g = dict(base)
        for key in list(g):
            if rng.random() < 0.3:
                del g[key]
        plans.append((f'random {k}', g, rng.choice([0.2, 0.5, 0.8])))
    last = None
    for n, (label, fixed, p_yes) in enumerate(plans[:max(attempts, 3)]):
        fx = {'1040.filing_status': status[n % len(status)] if n > 1 else 'Single'}
        fx.update(fixed)
        pol = sc.Policy(f'{seed}/c10/search/{year}/{field}/{n}', year, fixed=fx, p_yes=p_yes)
        try:
            r = sc.run(year, [form_name], pol, fields=[field])
        except Exception as e:  # noqa: BLE001  (the field itself may not exist)
            return {'reproduced': False, 'verdict': f'could not run: {type(e).__name__}: {e}'[:200], 'tries': n + 1}, n + 1
        e = r['exception']
        if e is not None:
            bad, kind, culprit, where = classify(e)
            rec = {'reproduced': bad, 'exception': kind, 'message': str(e)[:160], 'culprit': culprit, 'where': where,
                   'plan': label, 'tries': n + 1,
                   'replay': {'kind': 'scenario', 'year': year, 'forms': [form_name], 'fields': [field],
                              'inputs': sc.inputs_of(r)}}
            if bad or (kinds_wanted and kind in kinds_wanted):
                return rec, n + 1
            last = rec
        elif last is None:
            last = {'reproduced': False, 'verdict': 'solved' if r['ok'] else 'not solved (no exception)',
                    'unimplemented': list(r['solver']._unimplemented_fields)[:4], 'plan': label, 'tries': n + 1}
    if last is not None:
        last['reproduced'] = bool(last.get('reproduced'))
        last['tries'] = len(plans[:max(attempts, 3)])
    return last, len(plans[:max(attempts, 3)])


# ======================================================================================================
# run
# ======================================================================================================
def _lean_witnesses(year, absent):
    """the failing obligations of the Lean check, as computed by the generator's mirror"""
    import gen_c10
    A = gen_c10.analyse_year(year, absent)
    out = []
    for c, ce in zip(A['ir']['classes'], A['classes']):
        for l, le in zip(c['lines'], ce['lines']):
            for w in le['refs_fail']:
                out.append({'year': year, 'class': c['name'], 'line': l['name'], 'kind': w['kind'], 'pattern': w['pattern'],
                            'name': w['name'], 'key': w['key'], 'instance': w['instance'], 'why': w['why'], '_line': l,
                            'obligation': f'bad_{gen_c10.ident(c["name"])}_l{le["k"]}'})
            for s in le['scan_fail']:
                out.append({'year': year, 'class': c['name'], 'line': l['name'], 'kind': 'scan', 'pattern': '', 'name': None,
                            'key': None, 'instance': None, 'why': s, '_line': l,
                            'obligation': f'sbad_{gen_c10.ident(c["name"])}_l{le["k"]}'})
    return A['ir'], out


def run(seed, tier, years=YEARS):
    import scenarios as sc
    import gen_c10
    absent_all = gen_c10.load_absent()
    quick = tier == 'quick'
    attempts = 8 if quick else 30
    n_whole = 8 if quick else 40
    n_field = 60 if quick else 400
    violations, witnesses, samples = [], [], []
    static_summary = {}
    seen = set()
    checked = 0
    dist = {'solved': 0, 'not solved': 0}
    exc_kinds = {}

    def violation(key, what, replay, **extra):
        if key in seen:
            return
        seen.add(key)
        violations.append(dict({'key': key, 'what': what, 'replay': replay}, **extra))

    for year in years:
        absent = absent_all.get(year, [])
        ir, lean = _lean_witnesses(year, absent)
        by_class = {c['name']: c for c in ir['classes']}
        # ------------------------------------------------------------------ (a) static cross-check
        static, n_static = static_check(year, absent)
        checked += n_static
        skey = {(u['class'], u['kind'], u['name'] or u['pattern']) for u in static if u['kind'] in ('v', 'i')}
        lkey = {(w['class'], w['kind'], w['name'] or w['pattern']) for w in lean if w['kind'] in ('v', 'i')}
        static_only = sorted(skey - lkey)
        lean_only = sorted(lkey - skey)
        static_summary[str(year)] = {
            'checked': n_static, 'unresolved': [dict(u) for u in static], 'lean_witnesses': len(lean),
            'static_only': [list(t) for t in static_only], 'lean_only': [list(t) for t in lean_only]}
        for t in static_only:
            u = next(u for u in static if (u['class'], u['kind'], u['name'] or u['pattern']) == t)
            violation(f'c10_{year}_static_{t[0]}_{t[2]}',
                      f'{year}: the AST of {u["where"]} refers to {t[1]}[{u["pattern"]}] -> {u["name"]} ({u["why"]}), which the '
                      f'Lean reference check does not flag', None, disagreement='static_only', detail=u)
        for u in static:
            if u['kind'] in ('threshold', 'form', 'required', 'source'):
                # cross-check of the structural scan: such a finding must be a Lean scan witness of the same line
                if not any(w['kind'] == 'scan' and w['class'] == u['class'] and (u.get('field') in (None, w['line']))
                           for w in lean):
                    violation(f'c10_{year}_static_{u["class"]}_{u["kind"]}_{u["pattern"]}',
                              f'{year}: {u["where"]}: {u["why"]} ({u["kind"]} {u["pattern"]!r}); not flagged by the Lean scan',
                              None, disagreement='static_only', detail=u)
        # ------------------------------------------------------------------ (b) a real solve for every witness
        for w in lean:
            c = by_class[w['class']]
            inst = w['instance']
            if inst is None and c['instRule'][0] == 'oneOf':
                inst = c['instRule'][1][0]
            wit = dict(w)
            line = wit.pop('_line')
            if w['kind'] == 'scan':
                wit['bound_input'] = None
                rec, tries = search_replay(sc, seed, year, ir, w['class'], inst, line, wit, attempts)
                # a threshold name computed from an input: try the values the table does not have
                if not (rec and rec.get('reproduced')):
                    # sweep every integer input the line reads over small values on both sides of what a table may hold
                    kinds = _input_kinds(ir)
                    form_name = f'{w["class"]}{":" + inst if inst else ""}'
                    _rv, ri_ = gen_c10.refs_of_line(line)
                    int_inputs = []
                    for pat in ri_:
                        if all(p[0] == 'lit' for p in pat):
                            full = _full_input(form_name, ''.join(p[1] for p in pat))
                            f_, k_ = full.split('.', 1)
                            kd = kinds.get((f_.split(':')[0], k_))
                            if kd and kd[0] == 'int' and full not in int_inputs:
                                int_inputs.append(full)
                    done_sweep = False
                    for name in (int_inputs or ['1040.number_dependents']):
                        for val in list(range(-3, 10)):
                            pol = sc.Policy(f'{seed}/c10/scan/{year}/{w["class"]}.{w["line"]}/{name}={val}', year,
                                            fixed={'1040.filing_status': 'Single', name: str(val)})
                            r = sc.run(year, [form_name], pol, fields=[f'{form_name}.{w["line"]}'])
                            tries += 1
                            if r['exception'] is not None:
                                bad, kind, culprit, where = classify(r['exception'])
                                if bad:
                                    rec = {'reproduced': True, 'exception': kind, 'message': str(r['exception'])[:160],
                                           'culprit': culprit, 'where': where, 'plan': f'{name}={val}', 'tries': tries,
                                           'replay': {'kind': 'scenario', 'year': year, 'forms': [form_name],
                                                      'fields': [f'{form_name}.{w["line"]}'], 'inputs': sc.inputs_of(r)}}
                                    done_sweep = True
                                    break
                        if done_sweep:
                            break
            else:
                su = next((u for u in static if (u['class'], u['kind'], u['name'] or u['pattern']) ==
                           (w['class'], w['kind'], w['name'] or w['pattern'])), None)
                wit['bound_input'] = su.get('bound_input') if su else None
                if wit['bound_input'] and '.' not in wit['bound_input']:
                    wit['bound_input'] = f'{w["class"]}.{wit["bound_input"]}'
                rec, tries = search_replay(sc, seed, year, ir, w['class'], inst, line, wit, attempts)
            checked += tries
            confirmed_static = (w['class'], w['kind'], w['name'] or w['pattern']) in skey if w['kind'] != 'scan' else None
            entry = dict(wit, confirmed_by_static_check=confirmed_static, search=rec,
                         status=('CONFIRMED by a real solve' if rec and rec.get('reproduced') else
                                 ('REFUTED: the source does not read this name (imprecision of the read-set analysis)'
                                  if confirmed_static is False else 'not reproduced by the search')))
            witnesses.append(entry)
            if rec and rec.get('reproduced'):
                violation(f'c10_{year}_{w["class"]}.{w["line"]}_{rec["exception"]}',
                          f'{year}: line {w["class"]}.{w["line"]} refers to {w["kind"]}[{w["pattern"]}] -> {w["name"]} '
                          f'({w["why"]}); a real solve that requests the line aborts with {rec["exception"]}: {rec["message"]}',
                          rec['replay'], obligation=w['obligation'], culprit=rec.get('culprit'), where=rec.get('where'))
        # ------------------------------------------------------------------ the deliberately absent forms
        for a in absent:
            readers = []
            for c in ir['classes']:
                for l in c['lines']:
                    rv, _ri = gen_c10.refs_of_line(l)
                    if any(p and p[0][0] == 'lit' and p[0][1].split(':')[0].split('.')[0] == a for p in rv):
                        readers.append((c, l))
            rec = None
            for c, l in readers:
                inst = c['instRule'][1][0] if c['instRule'][0] == 'oneOf' else None
                wit = {'name': None, 'why': '', 'key': None, 'bound_input': None}
                extra_fixed = {'1040.number_' + a: '1', '1040.need_8962': 'yes'}
                form_name = f'{c["name"]}{":" + inst if inst else ""}'
                field = f'{form_name}.{l["name"]}'
                base, _ = guard_settings(ir, c['name'], inst, l, wit)
                base.update(extra_fixed)
                base.setdefault('1040.filing_status', 'Single')
                pol = sc.Policy(f'{seed}/c10/absent/{year}/{field}', year, fixed=base)
                r = sc.run(year, [form_name], pol, fields=[field])
                checked += 1
                e = r['exception']
                if isinstance(e, NotImplementedError) and 'is not supported' in str(e) and a in str(e):
                    rec = {'reader': field, 'exception': 'NotImplementedError', 'message': str(e),
                           'replay': {'kind': 'scenario', 'year': year, 'forms': [form_name], 'fields': [field],
                                      'inputs': sc.inputs_of(r)}}
                    break
                if e is not None:
                    bad, kind, culprit, where = classify(e)
                    if bad:
                        violation(f'c10_{year}_absent_{a}_{kind}',
                                  f'{year}: reaching the deliberately absent form {a} through {field} aborts with {kind}: '
                                  f'{str(e)[:120]} instead of "Form {a} is not supported."',
                                  {'kind': 'scenario', 'year': year, 'forms': [form_name], 'fields': [field],
                                   'inputs': sc.inputs_of(r)})
            witnesses.append({'year': year, 'class': None, 'line': None, 'kind': 'absent form', 'name': a,
                              'readers': [f'{c["name"]}.{l["name"]}' for c, l in readers],
                              'status': 'CONFIRMED: the solve aborts saying the form is not supported' if rec
                              else 'the unsupported-form report was not reached by the search', 'search': rec})
        # ------------------------------------------------------------------ (c) statement oracle on random solves
        rng = random.Random(f'{seed}/c10/random/{year}')

        def observe(r, sd, forms, fields):
            nonlocal checked
            checked += 1
            e = r['exception']
            if e is None:
                dist['solved' if r['ok'] else 'not solved'] += 1
                return
            bad, kind, culprit, where = classify(e)
            exc_kinds[kind] = exc_kinds.get(kind, 0) + 1
            if bad:
                violation(f'c10_{year}_{kind}_{culprit or where}',
                          f'{year}: a solve of {forms}{" requesting " + str(fields) if fields else ""} aborts with {kind}'
                          f'{" on " + str(culprit) if culprit else ""} at {where}: {str(e)[:120]}',
                          {'kind': 'scenario', 'year': year, 'forms': forms, 'fields': fields, 'inputs': sc.inputs_of(r),
                           'scenario_seed': sd}, culprit=culprit, where=where)

        for k in range(n_whole):
            sd = f'{seed}/c10/whole/{year}/{k}'
            pol, kind = sc.gen_policy(sd, year)
            forms = sc.request_for(sd, year, kind)
            r = sc.run(year, forms, pol)
            observe(r, sd, forms, [])
            if len(samples) < 4:
                samples.append({'year': year, 'forms': forms, 'policy': kind,
                                'verdict': ('exception ' + type(r['exception']).__name__) if r['exception'] is not None
                                else ('solved' if r['ok'] else 'not solved')})
        optional = [(c, l) for c in ir['classes'] for l in c['lines'] if not l['required']]
        for k in range(n_field):
            c, l = optional[rng.randrange(len(optional))]
            inst = rng.choice(c['instRule'][1]) if c['instRule'][0] == 'oneOf' else \
                (rng.choice(['0', '1']) if c['name'] in ('w-2', '1098', '1099-int', '1099-div', '1099-g', '1099-r') else None)
            form_name = f'{c["name"]}{":" + inst if inst else ""}'
            field = f'{form_name}.{l["name"]}'
            sd = f'{seed}/c10/field/{year}/{k}'
            base, _ = guard_settings(ir, c['name'], inst, l, {'name': None, 'why': ''})
            if rng.random() < 0.4:
                base = {}
            base.setdefault('1040.filing_status', rng.choice(sc.STATUS_MEMBERS[year]))
            pol = sc.Policy(sd, year, fixed=base, p_yes=rng.choice([0.0, 0.1, 0.5]), max_count=rng.choice([1, 3, 5]))
            try:
                r = sc.run(year, [form_name], pol, fields=[field])
            except KeyError:
                continue
            observe(r, sd, [form_name], [field])
            if len(samples) < 10 and k < 3:
                samples.append({'year': year, 'forms': [form_name], 'fields': [field],
                                'verdict': ('exception ' + type(r['exception']).__name__) if r['exception'] is not None
                                else ('solved' if r['ok'] else 'not solved')})
    return {'violations': violations, 'checked': checked, 'witnesses': witnesses, 'samples': samples,
            'static': static_summary, 'distribution': dict(dist, exceptions=exc_kinds)}


if __name__ == '__main__':
    import json
    res = run(int(os.environ.get('VERIF_SEED', '0')), os.environ.get('VERIF_TIER', 'quick'))
    for y in res['static'].values():
        y['unresolved'] = y['unresolved'][:40]
    json.dump(res, sys.stdout, indent=1, default=str)
