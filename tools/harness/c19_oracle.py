"""C19 statement oracle: run the REAL PDFFiller.fill on solutions of real solves (pdftk replaced by a
recorder), decode every FDF with an independent PDF literal-string decoder and compare with the text
each mapping should transmit; check which forms were filled, how often and in which order."""
import configparser
import io
import os
import subprocess
import sys

from common import REPO  # noqa: F401


def py_pdf_decode(s, i):
    """decode one PDF literal string starting after '(' at index i; returns (text, index after ')')"""
    out, depth = [], 0
    while i < len(s):
        c = s[i]
        if c == '\\':
            i += 1
            if i >= len(s):
                return None
            e = s[i]
            if e in 'nrtbf':
                out.append({'n': '\n', 'r': '\r', 't': '\t', 'b': '\b', 'f': '\f'}[e]); i += 1
            elif e in '()\\':
                out.append(e); i += 1
            elif e in '01234567':
                j, v = i, 0
                while j < len(s) and j < i + 3 and s[j] in '01234567':
                    v = v * 8 + int(s[j]); j += 1
                out.append(chr(v % 256)); i = j
            elif e == '\n':
                i += 1
            elif e == '\r':
                i += 1
                if i < len(s) and s[i] == '\n':
                    i += 1
            else:
                out.append(e); i += 1
        elif c == '(':
            depth += 1; out.append(c); i += 1
        elif c == ')':
            if depth == 0:
                return ''.join(out), i + 1
            depth -= 1; out.append(c); i += 1
        elif c == '\r':
            out.append('\n'); i += 1
            if i < len(s) and s[i] == '\n':
                i += 1
        else:
            out.append(c); i += 1
    return None


def decode_fdf(text):
    """list of (name, value) from an FDF produced by _create_fdf; None if malformed"""
    from habutax import pdf_filler
    if not text.startswith(pdf_filler.fdf_header) or not text.endswith(pdf_filler.fdf_footer):
        return None
    body = text[len(pdf_filler.fdf_header):len(text) - len(pdf_filler.fdf_footer)]
    res, i = [], 0
    while i < len(body):
        if body.startswith('\n', i):
            i += 1
            continue
        if not body.startswith('<< /T (', i):
            return None
        r = py_pdf_decode(body, i + len('<< /T ('))
        if r is None:
            return None
        k, i = r
        if not body.startswith(' /V (', i):
            return None
        r = py_pdf_decode(body, i + len(' /V ('))
        if r is None:
            return None
        v, i = r
        if not body.startswith(' >>', i):
            return None
        i += 3
        res.append((k, v))
    return res


def run_fill(year, solver, version='0.2.1'):
    """emulate `habutax solve --solution f` + `habutax fill-pdfs f out` up to pdftk; returns dict"""
    from habutax import pdf_filler, forms as hforms, values as hvalues
    import habutax
    import tempfile
    import types
    solution = solver.solution()
    solution['habutax'] = {'tax_year': year, 'version': version}
    tmpd = tempfile.mkdtemp(prefix='hv-c19-')
    path = os.path.join(tmpd, 'solution.ini')
    with open(path, 'w') as fh:          # what `habutax solve --solution` does
        solution.write(fh)
    with open(path) as fh:
        text = fh.read()
    calls, fdfs = [], {}
    orig_run = subprocess.run
    made = {}

    def fake_run(cmd, check=True):
        calls.append(list(cmd))
        if len(cmd) > 3 and cmd[2] == 'fill_form':
            with open(cmd[3], encoding='utf-8') as f:
                fdfs[cmd[5]] = f.read()
            open(cmd[5], 'w').close()
        class R:  # noqa: D401
            returncode = 0
        return R()

    # the REAL `habutax.fill_pdfs` reads the file (its own reader construction, tax-year parsing, removal of the special
    # section) and builds the REAL PDFFiller; only pdftk (subprocess.run) is replaced, and the filler object is kept
    real_filler = pdf_filler.PDFFiller

    class Keep(real_filler):
        def __init__(self, sol, forms, output, flatten=False):
            made['p'] = self
            made['forms'] = forms
            super().__init__(sol, forms, output, flatten=flatten)
    subprocess.run = fake_run
    habutax.pdf_filler.PDFFiller = Keep
    exc = None
    try:
        try:
            habutax.fill_pdfs(types.SimpleNamespace(solution=path, output='/dev/null', flatten=False))
        finally:
            subprocess.run = orig_run
            habutax.pdf_filler.PDFFiller = real_filler
            import shutil
            shutil.rmtree(tmpd, ignore_errors=True)
    except BaseException as e:  # noqa: BLE001
        if isinstance(e, (KeyboardInterrupt, SystemExit)):
            raise
        exc = e
    p = made.get('p')
    tax_year = next((y for y, fs in hforms.available_forms.items() if fs is made.get('forms')), year if p is None else None)
    if p is None:
        # the reader itself failed: keep an (unfilled) filler over a faithful reading so that the checks can say what is missing
        sol2 = configparser.ConfigParser(interpolation=None)
        sol2.read_string(text)
        sol2.remove_section('habutax')
        p = real_filler(sol2, hforms.available_forms[year], '/dev/null')
    buf = io.StringIO(text)
    return dict(filler=p, calls=calls, fdfs=fdfs, exception=exc, tax_year=tax_year, text=buf.getvalue())


def check_fill(year, solver, res):
    """the statement of C19 on one fill; returns list of (key, message)"""
    from habutax import values as hvalues, form as hform
    probs = []
    p = res['filler']
    if res['tax_year'] != year:
        probs.append(('year', f'solution carries tax year {res["tax_year"]}, solved for {year}'))
    if res['exception'] is not None:
        e = res['exception']
        from habutax import pdf_fields
        if isinstance(e, (pdf_fields.PDFValueTooLong, pdf_fields.PDFInvalidChoiceValue)):
            return probs          # the documented way to stop: not a violation
        probs.append(('fill-exception', f'fill raised {type(e).__name__}: {str(e)[:120]}'))
        return probs
    # what the filler holds is what was solved: every value of the solution, read from the file the way the real
    # fill_pdfs reads it, is the value the solver stored (the file layer must not reinterpret text: %, #, ;, blanks)
    for name, val in solver._v.values.items():
        try:
            got = p._values[name]
        except BaseException as e:  # noqa: BLE001
            if isinstance(e, (KeyboardInterrupt, SystemExit)):
                raise
            probs.append(('value-lost:' + name, f'{name} = {val!r} was solved, the filler cannot read it back: {type(e).__name__}'))
            break
        import enum as _enum
        if isinstance(val, _enum.Enum) or isinstance(got, _enum.Enum):
            same = repr(got) == repr(val)       # enumeration classes are rebuilt per form object: compare class and member names
        else:
            same = got == val and type(got) is type(val)
        if not same:
            probs.append(('value-read:' + name, f'{name} was solved as {val!r}, the filler read {got!r} from the solution file'))
            break
    # which forms, how often, which order
    expected = [f for f in p.forms if f.needs_filing(p._values)]
    expected_sorted = sorted(expected, key=lambda f: (f.jurisdiction, f.sequence_no))
    cat = res['calls'][-1] if res['calls'] else []
    filled_names = [os.path.basename(x)[:-4] for x in cat[1:cat.index('cat')]] if 'cat' in cat else []
    exp_names = [f.name() for f in expected_sorted]
    if filled_names != exp_names:
        probs.append(('selection', f'forms handed to pdftk cat {filled_names} != forms needing filing in order {exp_names}'))
    for f in expected:
        if isinstance(f, hform.InputForm) or not f.pdf_file() or not f.pdf_fields():
            probs.append(('selection-kind', f'{f.name()} is filled but is input-only / has no template'))
    fill_cmds = [c for c in res['calls'] if len(c) > 3 and c[2] == 'fill_form']
    if sorted(os.path.basename(c[5])[:-4] for c in fill_cmds) != sorted(exp_names):
        probs.append(('selection-fill', 'fill_form calls do not match the forms needing filing, once each'))
    # every FDF decodes to the mapped text
    for c in fill_cmds:
        name = os.path.basename(c[5])[:-4]
        form = [f for f in expected if f.name() == name]
        if not form:
            continue
        form = form[0]
        dec = decode_fdf(res['fdfs'].get(c[5], ''))
        if dec is None:
            probs.append(('fdf-malformed:' + name, f'FDF for {name} does not parse under the PDF string syntax'))
            continue
        want = {}
        for pf in form.pdf_fields():
            fname = pf.field_name if '.' in pf.field_name else f'{form.name()}.{pf.field_name}'
            try:
                val = p._values[fname]
                want[pf.pdf_field_name] = pf.value(val, p._field_map[fname])
            except hvalues.UnmetDependency:
                want[pf.pdf_field_name] = ''
        got = dict(dec)
        if len(got) != len(dec):
            probs.append(('fdf-dup:' + name, f'FDF for {name} names a field twice'))
        for k, v in want.items():
            if got.get(k) != v:
                probs.append(('fdf-value:' + name + ':' + k, f'{name}: field {k} decodes to {got.get(k)!r}, mapped text is {v!r}'))
                break
        extra = set(got) - set(want)
        if extra:
            probs.append(('fdf-extra:' + name, f'{name}: FDF has fields that no mapping produced: {sorted(extra)[:3]}'))
    return probs


ADVERSARIAL = ['O\\Brien (Jr', 'a) /V (b', '((', '))', '\\', '\\\\(', "it's \"quoted\"", ')(', 'x' * 300,
               '100% (approx)', 'back\\slash)', '(balanced)', '<< /T (x) >>', 'tab\there', 'semi;colon#hash',
               'Bo%%b', '12 %(city)s Rd', 'NYPFL 0.455%']


def adversarial_text(seed):
    import hashlib

    def text(name):
        h = int(hashlib.sha256(f'{seed}|{name}'.encode()).hexdigest(), 16)
        if h % 3 == 0:
            return ADVERSARIAL[(h // 3) % len(ADVERSARIAL)]
        return ['Bob', 'Smith', '12 Main St', 'Mytown', '99999', 'Teacher'][(h // 3) % 6]
    return text


def sequence_check():
    """the order of the forms handed to `pdftk cat` is the forms' `sequence_no`: compare it with the "Attachment
    Sequence No." printed in the bundled template of every form that has one (independent of the code)"""
    import os
    import re
    import sys
    from common import REPO, VERIF
    sys.path.insert(0, os.path.join(VERIF, 'tools'))
    import pdf_extract
    from habutax import forms as hforms
    probs, checked = [], 0
    for year, classes in sorted(hforms.available_forms.items()):
        for cls in classes:
            # the template is named in the form's module (`pdf_file = os.path.join(os.path.dirname(__file__), 'f8959.pdf')`)
            import inspect
            try:
                src_file = inspect.getsourcefile(cls)
                names = set(re.findall(r"['\"]([\w\-]+\.pdf)['\"]", open(src_file).read()))
            except Exception:  # noqa: BLE001
                continue
            if len(names) != 1:
                continue
            path = os.path.join(os.path.dirname(src_file), names.pop())
            if not os.path.exists(path):
                continue
            try:
                pdf = pdf_extract.PDF(open(path, 'rb').read())
                af, _fields = pdf_extract.acroform_fields(pdf)
                pk = pdf_extract.xfa_packets(pdf, af) if af else None
            except Exception:  # noqa: BLE001  (C18 reports unreadable templates)
                continue
            if not pk:
                continue
            flat = re.sub(r'<[^>]+>', ' ', b' '.join(pk.values()).decode('utf-8', 'replace'))
            printed = set(re.findall(r'Sequence\s+No\.?\s*(\d+)[A-Z]?', flat))
            if len(printed) != 1:
                continue
            checked += 1
            want = int(printed.pop())
            if getattr(cls, 'sequence_no', None) != want:
                probs.append((f'sequence:{year}:{cls.form_name}', f'{year} form {cls.form_name}: sequence_no = {getattr(cls, "sequence_no", None)!r} but the bundled {os.path.basename(path)} prints Attachment Sequence No. {want}: the filled forms are handed to pdftk in the wrong order'))
    return probs, checked
