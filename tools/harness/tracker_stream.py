"""tracker stream: the real DependencyTracker driven step-wise (next() on the generator, interleaved with
registrations) vs the Lean model, plus the multiset specification as an oracle on the real code."""
import itertools
import random

from common import REPO  # noqa: F401


def real_history(ops):
    from habutax.solver import DependencyTracker
    t = DependencyTracker()
    gen = None
    out = []
    for op in ops:
        k = op[0]
        if k == 'add':
            t.add_unmet(op[1], op[2]); out.append('ok')
        elif k == 'meet':
            t.meet(op[1]); out.append('ok')
        elif k == 'hasmet':
            out.append('true' if t.has_met() else 'false')
        elif k == 'hasunmet':
            out.append('true' if t.has_unmet() else 'false')
        elif k == 'deps':
            out.append(','.join(t.unmet_dependencies()))
        elif k == 'dependents':
            try:
                out.append(','.join(t.unmet_dependents(op[1])))
            except KeyError:
                out.append('KeyError')
        elif k == 'next':
            if gen is None:
                gen = t.met_dependents()
            try:
                out.append('yield ' + next(gen))
            except StopIteration:
                gen = None
                out.append('stop')
            except IndexError:
                gen = None
                out.append('crash')
        elif k == 'drain':
            try:
                out.append('drained ' + ','.join(list(t.met_dependents())))
                gen = None
            except IndexError:
                out.append('crash')
    return out, t


def spec_check(ops):
    """multiset specification on the REAL tracker (the statement of Tracker.drainStep_spec /
    drainAll_spec): a waiter is handed out only for a dependency that is marked met at that moment and
    on which it has a registered wait, which is thereby consumed (never twice); when the generator
    stops no registered wait on a then-met dependency remains (none lost); has_unmet agrees."""
    from habutax.solver import DependencyTracker
    t = DependencyTracker()
    waiting = []          # multiset of (dep, waiter) registered and not yet released
    probs = []
    gen = None
    for op in ops:
        k = op[0]
        if k == 'add':
            t.add_unmet(op[1], op[2]); waiting.append((op[1], op[2]))
        elif k == 'meet':
            t.meet(op[1])
        elif k in ('next', 'drain'):
            steps = 0
            while True:
                met_now = list(t._met)
                if gen is None:
                    gen = t.met_dependents()
                try:
                    w = next(gen)
                except StopIteration:
                    gen = None
                    left = [(d, x) for d, x in waiting if d in met_now]
                    if left:
                        probs.append(f'generator stopped while waits on met dependencies remain: {left[:3]}')
                    break
                except IndexError:
                    gen = None
                    probs.append('generator popped from an empty list')
                    break
                first = [m for m in met_now if any(d == m for d, _ in waiting)]
                cands = [(d, x) for d, x in waiting if x == w and first and d == first[0]]
                if not cands:
                    probs.append(f'{w} released without a registered wait on a met dependency (early / duplicate release)')
                else:
                    waiting.remove(cands[0])
                steps += 1
                if k == 'next':
                    break
                if steps > len(ops) + 5:
                    probs.append('drain does not terminate')
                    break
        elif k == 'hasunmet':
            exp = any(True for d, w in waiting if d not in t._met)
            if t.has_unmet() != exp:
                probs.append(f'has_unmet() = {t.has_unmet()}, specification says {exp}')
    return probs


def gen_history(rng, n):
    deps, ws = ['a', 'b', 'c'], ['x', 'y', 'z', 'w']
    ops = []
    for _ in range(n):
        r = rng.random()
        if r < 0.32:
            ops.append(('add', rng.choice(deps), rng.choice(ws)))
        elif r < 0.52:
            ops.append(('meet', rng.choice(deps)))
        elif r < 0.75:
            ops.append(('next',))
        elif r < 0.80:
            ops.append(('drain',))
        elif r < 0.86:
            ops.append(('hasunmet',))
        elif r < 0.91:
            ops.append(('hasmet',))
        elif r < 0.96:
            ops.append(('deps',))
        else:
            ops.append(('dependents', rng.choice(deps)))
    return ops


def run(seed, n, run_step, exhaustive_len=0):
    cases, proto = [], []
    for k in range(n):
        rng = random.Random(f'{seed}/tracker/{k}')
        cases.append(gen_history(rng, rng.choice([5, 10, 20, 40])))
    if exhaustive_len:
        alphabet = [('add', 'a', 'x'), ('add', 'a', 'y'), ('add', 'b', 'x'), ('meet', 'a'), ('meet', 'b'), ('next',), ('drain',)]
        for L in range(1, exhaustive_len + 1):
            for ops in itertools.product(alphabet, repeat=L):
                cases.append(list(ops) + [('hasunmet',), ('deps',)])
    for ops in cases:
        proto.append('tracker-begin')
        proto += [' '.join(op) for op in ops]
        proto.append('end')
    out = run_step(proto)
    pos, dis, spec_probs, dist = 0, [], [], {}
    for ops in cases:
        model = out[pos:pos + len(ops)]
        pos += len(ops)
        real, _ = real_history(ops)
        for o in real:
            dist[o.split(' ')[0]] = dist.get(o.split(' ')[0], 0) + 1
        if model != real:
            dis.append({'op': [' '.join(o) for o in ops], 'model': model, 'real': real})
        for p in spec_check(ops):
            spec_probs.append({'ops': [' '.join(o) for o in ops], 'problem': p})
    return {'cases': len(cases), 'disagreements': dis, 'distribution': dist, 'spec_problems': spec_probs,
            'distinct_nontrivial': sum(1 for ops in cases if any(o[0] == 'next' for o in ops) and any(o[0] == 'add' for o in ops)),
            'samples': [[' '.join(o) for o in cases[0]]] if cases else []}
