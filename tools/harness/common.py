"""Shared helpers: paths, driver invocation, seeds."""
import os
import subprocess
import sys

VERIF = os.path.dirname(os.path.dirname(os.path.dirname(os.path.abspath(__file__))))
REPO = os.environ.get('HABUTAX_REPO', '/repo')
LEAN_DIR = os.path.join(VERIF, 'lean')
DRIVER = os.path.join(LEAN_DIR, '.lake', 'build', 'bin', 'driver')

os.environ.setdefault('HABUTAX_VERIF', '1')
sys.dont_write_bytecode = True
if REPO not in sys.path:
    sys.path.insert(0, REPO)


def seed():
    try:
        return int(os.environ.get('VERIF_SEED', '0'))
    except ValueError:
        return 0


def tier():
    return os.environ.get('VERIF_TIER', 'quick')


def run_driver(lines, timeout=600):
    """Pipe protocol lines to the compiled model driver; return its output lines."""
    data = ('\n'.join(lines) + '\n').encode('utf-8')
    p = subprocess.run([DRIVER], input=data, stdout=subprocess.PIPE, stderr=subprocess.PIPE, timeout=timeout)
    if p.returncode != 0:
        raise RuntimeError(f'driver failed ({p.returncode}): {p.stderr.decode()[:2000]}')
    return p.stdout.decode('utf-8').split('\n')[:-1]


import time as _time
WORK_SECONDS = 45
_exceeded = []


class WorkBudgetExceeded(RuntimeError):
    """raised inside a REAL solve that made more line attempts than any terminating solve of that size could:
    the harness treats it as a failure of termination / bounded work, never as tool trouble"""


WORK_BUDGET = int(os.environ.get('VERIF_WORK_BUDGET', '60000'))


def install_work_budget():
    """wrap habutax.solver.Solver._attempt_field once, process-wide, with a per-solver attempt counter; harness
    modules that patch the method themselves wrap this wrapper (they save and restore whatever they found)"""
    try:
        from habutax import solver as hsolver
    except Exception:  # noqa: BLE001  (a tree that does not import is reported by the checks themselves)
        return
    if getattr(hsolver.Solver._attempt_field, '_verif_budget', False):
        return
    inner = hsolver.Solver._attempt_field

    def counted(self, field, *a, **kw):
        n = getattr(self, '_verif_attempts', 0) + 1
        self._verif_attempts = n
        if n > WORK_BUDGET:
            raise WorkBudgetExceeded(f'more than {WORK_BUDGET} line attempts in one solve (last: {field.name()})')
        # a runaway solve can also get SLOWER per attempt (a queue that grows with every attempt is re-sorted each
        # time): a wall-clock bound per solve as well -- real solves take well under a second
        if n == 1:
            self._verif_t0 = _time.monotonic()
        elif n % 64 == 0 and _time.monotonic() - getattr(self, '_verif_t0', _time.monotonic()) > (WORK_SECONDS if not _exceeded else 3):
            _exceeded.append(n)     # once one solve has run away, later ones get 3 s: the check must still end in minutes
            raise WorkBudgetExceeded(f'one solve ran for more than {WORK_SECONDS} s ({n} line attempts, queue of {len(getattr(self, "_unattempted_fields", []))}; last: {field.name()})')
        return inner(self, field, *a, **kw)

    counted._verif_budget = True
    hsolver.Solver._attempt_field = counted


install_work_budget()
