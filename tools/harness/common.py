"""Shared helpers: paths, driver invocation, seeds."""
import os
import subprocess
import sys

VERIF = os.path.dirname(os.path.dirname(os.path.dirname(os.path.abspath(__file__))))
REPO = os.environ.get('HABUTAX_REPO', '/repo')
LEAN_DIR = os.path.join(VERIF, 'lean')
DRIVER = os.path.join(LEAN_DIR, '.lake', 'build', 'bin', 'driver')

os.environ.setdefault('HABUTAX_VERIF', '1')
sys.dont_write_bytecode = True
if REPO not in sys.path:
    sys.path.insert(0, REPO)


def seed():
    try:
        return int(os.environ.get('VERIF_SEED', '0'))
    except ValueError:
        return 0


def tier():
    return os.environ.get('VERIF_TIER', 'quick')


def run_driver(lines, timeout=600):
    """Pipe protocol lines to the compiled model driver; return its output lines."""
    data = ('\n'.join(lines) + '\n').encode('utf-8')
    p = subprocess.run([DRIVER], input=data, stdout=subprocess.PIPE, stderr=subprocess.PIPE, timeout=timeout)
    if p.returncode != 0:
        raise RuntimeError(f'driver failed ({p.returncode}): {p.stderr.decode()[:2000]}')
    return p.stdout.decode('utf-8').split('\n')[:-1]
