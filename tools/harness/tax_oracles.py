"""Statement oracles for C15 (balance, non-negativity) and C16 (metamorphic responses) on REAL solves."""
import itertools
import random
from decimal import Decimal

from common import REPO  # noqa: F401
import scenarios as sc
import solver_oracles as so


def cents(x):
    """exact cents of a stored money value (stored values are round(x, 2) of a double)"""
    return int((Decimal(repr(float(x))) * 100).to_integral_value())


# lines that are signed by design (documented): the NC "refund" helper is +refund / -amount due
SIGNED_BY_DESIGN = {
    'nc_d-400.refund',      # helper line: + refund / - amount due
    # NC D-400 lines 12a / 12b / 14 (NC taxable income): plain subtractions on the form; the floor is on line 15
    # ("Multiply Line 14 by …. If zero or less, enter a zero"), so the form itself expects them to go negative
    'nc_d-400.12a', 'nc_d-400.12b', 'nc_d-400.14',
    '8995.11',              # "taxable income before the QBI deduction": Form 1040 line 11 minus line 12, with NO floor on
                            # the form (i8995: plain subtraction); the floor is on line 13 ("if zero or less, enter -0-")
}


# Form 8606 line 14 = line 3 - line 13, where line 13 = (line 7 + line 8) x line 10 and line 10 is a ratio rounded to five
# places: when nearly everything is basis, the rounded-up ratio makes line 13 exceed line 3 by at most
# 0.5e-5 x line 9 (+ the cents of lines 11-13).  Recorded in known_findings.json; see DESIGN.md section 10.
ROUNDING_ARTEFACTS = {'8606.14': lambda values, form: 0.5e-5 * float(values.get(form + '.9', 0.0)) + 0.016}


def oracle_c15(r):
    """balance of the federal and NC return, and non-negativity, on one solved real return"""
    probs = []
    if r['exception'] is not None or not r['ok']:
        return probs
    v = sc.values_of(r)
    g = lambda n: cents(v.get(n, 0.0) or 0.0)
    if '1040.33' in v and '1040.24' in v:
        l34, l37, l33, l24, l35a, l36 = g('1040.34'), g('1040.37'), g('1040.33'), g('1040.24'), g('1040.35a'), g('1040.36')
        if l34 - l37 != l33 - l24:
            probs.append(('1040-balance', f'overpayment {l34/100} - amount owed {l37/100} != payments {l33/100} - total tax {l24/100}'))
        if l34 > 0 and l37 > 0:
            probs.append(('1040-both-positive', f'overpayment {l34/100} and amount owed {l37/100} are both positive'))
        if l35a + l36 != l34:
            probs.append(('1040-refund-split', f'refund {l35a/100} + applied to next year {l36/100} != overpayment {l34/100}'))
    if 'nc_d-400.19' in v and 'nc_d-400.25' in v:
        t, p = g('nc_d-400.19'), g('nc_d-400.25')
        due, over = g('nc_d-400.26a'), g('nc_d-400.28')
        if over - due != p - t:
            probs.append(('nc-balance', f'NC overpayment {over/100} - tax due {due/100} != payments {p/100} - tax {t/100}'))
        if over > 0 and due > 0:
            probs.append(('nc-both-positive', 'NC overpayment and tax due are both positive'))
        if 'nc_d-400.34' in v and g('nc_d-400.34') + g('nc_d-400.33') != over:
            probs.append(('nc-refund-split', f'NC refund {g("nc_d-400.34")/100} + contributions {g("nc_d-400.33")/100} != overpayment {over/100}'))
    # non-negativity (inputs of the scenarios are non-negative amounts)
    for n, x in v.items():
        if isinstance(x, float) and x < 0:
            base = n.split('.')[0].split(':')[0] + '.' + n.split('.')[1]
            if base in SIGNED_BY_DESIGN:
                continue
            bound = ROUNDING_ARTEFACTS.get(base)
            if bound is not None and -x <= bound(v, n.split('.')[0]):
                # a recorded rounding artefact of the form's own arithmetic, bounded from the solution's own values: a
                # class of its own (keyed by year and line) so that the recorded finding never hides the line going
                # properly negative
                probs.append((f"negative-rounding:{r['year']}:{base}", f'{n} = {x} is negative (within the rounding of the ratio on line 10) although all input amounts are non-negative'))
                continue
            probs.append(('negative:' + base, f'{n} = {x} is negative although all input amounts are non-negative'))
    return probs


def nonneg_inputs(r):
    for k, t in sc.inputs_of(r).items():
        try:
            if float(t.strip() or 0) < 0:
                return False
        except ValueError:
            pass
    return True


# ------------------------------------------------------------------------------ C16

PAYER_FORMS = ['w-2', '1099-int', '1099-div', '1099-r', '1099-g', '1098']
LISTING_PREFIXES = {'1040_sb': ('1_', '5_')}     # Schedule B lists payers one per row


def count_of(inputs, form):
    t = inputs.get(f'1040.number_{form}', '0').strip() or '0'
    try:
        return int(t)
    except ValueError:
        return 0


def renumber(inputs, form, perm):
    out = {}
    for k, v in inputs.items():
        sec, opt = k.split('.')
        if sec.startswith(form + ':'):
            i = int(sec.split(':')[1])
            if i < len(perm):
                out[f'{form}:{perm[i]}.{opt}'] = v
                continue
        out[k] = v
    return out


def comparable(values, form, perm=None):
    """values with the per-payer forms' own sections re-keyed back and listing lines as multisets"""
    plain, listing = {}, []
    inv = {p: i for i, p in enumerate(perm)} if perm else None
    for n, x in values.items():
        sec, line = n.split('.')
        if inv is not None and sec.startswith(form + ':'):
            i = int(sec.split(':')[1])
            if i in inv:
                sec = f'{form}:{inv[i]}'
        cls = sec.split(':')[0]
        if cls in LISTING_PREFIXES and line.startswith(LISTING_PREFIXES[cls]):
            listing.append(repr(x))
            continue
        plain[f'{sec}.{line}'] = repr(x)
    return plain, sorted(listing)


def bump(inputs, key, delta):
    out = dict(inputs)
    try:
        cur = Decimal(out.get(key, '0').strip() or '0')
    except ArithmeticError:
        return None
    out[key] = str(cur + Decimal(str(delta)))
    return out


def oracle_c16(r, rng, budget, all_steps=False):
    """metamorphic checks on one solved real return; returns (problems, number of variant pairs compared)"""
    probs, pairs = [], 0
    if r['exception'] is not None or not r['ok']:
        return probs, pairs
    inputs = sc.inputs_of(r)
    base = so.rerun_with(r, file_inputs=inputs)
    if base['exception'] is not None or not base['ok']:
        return probs, pairs
    bv = sc.values_of(base)
    # (a) renumbering copies of payer forms
    for form in PAYER_FORMS:
        k = count_of(inputs, form)
        if k < 2 or k > 3:
            continue
        perms = [p for p in itertools.permutations(range(k)) if list(p) != list(range(k))]
        rng.shuffle(perms)
        for perm in perms[:budget]:
            var = so.rerun_with(r, file_inputs=renumber(inputs, form, perm))
            if var['exception'] is not None or not var['ok']:
                continue
            pairs += 1
            a = comparable(bv, form)
            b = comparable(sc.values_of(var), form, perm)
            if a != b:
                diff = sorted(set(a[0].items()) ^ set(b[0].items()))[:4]
                probs.append((f'renumber:{form}', f'renumbering the {form} copies as {perm} changes {diff or "the listing lines as a multiset"}',
                              {'form': form, 'perm': perm}))
                break
    tax0 = cents(bv.get('1040.24', 0.0))
    nc0 = cents(bv['nc_d-400.19']) if 'nc_d-400.19' in bv else None
    net0 = cents(bv.get('1040.34', 0.0)) - cents(bv.get('1040.37', 0.0))
    # (b) more wages never lower total tax (federal line 24, NC line 19) ; (d) withholding moves refund-minus-owed one for one
    if count_of(inputs, 'w-2') >= 1:
        def wage_pair(base_inputs, t0, n0, delta, label):
            nonlocal pairs
            var = so.rerun_with(r, file_inputs=bump(base_inputs, 'w-2:0.box_1', delta), policy=r.get('policy'))
            if var['exception'] is None and var['ok']:
                pairs += 1
                vv = sc.values_of(var)
                tax1 = cents(vv.get('1040.24', 0.0))
                if tax1 < t0:
                    probs.append(('wages-lower-tax', f'{label}wages +{delta} lower total tax from {t0/100} to {tax1/100}', {'delta': delta, 'label': label}))
                if n0 is not None and 'nc_d-400.19' in vv and cents(vv['nc_d-400.19']) < n0:
                    probs.append(('wages-lower-nc-tax', f'{label}wages +{delta} lower NC tax (D-400 line 19) from {n0/100} to {cents(vv["nc_d-400.19"])/100}', {'delta': delta, 'label': label}))
        for delta in rng.sample([1, 10, 250, 1000.5, 7777.77, 20000, 50000], 3):
            wage_pair(inputs, tax0, nc0, delta, '')
        # step tables (tax table rows, NC child deduction bands, phase-outs) change at round amounts of income: move the
        # wages so that federal AGI sits just below a round threshold and add a little
        agi0 = cents(bv.get('1040.11', 0.0))
        STEPS = [20000, 30000, 40000, 45000, 60000, 75000, 80000, 90000, 100000, 105000, 120000, 140000]
        for T in (STEPS if all_steps else rng.sample(STEPS, budget + 2)):
            shift = T * 100 - 5000 - agi0            # AGI -> T - 50
            w0 = cents(float(inputs.get('w-2:0.box_1', '0') or 0))
            if w0 + shift < 0:
                continue
            moved = bump(inputs, 'w-2:0.box_1', shift / 100)
            # the moved return may need inputs the base return never asked for: the scenario's own (deterministic) policy answers them
            mv = so.rerun_with(r, file_inputs=moved, policy=r.get('policy'))
            if mv['exception'] is None and mv['ok']:
                mvv = sc.values_of(mv)
                moved = sc.inputs_of(mv)
                wage_pair(moved, cents(mvv.get('1040.24', 0.0)), cents(mvv['nc_d-400.19']) if 'nc_d-400.19' in mvv else None,
                          100, f'at AGI {T - 50}: ')
        # federal income tax withheld on EVERY copy of every payer form (W-2 box 2, 1099 box 4)
        # (Form 1099-G box 4 included: tax withheld from unemployment compensation is Form 1040 line 25b too), and the
        # two amounts the return asks for directly: other federal withholding (line 25c) and estimated payments (line 26)
        wh_keys = [f'{form}:{n}.{box}' for form, box in (('w-2', 'box_2'), ('1099-int', 'box_4'), ('1099-div', 'box_4'), ('1099-r', 'box_4'),
                                                        ('1099-g', 'box_4')) for n in range(count_of(inputs, form))]
        wh_keys += ['1040.other_federal_withholding', '1040.estimated_tax_payments']
        for key in wh_keys:
            form, box = key.split(':')[0].split('.')[0], key.split('.')[1]
            if True:
                if key == 'w-2:0.box_2' or key not in inputs:
                    continue
                delta = rng.choice([1, 99.99, 500])
                bumped = bump(inputs, key, delta)
                if bumped is None:
                    continue
                var = so.rerun_with(r, file_inputs=bumped)
                if var['exception'] is None and var['ok']:
                    pairs += 1
                    vv = sc.values_of(var)
                    net1 = cents(vv.get('1040.34', 0.0)) - cents(vv.get('1040.37', 0.0))
                    want = int((Decimal(str(delta)) * 100).to_integral_value())
                    if net1 - net0 != want:
                        probs.append((f'withholding-not-1to1:{form}.{box}', f'federal tax withheld +{delta} on {key} moves refund-minus-owed by {(net1-net0)/100}', {'key': key, 'delta': delta}))
        for delta in rng.sample([0.01, 1, 99.99, 500, 1234.56, 10000], 3):
            var = so.rerun_with(r, file_inputs=bump(inputs, 'w-2:0.box_2', delta))
            if var['exception'] is None and var['ok']:
                pairs += 1
                vv = sc.values_of(var)
                net1 = cents(vv.get('1040.34', 0.0)) - cents(vv.get('1040.37', 0.0))
                want = int((Decimal(str(delta)) * 100).to_integral_value())
                if net1 - net0 != want:
                    probs.append(('withholding-not-1to1', f'withholding +{delta} moves refund-minus-owed by {(net1-net0)/100}', {'delta': delta}))
    # (d') NC: each extra dollar of N.C. tax withheld (on any form whose state box says NC) moves the NC payments total and
    # refund-minus-due by exactly one dollar
    if 'nc_d-400.25' in bv:
        pairs_nc = [('w-2', 'box_17', 'box_15'), ('1099-g', 'box_11_1', 'box_10a_1'), ('1099-g', 'box_11_2', 'box_10a_2'),
                    ('1099-int', 'box_17_1', 'box_15_1'), ('1099-int', 'box_17_2', 'box_15_2'),
                    ('1099-div', 'box_16_1', 'box_14_1'), ('1099-div', 'box_16_2', 'box_14_2'),
                    ('1099-r', 'box_14_1', 'box_14_1_state'), ('1099-r', 'box_14_2', 'box_14_2_state')]
        def nc_net(vals):
            return cents(vals.get('nc_d-400.28', 0.0) or 0.0) - cents(vals.get('nc_d-400.26a', 0.0) or 0.0)
        for form, amt, st in pairs_nc:
            for n in range(count_of(inputs, form)):
                if inputs.get(f'{form}:{n}.{st}', '').strip() != 'NC' or f'{form}:{n}.{amt}' not in inputs:
                    continue
                delta = rng.choice([1, 50, 333])
                bumped = bump(inputs, f'{form}:{n}.{amt}', delta)
                if bumped is None:
                    continue
                var = so.rerun_with(r, file_inputs=bumped, policy=r.get('policy'))
                if var['exception'] is None and var['ok']:
                    pairs += 1
                    vv = sc.values_of(var)
                    d25 = cents(vv.get('nc_d-400.25', 0.0)) - cents(bv.get('nc_d-400.25', 0.0))
                    if d25 != delta * 100:
                        probs.append((f'nc-withholding-not-1to1:{form}.{amt}', f'N.C. tax withheld +{delta} on {form}:{n} ({inputs.get(f"{form}:{n}.belongs_to", "")}) moves D-400 line 25 (payments) by {d25/100}', {'key': f'{form}:{n}.{amt}', 'delta': delta}))
                    elif nc_net(vv) - nc_net(bv) != delta * 100 and ('nc_d-400.28' in vv or 'nc_d-400.26a' in vv) and ('nc_d-400.28' in bv or 'nc_d-400.26a' in bv):
                        probs.append((f'nc-withholding-not-1to1:{form}.{amt}', f'N.C. tax withheld +{delta} on {form}:{n} moves overpayment-minus-due by {(nc_net(vv) - nc_net(bv))/100}', {'key': f'{form}:{n}.{amt}', 'delta': delta}))
    # (c) a larger deductible expense never raises total tax
    ded_inputs = [k for k in inputs if k.split('.')[0] == '1040_sa' and k.split('.')[1] in
                  ('medical_dental_expenses', 'charitable_cash_check', 'other_itemized', 'state_local_real_estate_taxes',
                   'state_local_personal_property_taxes')]
    ded_inputs += [k for k in inputs if k in ('1040_s1.alimony_paid', '1040_s1.traditional_ira_deduction')]
    ded_inputs += [k for k in inputs if k.split('.')[0].startswith('1098:') and k.split('.')[1] == 'box_1']
    for key in rng.sample(ded_inputs, min(len(ded_inputs), 3)):
        for delta in rng.sample([1, 100, 2500, 12000, 40000], 2):
            bumped = bump(inputs, key, delta)
            if bumped is None:
                continue
            var = so.rerun_with(r, file_inputs=bumped)
            if var['exception'] is None and var['ok']:
                pairs += 1
                tax1 = cents(sc.values_of(var).get('1040.24', 0.0))
                if tax1 > tax0:
                    probs.append((f'deduction-raises-tax:{key.split(":")[0].split(".")[0]}.{key.split(".")[1]}',
                                  f'{key} +{delta} raises total tax from {tax0/100} to {tax1/100}', {'key': key, 'delta': delta}))
    return probs, pairs
