"""F64 correspondence stream: the Lean softfloat (HabuVerif.F64, via HabuVerif.F64Drv.step) against
real CPython floats.

`run(seed, n, run_step)` generates `n` operations (plus a small separate malformed stream), computes
the expected answer of each with the running interpreter's own float arithmetic (`struct` is used to
move bit patterns in and out), sends the operation lines through `run_step` (which pipes them to
the model) and diffs.  Floats are 16 hex digits, nan canonicalised to 7ff8000000000000.

The `cents` family (ops `cents cdec cchain csum cmax cmax0 ccmp ccmpint cmulrate`) exercises the
statements of `Proofs/F64Cents.lean`: operands are cent-valued doubles given by their integer
cents, the model and CPython are compared as usual, and in addition, whenever a case lies inside
the hypotheses of a lemma, the lemma's conclusion is checked on the REAL result (a failure is reported
as a disagreement whose `model` field starts with `lemma`).

Stand-alone use:  python f64_stream.py <driver-exe> [n] [seed]   (the exe must answer one line per
line with `F64Drv.step`).
"""
import math
import random
import struct
import sys

NAN_HEX = '7ff8000000000000'
RATES = [0.0145, 0.062, 0.1, 0.22, 0.9235, 0.0475, 0.153, 0.029, 0.009, 0.124, 0.12, 0.24, 0.32, 0.35, 0.37,
         0.0525, 0.0535, 0.3, 0.5, 0.85, 0.2, 0.15, 0.188, 0.25, 0.28, 0.396, 0.038, 0.075, 0.6, 0.4, 0.8, 0.0765,
         0.01, 0.02, 0.03, 0.05, 0.07, 0.9, 1.5, 0.133, 0.00499, 1 / 3]


# ----------------------------------------------------------------------------- bit patterns
def f2h(x):
    if x != x:
        return NAN_HEX
    return struct.pack('>d', x).hex()


def h2f(h):
    return struct.unpack('>d', bytes.fromhex(h))[0]


def bits2f(b):
    return struct.unpack('>d', struct.pack('>Q', b))[0]


def f2bits(x):
    return struct.unpack('>Q', struct.pack('>d', x))[0]


def nextafter_n(x, k):
    """k ulps up (k may be negative) by bit-pattern stepping; x finite"""
    for _ in range(abs(k)):
        x = math.nextafter(x, math.inf if k > 0 else -math.inf)
    return x


# ----------------------------------------------------------------------------- value generators
def g_bits(rng):
    return bits2f(rng.getrandbits(64))


def g_cents(rng):
    mag = rng.choice([1e2, 1e4, 1e6, 1e8, 1e10, 1e12, 1e14])
    k = rng.randrange(int(mag))
    x = k / 100
    return -x if rng.random() < 0.2 else x


def g_product(rng):
    a = g_cents(rng)
    if rng.random() < 0.5:
        a = float(int(a))
    return a * rng.choice(RATES)


def g_tie(rng):
    c = rng.random()
    if c < 0.25:
        x = rng.randrange(0, 2000) * rng.choice([0.0145, 0.062, 0.0475, 0.9235, 0.153, 0.0765])
    elif c < 0.5:
        # literal x.xx5
        x = float(f'{rng.randrange(0, 10 ** rng.choice([1, 3, 6, 9]))}.{rng.randrange(100):02d}5')
    elif c < 0.7:
        # exact binary ties for round(x, 2) / round(x, 1) / round(x)
        x = rng.randrange(0, 10 ** rng.choice([2, 5, 8])) + rng.choice([0.125, 0.375, 0.625, 0.875, 0.5, 0.25, 0.75])
    elif c < 0.8:
        x = rng.choice([2.675, 1.005, 0.145, 0.435, 1.115, 8.345, 0.285, 2.5, 3.5, 0.5, 1.5, 0.045, 1e-3 / 2, 5e-324 * 5])
    elif c < 0.9:
        x = (rng.randrange(10 ** 7) * 10 + 5) / 1000
    else:
        x = rng.randrange(1, 1 << 54) / 2.0
    return -x if rng.random() < 0.25 else x


def g_pow2(rng):
    e = rng.randrange(-1074, 1024) if rng.random() < 0.5 else rng.randrange(-60, 70)
    x = math.ldexp(1.0, e)
    x = nextafter_n(x, rng.choice([-2, -1, 0, 0, 1, 2]))
    return -x if rng.random() < 0.3 else x


def g_subnormal(rng):
    c = rng.random()
    if c < 0.6:
        b = rng.getrandbits(52)
    elif c < 0.8:
        b = rng.randrange(0, 8)
    else:
        b = (1 << 52) + rng.randrange(-4, 5)
    return bits2f(b | (rng.getrandbits(1) << 63))


def g_special(rng):
    return rng.choice([0.0, -0.0, math.inf, -math.inf, math.nan, 1.0, -1.0, 0.5, 2.0, 100.0, 0.01,
                       sys.float_info.max, -sys.float_info.max, sys.float_info.min, 5e-324, -5e-324,
                       2.0 ** 53, 2.0 ** 53 + 2, 2.0 ** 52 + 0.5, 2.0 ** 63, -2.0 ** 63, 2.0 ** 64, 1e22, 1e23,
                       1e15, 1e16, 1e17, 0.1, 0.2, 0.3, 9007199254740993.0])


def g_hugetiny(rng):
    e = rng.choice([rng.randrange(900, 1024), rng.randrange(-1074, -900), rng.randrange(-1030, -1010)])
    x = math.ldexp(rng.random() + 0.5, e)
    return -x if rng.random() < 0.3 else x


def g_intlike(rng):
    k = rng.randrange(0, 10 ** rng.choice([1, 3, 6, 9, 12, 15, 17]))
    x = float(k) + rng.choice([0.0, 0.0, 0.5, -0.5, 0.25, 1e-9])
    return -x if rng.random() < 0.3 else x


VALUE_GENS = [(g_bits, 12), (g_cents, 22), (g_product, 18), (g_tie, 14), (g_pow2, 8), (g_subnormal, 5),
              (g_special, 8), (g_hugetiny, 5), (g_intlike, 8)]
_VG, _VW = zip(*VALUE_GENS)


def g_value(rng):
    g = rng.choices(_VG, _VW)[0]
    return g(rng), g.__name__


def g_related(rng, x):
    """a second operand that interacts with x: same, negation, neighbour, same magnitude, or fresh"""
    c = rng.random()
    if x != x or math.isinf(x) or c < 0.45:
        return g_value(rng)[0]
    if c < 0.5:
        return x
    if c < 0.55:
        return -x
    if c < 0.65:
        return -nextafter_n(x, rng.choice([-1, 1, 2, -3]))
    if c < 0.75:
        return nextafter_n(x, rng.choice([-1, 1]))
    if c < 0.85:
        y = x * (rng.random() + 0.5)
        return -y if rng.random() < 0.5 else y
    return rng.choice(RATES + [100.0, 0.01, 12.0, 2.0, 0.5])


def g_int(rng):
    c = rng.random()
    if c < 0.3:
        i = rng.randrange(0, 10 ** rng.choice([1, 3, 6, 9, 12]))
    elif c < 0.5:
        i = (1 << rng.choice([53, 54, 63, 64, 100])) + rng.randrange(-3, 4)
    elif c < 0.7:
        i = rng.getrandbits(rng.choice([55, 64, 80, 200, 1023, 1024]))
    elif c < 0.8:
        i = (1 << 1024) - (1 << 970) + rng.randrange(-2, 3)   # the float(int) overflow threshold
    elif c < 0.9:
        i = rng.getrandbits(rng.randrange(1, 1200))
    else:
        i = rng.choice([0, 1, 2, 10, 100, 2 ** 63 - 1, 2 ** 63, 2 ** 1024, 2 ** 1024 - 1, 10 ** 22, 10 ** 23])
    return -i if rng.random() < 0.3 else i


def classify(x):
    if isinstance(x, str):
        return x
    if x != x:
        return 'nan'
    if math.isinf(x):
        return 'inf'
    if x == 0:
        return 'zero'
    if abs(x) < sys.float_info.min:
        return 'subnormal'
    return 'normal'


# ----------------------------------------------------------------------------- operations
def _b(v):
    return 'True' if v else 'False'


def _toint(fn, x):
    try:
        return str(fn(x))
    except OverflowError:
        return 'OverflowError'
    except ValueError:
        return 'ValueError'


def op_bin(name):
    def gen(rng):
        x, tag = g_value(rng)
        y = g_related(rng, x)
        if rng.random() < 0.5:
            x, y = y, x
        if name == 'add':
            r = x + y
        elif name == 'sub':
            r = x - y
        elif name == 'mul':
            r = x * y
        elif name == 'div':
            if rng.random() < 0.05:
                y = rng.choice([0.0, -0.0])
            try:
                r = x / y
            except ZeroDivisionError:
                r = 'ZeroDivisionError'
        elif name == 'max':
            r = max(x, y)
        elif name == 'min':
            r = min(x, y)
        else:
            raise AssertionError(name)
        return f'{name} {f2h(x)} {f2h(y)}', (r if isinstance(r, str) else f2h(r)), classify(r)
    return gen


def op_cmp(name):
    def gen(rng):
        x, tag = g_value(rng)
        y = g_related(rng, x)
        r = {'lt': x < y, 'le': x <= y, 'eq': x == y}[name]
        return f'{name} {f2h(x)} {f2h(y)}', _b(r), _b(r)
    return gen


def op_un(name):
    def gen(rng):
        x, tag = g_value(rng)
        if name == 'neg':
            r = f2h(-x)
        elif name == 'abs':
            r = f2h(abs(x))
        elif name == 'bits':
            r = f2h(x)
        elif name == 'isfinite':
            r = _b(math.isfinite(x))
        elif name == 'isnan':
            r = _b(math.isnan(x))
        elif name == 'rint':
            r = _toint(round, x)
        elif name == 'ceil':
            r = _toint(math.ceil, x)
        elif name == 'floor':
            r = _toint(math.floor, x)
        elif name == 'trunc':
            r = _toint(int, x)
        elif name == 'rat':
            r = 'none' if not math.isfinite(x) else '%d/%d' % x.as_integer_ratio()
        else:
            raise AssertionError(name)
        return f'{name} {f2h(x)}', r, tag
    return gen


def gen_r2(rng):
    x, tag = g_value(rng)
    return f'r2 {f2h(x)}', f2h(round(x, 2)), tag


def gen_round(rng):
    x, tag = g_value(rng)
    n = rng.choice([0, 0, 1, 2, 2, 2, 3, 4, 5, 5, 6, 8, 10, 15, 16, 17, 20, 22, 23, 30, 100, 300, 308, 322, 323, 324,
                    325, 400, 1000])
    if rng.random() < 0.1:
        n = rng.randrange(0, 340)
    return f'round {n} {f2h(x)}', f2h(round(x, n)), f'n={n if n < 7 else "big"}'


def gen_fmt(rng):
    x, tag = g_value(rng)
    n = rng.choice([0, 1, 2, 2, 2, 2, 3, 5, 6, 10, 17, 20, 30, 60])
    return f'fmt {n} {f2h(x)}', f'{x:.{n}f}', f'n={n if n < 7 else "big"}'


def gen_cmpint(rng):
    c = rng.random()
    if c < 0.4:
        x, _ = g_value(rng)
        i = g_int(rng)
    elif c < 0.7:
        i = g_int(rng)
        try:
            x = float(i)
            x = nextafter_n(x, rng.choice([-1, 0, 0, 1]))
        except OverflowError:
            x = rng.choice([sys.float_info.max, -sys.float_info.max, math.inf, -math.inf])
    else:
        x, _ = g_value(rng)
        if math.isfinite(x):
            i = int(x) + rng.choice([-1, 0, 0, 1])
        else:
            i = g_int(rng)
    if x != x:
        w = 'un'
    elif x < i:
        w = 'lt'
    elif x == i:
        w = 'eq'
    else:
        w = 'gt'
    r = ' '.join([w, _b(x < i), _b(x <= i), _b(x == i), _b(x >= i), _b(x > i)])
    return f'cmpint {f2h(x)} {i}', r, w


def gen_ofint(rng):
    i = g_int(rng)
    try:
        r = f2h(float(i))
        tag = 'ok'
    except OverflowError:
        r = tag = 'OverflowError'
    return f'ofint {i}', r, tag


def gen_dec(rng):
    c = rng.random()
    sg = 1 if rng.random() < 0.25 else 0
    if c < 0.35:
        mant = rng.randrange(0, 10 ** rng.choice([1, 3, 5, 8, 12]))
        ex = -rng.choice([0, 1, 2, 2, 2, 3, 4])
    elif c < 0.55:
        mant = rng.randrange(0, 10 ** rng.choice([15, 16, 17, 18, 19, 20, 25, 40]))
        ex = rng.randrange(-60, 40)
    elif c < 0.7:
        # near-halfway cases: decimal expansion of a midpoint between two doubles, perturbed
        x = abs(g_value(rng)[0])
        if not math.isfinite(x) or x == 0 or x > 1e300:
            x = 1.5
        lo = x
        hi = math.nextafter(x, math.inf)
        a, b = lo.as_integer_ratio()
        c2, d = hi.as_integer_ratio()
        # midpoint = (a/b + c2/d)/2 ; write it with enough digits: scale by 10^k
        k = 800 if x < 1e-200 else 400 if x < 1e-60 else 120
        num = (a * d + c2 * b) * 10 ** k
        den = 2 * b * d
        mant = num // den + rng.choice([-1, 0, 0, 1])
        mant = max(mant, 0)
        ex = -k
    elif c < 0.85:
        mant = rng.randrange(1, 10 ** rng.choice([1, 17, 30]))
        ex = rng.choice([rng.randrange(280, 320), rng.randrange(-360, -290), rng.randrange(-420, 420)])
    else:
        mant = rng.choice([0, 1, 5, 17976931348623157, 17976931348623158, 17976931348623159, 49406564584124654,
                           24703282292062327, 24703282292062328, 22250738585072014, 22250738585072011])
        ex = rng.choice([0, 292, 293, -340, -341, -324, -323, -339, -400, -401, -402, -420, -1000, 309, 310, 311,
                         1000, -10 ** 9, 10 ** 9, 10 ** 20, -10 ** 20])
    s = f"{'-' if sg else ''}{mant}e{ex}"
    x = float(s)
    return f'dec {sg} {mant} {ex}', f2h(x), classify(x)


def g_sum_terms(rng):
    k = rng.randrange(2, 13)
    c = rng.random()
    if c < 0.35:
        xs = [g_cents(rng) for _ in range(k)]
    elif c < 0.6:
        # cancellation: big terms that cancel, small ones in between
        big = rng.choice([1e16, 1e17, 1e20, 2.0 ** 53, 1e100, 1e15, 123456789012345.67])
        xs = [g_cents(rng) if rng.random() < 0.6 else rng.choice([1.0, 0.1, 1e-5, 3.0]) for _ in range(k)]
        i, j = rng.sample(range(k), 2)
        xs[i] = big
        xs[j] = -big
        if rng.random() < 0.3:
            xs.append(big * 2.0 ** -40)
    elif c < 0.75:
        xs = [g_product(rng) * rng.choice([1, 1, -1]) for _ in range(k)]
    elif c < 0.9:
        xs = [g_value(rng)[0] for _ in range(k)]
    else:
        # overflow / inf / nan / signed zero behaviour of the compensation term
        pool = [1e308, -1e308, 1.7e308, -1.7e308, math.inf, -math.inf, math.nan, 0.0, -0.0, 1.0, -1.0, 1e292,
                sys.float_info.max, -sys.float_info.max, 5e-324, -5e-324]
        xs = [rng.choice(pool) for _ in range(k)]
        if rng.random() < 0.3:
            xs = [rng.choice([0.0, -0.0]) for _ in range(rng.randrange(1, 5))]
    return xs


def gen_sum(rng):
    xs = g_sum_terms(rng)
    r = sum(xs)
    return 'sum ' + ' '.join(f2h(x) for x in xs), f2h(r), classify(r)


def gen_sumfrom(rng):
    xs = g_sum_terms(rng)
    if rng.random() < 0.15:
        xs = xs[:rng.randrange(0, 2)]
    s = xs[0] if xs and rng.random() < 0.2 else g_value(rng)[0]
    if rng.random() < 0.2:
        s = rng.choice([0.0, -0.0])
    r = sum(xs, s)
    return 'sumfrom ' + ' '.join(f2h(x) for x in [s] + xs), f2h(r), classify(r)


def gen_summixed(rng):
    xs = g_sum_terms(rng)
    items = []
    for x in xs:
        c = rng.random()
        if c < 0.25:
            items.append(rng.randrange(-10 ** 6, 10 ** 6))
        elif c < 0.32:
            items.append(rng.choice([2 ** 63 - 1, -2 ** 63, 2 ** 63, -2 ** 63 - 1, 2 ** 64, 2 ** 70 + 1, 10 ** 30,
                                     2 ** 53 + 1, -(2 ** 62) - 1, 2 ** 1024, -2 ** 1100, 2 ** 1023]))
        elif c < 0.36:
            items.append(g_int(rng))
        else:
            items.append(x)
    s = g_cents(rng) if rng.random() < 0.6 else g_value(rng)[0]
    try:
        r = f2h(sum(items, s))
        tag = classify(h2f(r))
    except OverflowError:
        r = tag = 'OverflowError'
    toks = [f2h(s)] + [('i%d' % v) if isinstance(v, int) else f2h(v) for v in items]
    return 'summixed ' + ' '.join(toks), r, tag


# ----------------------------------------------------------------------------- cents family
from fractions import Fraction

TWO52 = 1 << 52
# found by construction: 61 copies of this amount, added left to right, end one cent off
CHAIN_COUNTEREXAMPLE_CENTS = 9071999863748


def cx(c):
    """the double for c cents (same as c / 100)"""
    return float(f'{c}e-2')


def cents_of(x):
    """Lean `centsOf`: the c with x == float(f'{c}e-2'), c = round_half_even(100 x) exactly"""
    if not math.isfinite(x):
        return None
    k = round(Fraction(x) * 100)
    return k if cx(k) == x else None


def cents_str(x):
    k = cents_of(x)
    return 'none' if k is None else str(k)


def g_cents_int(rng, bound=10 ** 13):
    c = rng.random()
    if c < 0.35:
        v = rng.randrange(0, 10 ** rng.choice([2, 4, 6, 7, 8, 9]))
    elif c < 0.6:
        v = rng.randrange(0, bound + 1)
    elif c < 0.7:
        v = bound - rng.randrange(0, 3)
    elif c < 0.8:
        v = rng.choice([0, 0, 1, 2, 5, 50, 99, 100, 101, 12345, 250000_00, 10 ** 9, 10 ** 11])
    else:
        v = rng.randrange(0, 10 ** rng.randrange(1, 14))
    v = min(v, bound)
    return -v if rng.random() < 0.25 else v


def same_cents(x, y):
    """equal as cent-valued doubles: bit-equal, or both zeros"""
    return f2h(x) == f2h(y) or (x == 0 and y == 0)


def gen_cents(rng):
    c = rng.random()
    if c < 0.5:
        k = g_cents_int(rng, 10 ** rng.choice([13, 15, 16, 17]))
        x = cx(k)
        if rng.random() < 0.2:
            x = nextafter_n(x, rng.choice([-1, 1]))
    elif c < 0.8:
        x = round(g_value(rng)[0], 2)
    else:
        x = g_value(rng)[0]
    k = cents_of(x)
    viol = None
    if k is not None and abs(k) < TWO52 and f2h(round(x, 2)) != f2h(x):
        viol = f'lemma Cent.roundN2: round(x,2) != x for {k} cents'
    return f'cents {f2h(x)}', cents_str(x), 'some' if k is not None else 'none', viol


def gen_cdec(rng):
    k = g_cents_int(rng, 10 ** rng.choice([13, 15, 18, 30]))
    x = cx(k)
    viol = None
    if x != k / 100:
        viol = 'float(f"{c}e-2") != c/100'
    if abs(k) < TWO52 and cents_of(x) != k:
        viol = f'lemma Cent.centsOf: cents_of(centD {k}) = {cents_of(x)}'
    return f'cdec {k}', f2h(x), 'ok', viol


def _chain_terms(rng):
    c = rng.random()
    if c < 0.04:
        n = rng.randrange(55, 65)
        return CHAIN_COUNTEREXAMPLE_CENTS, [(False, CHAIN_COUNTEREXAMPLE_CENTS)] * n
    if c < 0.45:
        n, B = rng.randrange(1, 21), 10 ** 13
    elif c < 0.8:
        n, B = rng.randrange(1, 65), 10 ** rng.choice([6, 9, 11, 12])
    elif c < 0.9:
        n, B = rng.randrange(1, 65), 10 ** 13
    else:
        n, B = rng.randrange(1, 8), 10 ** rng.choice([14, 15])
    c0 = g_cents_int(rng, B)
    if rng.random() < 0.3:
        # same-sign large terms: the partial sums really grow
        ts = [(False, B - rng.randrange(0, B // 10 + 1)) for _ in range(n)]
    else:
        ts = [(rng.random() < 0.4, g_cents_int(rng, B)) for _ in range(n)]
    return c0, ts


def gen_cchain(rng):
    c0, ts = _chain_terms(rng)
    y, exact = cx(c0), c0
    for sub, c in ts:
        if sub:
            y, exact = y - cx(c), exact - c
        else:
            y, exact = y + cx(c), exact + c
    r = round(y, 2)
    B = max([abs(c0)] + [abs(c) for _, c in ts])
    n = len(ts)
    inrange = (n + 1) * (n + 1) * (B + 3) < TWO52
    ok = same_cents(r, cx(exact))
    viol = None
    if inrange and not ok:
        viol = f'lemma cent_chain: n={n} B={B} round(chain,2)={r!r} exact cents={exact}'
    tag = ('in' if inrange else 'out') + (':ok' if ok else ':off-by-a-cent')
    line = f'cchain {c0} ' + ' '.join(('-' if sub else '+') + str(c) for sub, c in ts)
    return line, f'{f2h(r)} {f2h(cx(exact))} {cents_str(r)}', tag, viol


def gen_csum(rng):
    c0, ts = _chain_terms(rng)
    cs = [c0] + [(-c if sub else c) for sub, c in ts]
    r = round(sum(cx(c) for c in cs), 2)
    exact = sum(cs)
    B = max(abs(c) for c in cs)
    n = len(cs) - 1
    inrange = 9 * (n + 1) * (n + 1) * (B + 3) < TWO52
    ok = same_cents(r, cx(exact))
    viol = None
    if inrange and not ok:
        viol = f'lemma cent_pySum_partial: n={n} B={B} round(sum,2)={r!r} exact cents={exact}'
    tag = ('in' if inrange else 'out') + (':ok' if ok else ':off-by-a-cent')
    return 'csum ' + ' '.join(str(c) for c in cs), f'{f2h(r)} {f2h(cx(exact))} {cents_str(r)}', tag, viol


def _cent_pair(rng):
    a = g_cents_int(rng)
    c = rng.random()
    if c < 0.25:
        b = a
    elif c < 0.55:
        b = a + rng.choice([-1, 1, 2, -2])
    elif c < 0.65:
        b = -a
    else:
        b = g_cents_int(rng)
    return a, b


def gen_cmax(rng):
    a, b = _cent_pair(rng)
    mx, mn = max(cx(a), cx(b)), min(cx(a), cx(b))
    viol = None
    if cents_of(mx) != max(a, b) or cents_of(mn) != min(a, b):
        viol = f'lemma cent_pyMax/cent_pyMin: {a} {b}'
    tag = 'eq' if a == b else 'adjacent' if abs(a - b) <= 2 else 'far'
    return f'cmax {a} {b}', f'{f2h(mx)} {cents_str(mx)} {f2h(mn)} {cents_str(mn)}', tag, viol


def gen_cmax0(rng):
    a = g_cents_int(rng)
    if rng.random() < 0.2:
        a = rng.choice([0, 1, -1])
    m1, m2 = max(0.0, cx(a)), max(cx(a), 0.0)
    viol = None
    if cents_of(m1) != max(0, a) or cents_of(m2) != max(a, 0):
        viol = f'lemma cent_pyMax_zero: {a}'
    return f'cmax0 {a}', f'{f2h(m1)} {cents_str(m1)} {f2h(m2)} {cents_str(m2)}', 'neg' if a < 0 else 'zero' if a == 0 else 'pos', viol


def gen_ccmp(rng):
    a, b = _cent_pair(rng)
    x, y = cx(a), cx(b)
    viol = None
    if (x < y, x <= y, x == y) != (a < b, a <= b, a == b):
        viol = f'lemma cent_lt/le/eq: {a} {b}'
    tag = 'eq' if a == b else 'adjacent' if abs(a - b) <= 2 else 'far'
    return f'ccmp {a} {b}', f'{_b(x < y)} {_b(x <= y)} {_b(x == y)}', tag, viol


def gen_ccmpint(rng):
    a = g_cents_int(rng)
    c = rng.random()
    if c < 0.5:
        n = a // 100 + rng.choice([-1, 0, 0, 1])
    elif c < 0.7:
        n = rng.choice([0, 1, 100, 250000, 10 ** 6])
    else:
        n = g_cents_int(rng, 10 ** 11)
    if rng.random() < 0.3:
        a = 100 * n + rng.choice([-1, 0, 1])
    x = cx(a)
    viol = None
    if (x < n, x <= n, x == n, x >= n, x > n) != (a < 100 * n, a <= 100 * n, a == 100 * n, a >= 100 * n, a > 100 * n):
        viol = f'lemma cent_ltInt…: {a} {n}'
    return (f'ccmpint {a} {n}', ' '.join(_b(v) for v in (x < n, x <= n, x == n, x >= n, x > n)),
            'eq' if a == 100 * n else 'ne', viol)


def gen_cmulrate(rng):
    a = g_cents_int(rng)
    c = rng.random()
    if c < 0.6:
        r = rng.choice(RATES)
    elif c < 0.8:
        r = rng.randrange(0, 10 ** 4) / 10 ** 4
    elif c < 0.9:
        r = rng.uniform(-1024, 1024)
    else:
        r = rng.choice([1.0, 0.5, 2.0, 100.0, 0.01, 1e-9, 1024.0, -1.0, 0.0, -0.0, 12.0, 1 / 12])
    if rng.random() < 0.25:
        # exact decimal ties: cents × rate ending in …5 in the third decimal
        a = rng.randrange(0, 10 ** 7) * 100
        r = rng.choice([0.0145, 0.062, 0.0475, 0.9235, 0.153, 0.0765, 0.005, 0.125])
    y = round(cx(a) * r, 2)
    k = cents_of(y)
    viol = None
    exact = Fraction(a) * Fraction(r)
    if k is None:
        viol = 'lemma cent_mul_rate_partial: result not cent-valued'
    elif abs(k - exact) > Fraction(1, 2) + Fraction(abs(a) + 1, 10 ** 6):
        viol = f'lemma cent_mul_rate_partial: |c - ca*r| too large ({k} vs {float(exact)})'
    tag = 'exact-rounding' if k == round(exact) else 'other-side-of-a-tie'
    return f'cmulrate {a} {f2h(r)}', f'{f2h(y)} {cents_str(y)}', tag, viol


OPS = [
    ('add', op_bin('add'), 12), ('sub', op_bin('sub'), 10), ('mul', op_bin('mul'), 12), ('div', op_bin('div'), 8),
    ('max', op_bin('max'), 2), ('min', op_bin('min'), 2),
    ('lt', op_cmp('lt'), 2), ('le', op_cmp('le'), 2), ('eq', op_cmp('eq'), 2),
    ('neg', op_un('neg'), 1), ('abs', op_un('abs'), 1), ('bits', op_un('bits'), 1),
    ('isfinite', op_un('isfinite'), 0.5), ('isnan', op_un('isnan'), 0.5),
    ('rint', op_un('rint'), 2), ('ceil', op_un('ceil'), 2), ('floor', op_un('floor'), 2), ('trunc', op_un('trunc'), 2),
    ('rat', op_un('rat'), 1),
    ('r2', gen_r2, 12), ('round', gen_round, 6), ('fmt', gen_fmt, 6),
    ('cmpint', gen_cmpint, 4), ('ofint', gen_ofint, 3), ('dec', gen_dec, 6),
    ('sum', gen_sum, 5), ('sumfrom', gen_sumfrom, 3), ('summixed', gen_summixed, 3),
    ('cents', gen_cents, 2), ('cdec', gen_cdec, 1), ('cchain', gen_cchain, 4), ('csum', gen_csum, 3),
    ('cmax', gen_cmax, 1.5), ('cmax0', gen_cmax0, 1), ('ccmp', gen_ccmp, 1.5), ('ccmpint', gen_ccmpint, 1.5),
    ('cmulrate', gen_cmulrate, 3),
]


# ----------------------------------------------------------------------------- malformed stream
def _valid_hex(s):
    return len(s) == 16 and all(ch in '0123456789abcdef' for ch in s)


def _valid_nat(s):
    return len(s) > 0 and all(ch in '0123456789' for ch in s)


def _valid_int(s):
    return _valid_nat(s[1:]) if s.startswith('-') else _valid_nat(s)


_ARITY = {'bits': 'h', 'add': 'hh', 'sub': 'hh', 'mul': 'hh', 'div': 'hh', 'neg': 'h', 'abs': 'h', 'lt': 'hh',
          'le': 'hh', 'eq': 'hh', 'max': 'hh', 'min': 'hh', 'isfinite': 'h', 'isnan': 'h', 'cmpint': 'hi',
          'ofint': 'i', 'dec': 'sni', 'r2': 'h', 'round': 'nh', 'rint': 'h', 'ceil': 'h', 'floor': 'h', 'trunc': 'h',
          'fmt': 'nh', 'rat': 'h', 'cents': 'h', 'cdec': 'i', 'cmax': 'ii', 'cmax0': 'i', 'ccmp': 'ii',
          'ccmpint': 'ii', 'cmulrate': 'ih'}


def expected_malformed(line):
    """'bad-op' / 'bad-arg' / None (= well-formed) according to the protocol's syntax"""
    toks = line.split(' ')
    op, args = toks[0], toks[1:]
    if op in _ARITY:
        sig = _ARITY[op]
        if len(args) != len(sig):
            return 'bad-op'
        for a, k in zip(args, sig):
            ok = {'h': _valid_hex, 'i': _valid_int, 'n': _valid_nat,
                  's': lambda s: _valid_nat(s) and int(s) <= 1}[k](a)
            if not ok:
                return 'bad-arg'
        return None
    if op == 'sum':
        if not args:
            return 'bad-op'
        return None if all(_valid_hex(a) for a in args) else 'bad-arg'
    if op == 'sumfrom':
        if not args:
            return 'bad-op'
        return None if all(_valid_hex(a) for a in args) else 'bad-arg'
    if op == 'summixed':
        if not args:
            return 'bad-op'
        if not _valid_hex(args[0]):
            return 'bad-arg'
        for a in args[1:]:
            if not (_valid_int(a[1:]) if a.startswith('i') else _valid_hex(a)):
                return 'bad-arg'
        return None
    if op == 'cchain':
        if not args:
            return 'bad-op'
        if not _valid_int(args[0]):
            return 'bad-arg'
        for a in args[1:]:
            if not (a[:1] in ('+', '-') and _valid_int(a[1:])):
                return 'bad-arg'
        return None
    if op == 'csum':
        if not args:
            return 'bad-op'
        return None if all(_valid_int(a) for a in args) else 'bad-arg'
    return 'bad-op'


def gen_malformed(rng):
    """corrupt a well-formed line; return (line, expected) with expected never None"""
    while True:
        name, gen, _ = rng.choice(OPS)
        line = gen(rng)[0]
        toks = line.split(' ')
        c = rng.random()
        if c < 0.15:
            toks[0] = rng.choice(['', 'ADD', 'addd', 'plus', 'r3', 'sum2', 'toy-begin', 'end'])
        elif c < 0.3:
            toks = toks[:-1]
        elif c < 0.4:
            toks.append(toks[-1])
        elif c < 0.5:
            i = rng.randrange(len(toks))
            toks.insert(i, '')                      # doubled space
        elif c < 0.75:
            i = rng.randrange(1, len(toks)) if len(toks) > 1 else 0
            t = toks[i]
            toks[i] = rng.choice([t[:-1], t + '0', t.upper() if t.upper() != t else 'G' + t[1:], '0x' + t, '+' + t,
                                  '-' + t, t.replace('0', 'o', 1) if '0' in t else 'z', '1.5', 'nan', '--1',
                                  't' + t[1:], ' ', '\t' + t])
        elif c < 0.85:
            toks = [''.join(rng.choice('abcdef0123456789 -ix') for _ in range(rng.randrange(0, 30)))]
        else:
            toks = [t if rng.random() < 0.7 else t[::-1] for t in toks]
        line = ' '.join(toks)
        if '\n' in line or '\r' in line:
            continue
        exp = expected_malformed(line)
        if exp is not None:
            return line, exp


# ----------------------------------------------------------------------------- the stream
def run(seed, n, run_step):
    names = [o[0] for o in OPS]
    gens = {o[0]: o[1] for o in OPS}
    weights = [o[2] for o in OPS]
    pick = random.Random(f'{seed}/f64/pick')
    lines, expected, kinds = [], [], []
    lemma_failures = []
    distribution = {}

    def count(key):
        distribution[key] = distribution.get(key, 0) + 1

    for k in range(n):
        name = pick.choices(names, weights)[0]
        rng = random.Random(f'{seed}/f64/{k}')
        res = gens[name](rng)
        line, exp, tag = res[:3]
        if len(res) > 3 and res[3]:
            lemma_failures.append({'op': line, 'model': str(res[3]), 'real': exp})
        lines.append(line)
        expected.append(exp)
        kinds.append(name)
        count(name)
        count(f'{name}:{tag}')
    n_bad = max(20, n // 50)
    for k in range(n_bad):
        rng = random.Random(f'{seed}/f64/malformed/{k}')
        line, exp = gen_malformed(rng)
        lines.append(line)
        expected.append(exp)
        kinds.append('malformed')
        count('malformed')
        count(f'malformed:{exp}')

    answers = []
    CH = 20000
    for i in range(0, len(lines), CH):
        out = list(run_step(lines[i:i + CH]))
        if len(out) != len(lines[i:i + CH]):
            raise RuntimeError(f'model answered {len(out)} lines for {len(lines[i:i + CH])} operations')
        answers += out
    disagreements = list(lemma_failures)
    for line, exp, got in zip(lines, expected, answers):
        if exp != got:
            disagreements.append({'op': line, 'model': got, 'real': exp})
    srng = random.Random(f'{seed}/f64/samples')
    idx = sorted(srng.sample(range(len(lines)), min(12, len(lines))))
    samples = [{'op': lines[i], 'real': expected[i], 'model': answers[i]} for i in idx]
    return {'cases': len(lines), 'disagreements': disagreements, 'distribution': distribution, 'samples': samples}


if __name__ == '__main__':
    import subprocess
    import time
    exe = sys.argv[1]
    n = int(sys.argv[2]) if len(sys.argv) > 2 else 20000
    seed = int(sys.argv[3]) if len(sys.argv) > 3 else 0
    spent = [0.0, 0]

    def run_step(ls):
        t0 = time.time()
        p = subprocess.run([exe], input=('\n'.join(ls) + '\n').encode(), stdout=subprocess.PIPE, check=True)
        spent[0] += time.time() - t0
        spent[1] += len(ls)
        return p.stdout.decode().split('\n')[:-1]

    res = run(seed, n, run_step)
    print('cases', res['cases'], 'disagreements', len(res['disagreements']),
          'model ops/s %.0f' % (spent[1] / max(spent[0], 1e-9)))
    for d in res['disagreements'][:15]:
        print(d)
    if '-v' in sys.argv:
        for k in sorted(res['distribution']):
            print(k, res['distribution'][k])
