"""Statement oracles for the solver properties on REAL executions (C04, C05, C06, C13)."""
import configparser
import io
import os
import random
import tempfile

from common import REPO  # noqa: F401
import scenarios as sc


# ------------------------------------------------------------------------------ reads of a line

class Rec:
    """Mapping wrapper that records fully-qualified keys read through a FormAccessor."""
    def __init__(self, inner, log):
        self.inner, self.log = inner, log

    def __getitem__(self, key):
        self.log.append(key)
        return self.inner[key]


def reads_of(solver, name):
    """(lines read, inputs read, exception) when re-evaluating `name` on the final stores"""
    from habutax import form as hform
    field = solver._field_map[name]
    vlog, ilog = [], []
    exc = None
    try:
        field.value(hform.FormAccessor(Rec(solver._i, ilog), field.form()),
                    hform.FormAccessor(Rec(solver._v, vlog), field.form()))
    except BaseException as e:  # noqa: BLE001
        if isinstance(e, (KeyboardInterrupt, SystemExit)):
            raise
        exc = e
    return vlog, ilog, exc


def oracle_c04(solver, ok, requested):
    """solution = demand closure (solved returns); returns list of problems"""
    from habutax import form as hform
    probs = []
    vals = solver._v.values
    if not ok:
        return probs
    loaded = set(solver.forms.keys())
    # (1) closed: required lines of participating forms, and everything read
    for fname, form in solver.forms.items():
        for f in form.required_fields():
            if f.name() not in vals:
                probs.append(f'required line {f.name()} of participating form {fname} is absent')
    reads = {}
    for name in list(vals):
        vlog, ilog, exc = reads_of(solver, name)
        reads[name] = vlog
        for m in vlog:
            if m not in vals:
                probs.append(f'{name} read {m}, which is not in the solution')
            elif m.split('.')[0] not in loaded:
                probs.append(f'{name} read {m}, whose form is not in the solution')
    # (2) least: recompute the closure from the request
    closure, forms_in = set(), set()
    work = []

    def add_form(fn):
        if fn in forms_in or fn not in solver.forms:
            return
        forms_in.add(fn)
        for f in solver.forms[fn].required_fields():
            work.append(f.name())
    for fn in requested:
        add_form(fn)
    while work:
        n = work.pop()
        if n in closure:
            continue
        closure.add(n)
        add_form(n.split('.')[0])
        for m in reads.get(n, []):
            if m not in closure:
                work.append(m)
    extra = sorted(set(vals) - closure)
    missing = sorted(closure - set(vals))
    # (3) the RETURNED solution (Solver.solution(), what is written out) carries exactly the same lines and forms
    try:
        sol = solver.solution()
        returned = {f'{sec}.{key}' for sec in sol.sections() for key in sol[sec]}
        want = {n.split('.', 1)[0] + '.' + n.split('.', 1)[1].lower() for n in vals}     # configparser lower-cases options
        for n in sorted(want - returned)[:4]:
            probs.append(f'line {n} has a value but is absent from the returned solution')
        for n in sorted(returned - want)[:4]:
            probs.append(f'the returned solution contains {n}, which the solve did not produce')
    except Exception as e:  # noqa: BLE001
        probs.append(f'Solver.solution() raised {type(e).__name__}: {str(e)[:80]}')
    if extra:
        probs.append(f'solution holds lines nobody demanded: {extra[:6]}')
    if missing:
        probs.append(f'demand closure has lines the solution lacks: {missing[:6]}')
    extra_forms = sorted(loaded - forms_in)
    if extra_forms:
        probs.append(f'solution has forms nothing referred to: {extra_forms[:6]}')
    return probs


# ------------------------------------------------------------------------------ result signatures

def signature(result):
    """what C05 says must not depend on the order: verdict/abort, values, lines, forms, diagnostics"""
    e = result['exception']
    if e is not None:
        return ('abort', type(e).__name__)
    s = result['solver']
    vals = tuple(sorted((k, repr(v)) for k, v in s._v.values.items()))
    return ('solved' if result['ok'] else 'failed', vals, tuple(sorted(s.forms.keys())),
            tuple(sorted(set(s.unimplemented_fields()))),
            tuple(sorted((d, tuple(sorted(set(ws)))) for d, ws in s.unmet_input_dependencies().items())),
            tuple(sorted((d, tuple(sorted(set(ws)))) for d, ws in s.unmet_field_dependencies().items())),
            tuple(sorted(sc.inputs_of(result).items())))


def describe_diff(a, b):
    if a[0] != b[0] or a[0] == 'abort':
        return f'outcome {a[:2] if a[0] == "abort" else a[0]} vs {b[:2] if b[0] == "abort" else b[0]}'
    names = ['verdict', 'values', 'forms', 'unimplemented', 'missing inputs', 'blocked lines', 'final inputs']
    for i in range(1, len(a)):
        if a[i] != b[i]:
            da = set(a[i]) ^ set(b[i])
            return f'{names[i]} differ: {sorted(da, key=str)[:4]}'
    return 'equal'


def hash_schedule(seed):
    import hashlib

    def rank(item):
        name = item if isinstance(item, str) else item.name()
        return hashlib.sha256(f'{seed}|{name}'.encode()).digest()

    def schedule(site, items):
        return sorted(items, key=rank)
    return schedule


def rerun_with(result, schedule=None, forms=None, file_inputs=None, policy=None):
    return sc.run(result['year'], forms if forms is not None else result['forms'], policy,
                  file_inputs=file_inputs if file_inputs is not None else sc.inputs_of(result),
                  schedule=schedule)


def ini_text(inputs, rng):
    """an input file with shuffled sections / keys, odd spacing, comments, mixed-case keys"""
    by = {}
    for k, v in inputs.items():
        s, o = k.split('.')
        by.setdefault(s, []).append((o, v))
    secs = list(by)
    rng.shuffle(secs)
    out = []
    for s in secs:
        if rng.random() < 0.3:
            out.append('# a comment')
        out.append(f'[{s}]')
        items = by[s]
        rng.shuffle(items)
        for o, v in items:
            if rng.random() < 0.2:
                out.append('; another comment')
            key = o.upper() if rng.random() < 0.2 else o
            delim = rng.choice([' = ', '=', ' : ', ':', '   =   '])
            out.append(f'{key}{delim}{v}' if v.strip() == v and '\n' not in v else f'{key} = {v}')
            if rng.random() < 0.15:
                out.append('')
        out.append('')
    return '\n'.join(out) + '\n'


def run_from_text(result, text, policy=None):
    """solve with the input file given as text (through the real file reader)"""
    from habutax import solver as hsolver, inputs as hinputs, forms as hforms
    fd, path = tempfile.mkstemp(suffix='.habutax', dir='/var/tmp')
    try:
        with os.fdopen(fd, 'w') as f:
            f.write(text)
        store = hinputs.InputStore(path)
    finally:
        os.unlink(path)
    s = hsolver.Solver(store, hforms.available_forms[result['year']], prompt=None)
    out = dict(year=result['year'], forms=result['forms'], solver=s, store=store, cfg=store.config,
               asked=[], exception=None, ok=None)
    try:
        out['ok'] = s.solve(list(result['forms']))
    except BaseException as e:  # noqa: BLE001
        if isinstance(e, (KeyboardInterrupt, SystemExit)):
            raise
        out['exception'] = e
    return out


class FixedPolicy:
    """answers exactly the given inputs, refuses anything else"""
    def __init__(self, answers):
        self.answers = answers
        self.refused = []

    def answer(self, inp):
        a = self.answers.get(inp.name())
        if a is None:
            self.refused.append(inp.name())
        return a


# ------------------------------------------------------------------------------ read-sequence determinism (C05)

class ReadTrace:
    """Per line evaluation: the SEQUENCE of store reads with what each returned, and how the evaluation ended.
    A line definition is a function of inputs and other lines only (C05), so the k-th thing it reads, and its
    result once it stops reading, are determined by what the earlier reads returned.  Two evaluations of the same
    line -- in one solve or in two solves of the same scenario -- that received the same answers so far and then do
    something different show a line that consults something else (loaded forms, solver state, a module global)."""

    def __init__(self):
        self.attempts = []          # (line, [(kind, key, result)], outcome)
        self._stack = []

    @staticmethod
    def _show(v):
        return f'{type(v).__name__}:{v!r}'

    def install(self):
        import contextlib
        from habutax import solver as hsolver, inputs as hinputs, values as hvalues
        tr = self

        @contextlib.contextmanager
        def cm():
            orig_attempt = hsolver.Solver._attempt_field
            orig_iget = hinputs.InputStore.__getitem__
            orig_vget = hvalues.ValueStore.__getitem__
            orig_vset = hvalues.ValueStore.__setitem__

            def attempt(self, field):
                rec = {'line': field.name(), 'reads': [], 'outcome': None}
                tr._stack.append(rec)
                try:
                    return orig_attempt(self, field)
                finally:
                    tr._stack.pop()
                    tr.attempts.append((rec['line'], rec['reads'], rec['outcome']))

            def mk(kind, orig):
                def get(self, key):
                    try:
                        v = orig(self, key)
                    except BaseException as e:  # noqa: BLE001
                        if tr._stack:
                            tr._stack[-1]['reads'].append((kind, key, 'raises ' + type(e).__name__))
                        raise
                    if tr._stack:
                        tr._stack[-1]['reads'].append((kind, key, tr._show(v)))
                    return v
                return get

            def vset(self, key, value):
                if tr._stack and tr._stack[-1]['line'] == key:
                    tr._stack[-1]['outcome'] = 'value ' + tr._show(value)
                return orig_vset(self, key, value)
            hsolver.Solver._attempt_field = attempt
            hinputs.InputStore.__getitem__ = mk('input', orig_iget)
            hvalues.ValueStore.__getitem__ = mk('line', orig_vget)
            hvalues.ValueStore.__setitem__ = vset
            try:
                yield tr
            finally:
                hsolver.Solver._attempt_field = orig_attempt
                hinputs.InputStore.__getitem__ = orig_iget
                hvalues.ValueStore.__getitem__ = orig_vget
                hvalues.ValueStore.__setitem__ = orig_vset
        return cm()

    def divergences(self):
        """[(line, common history, action A, action B)]: same line, same answers so far, different next step"""
        tries = {}
        out, seen = [], set()
        for line, reads, outcome in self.attempts:
            node = tries.setdefault(line, {})
            hist = []
            steps = [('read', k, key, res) for k, key, res in reads]
            for st in steps + [('end', outcome)]:
                action = st[:3] if st[0] == 'read' else ('end', st[1] if st[1] is not None and st[1].startswith('value') else None)
                # an evaluation that ends without a value ended in the exception its last read raised (or in
                # not_implemented / a failed guard): only VALUES are compared at the end
                if st[0] == 'end' and action[1] is None:
                    break
                prev = node.get('action')
                if prev is None:
                    node['action'] = action
                elif prev != action:
                    # a different next read, a different value, or one evaluation stopped with a value where the
                    # other went on reading
                    if line not in seen:
                        seen.add(line)
                        out.append((line, list(hist), prev, action))
                    break
                if st[0] == 'read':
                    hist.append((st[1], st[2], st[3]))
                    node = node.setdefault(('res', st[3]), {})
        return out
