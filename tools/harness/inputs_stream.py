"""inputs stream: Python string semantics, habutax Input.valid/value and InputStore[...] vs the Lean model.

Every case is one protocol line answered by `HabuVerif.InputsDrv.step`; the expected answer is
computed here by calling the REAL code in-process (CPython `str`/`int`/`float`/`re`, habutax
`Input` classes, `InputStore` fed from a real INI file or through `__setitem__`).

    run(seed, n, run_step, thorough=None) -> dict(cases, disagreements, distribution, samples)

`run_step(list_of_lines) -> list_of_lines` pipes lines to the model.  With `thorough` (default:
VERIF_TIER == 'thorough') every code point is swept for the character-class functions
(isspace / lower / decimal value, and white space / digits as seen by int() and float()).
"""
import configparser
import enum as pyenum
import os
import random
import re
import struct
import sys
import tempfile
import warnings
import zlib

try:
    from . import common
except ImportError:  # run as a plain script directory
    import common

warnings.filterwarnings('ignore', category=SyntaxWarning)
from habutax import inputs as hi          # noqa: E402
from habutax import enum as henum         # noqa: E402

try:
    import re._parser as sre_parse
    import re._constants as sre_c
except ImportError:  # pragma: no cover  (Python < 3.11)
    import sre_parse
    import sre_constants as sre_c

# ----------------------------------------------------------------------------- encodings


def enc_text(s):
    return 'x' + s.encode('utf-8').hex()


def has_surrogate(s):
    return any(0xD800 <= ord(c) <= 0xDFFF for c in s)


def float_bits(x):
    return struct.pack('>d', x).hex()


class EnumRegistry:
    """identity numbers for enum classes"""

    def __init__(self):
        self.ids = {}

    def ident(self, e):
        if id(e) not in self.ids:
            self.ids[id(e)] = (len(self.ids) + 1, e)
        return self.ids[id(e)][0]


REG = EnumRegistry()


def is_stringy(e):
    return issubclass(e, henum.StringyEnum)


def enc_enum_body(e):
    members = ','.join(enc_text(k) for k in e.__members__)
    return f'{REG.ident(e)}:{1 if is_stringy(e) else 0}:{enc_text(e.__name__)}:{members}'


def type_tag(t):
    return zlib.crc32(t.__name__.encode('utf-8')) % 1000


def enc_int(i):
    return ('-' if i < 0 else '') + format(abs(i), 'x')


def enc_val(v):
    """canonical rendering of a Python object the way the model classifies it"""
    t = type(v)
    if v is None:
        return 'none'
    if t is bool:
        return f'bool:{1 if v else 0}'
    if t is int:
        return 'int:' + enc_int(v)
    if t is float:
        return 'float:' + float_bits(v)
    if t is str:
        return 'str:' + enc_text(v)
    if isinstance(v, pyenum.Enum) and not isinstance(v, (str, int, float)):
        return f'enum:{REG.ident(t)}:{enc_text(v.name)}'
    if isinstance(v, str):
        return f'strsub:{type_tag(t)}:{enc_text(str.__str__(v))}'
    return f'other:{type_tag(t)}'


def enc_exc(e):
    return 'raise ' + type(e).__name__


# ----------------------------------------------------------------------------- regex AST from sre


class OutsideFragment(Exception):
    pass


def _seq(items):
    items = list(items)
    if not items:
        return ['e']
    out = items[-1]
    for it in reversed(items[:-1]):
        out = ['C'] + it + out
    return out


def _alts(items):
    out = items[-1]
    for it in reversed(items[:-1]):
        out = ['A'] + it + out
    return out


def sre_tokens(parsed):
    """prefix token list of the model's regex AST for an sre parse tree (no flags)"""
    toks = []
    for op, av in parsed:
        if op is sre_c.LITERAL:
            toks.append(['c', str(av)])
        elif op is sre_c.NOT_LITERAL:
            toks.append(['k', '1', '1', str(av), str(av)])
        elif op is sre_c.ANY:
            toks.append(['.'])
        elif op is sre_c.IN:
            neg, ranges = '0', []
            for iop, iav in av:
                if iop is sre_c.NEGATE:
                    neg = '1'
                elif iop is sre_c.LITERAL:
                    ranges += [str(iav), str(iav)]
                elif iop is sre_c.RANGE:
                    ranges += [str(iav[0]), str(iav[1])]
                else:
                    raise OutsideFragment(str(iop))
            toks.append(['k', neg, str(len(ranges) // 2)] + ranges)
        elif op is sre_c.AT:
            if av is sre_c.AT_BEGINNING:
                toks.append(['^'])
            elif av is sre_c.AT_END:
                toks.append(['$'])
            else:
                raise OutsideFragment(str(av))
        elif op is sre_c.BRANCH:
            toks.append(_alts([sre_tokens(b) for b in av[1]]))
        elif op is sre_c.SUBPATTERN:
            group, add_flags, del_flags, p = av
            if add_flags or del_flags:
                raise OutsideFragment('flags')
            toks.append(sre_tokens(p))
        elif op in (sre_c.MAX_REPEAT, sre_c.MIN_REPEAT):
            lo, hi, p = av
            toks.append(['R', str(lo), '-' if hi is sre_c.MAXREPEAT else str(hi)] + sre_tokens(p))
        else:
            raise OutsideFragment(str(op))
    return _seq(toks)


def regex_tokens(pattern):
    return ','.join(sre_tokens(sre_parse.parse(pattern)))


# ----------------------------------------------------------------------------- specs


class StubForm:
    def __init__(self, name):
        self._n = name

    def name(self):
        return self._n


def enc_spec(i):
    t = type(i)
    if t is hi.StringInput:
        return 'str'
    if t is hi.BooleanInput:
        return 'bool'
    if t is hi.IntegerInput:
        return 'int'
    if t is hi.FloatInput:
        return 'float'
    if t is hi.SSNInput:
        return 'ssn'
    if t is hi.EnumInput:
        ident, rest = enc_enum_body(i.enum).split(':', 1)
        return f'enum:{ident}:{1 if i.allow_empty else 0}:{rest}'
    if t is hi.RegexInput:
        return 'regex:' + regex_tokens(i._regex_str)
    raise ValueError(t)


ROUTING = '^(0[1-9]|1[0-2]|2[1-9]|3[0-2])[0-9]{7}$'
ACCOUNT = '^[0-9A-Za-z\\-]{1,17}$'
NAME_RE = '^(Bob|[Rr]obert) Smith$'

PLAIN_ENUM = pyenum.Enum('Plain Name', {'Single': 's', 'single': 't', 'A': 'u'})
ODD_ENUM = henum.make('Odd', {'a b': '1', ' lead': '2', 'trail ': '3', 'Ünï': '4', 'x-y': '5',
                              'None': '6', 'ΣΑΣ': '7', '١٢': '8', 'true': '9'})
TINY_ENUM = henum.make('Tiny', {'y': 'yes'})
ENUMS = [henum.filing_status, henum.filing_status_2021, henum.us_states, henum.taxpayer_or_spouse,
         henum.taxpayer_spouse_or_both, PLAIN_ENUM, ODD_ENUM, TINY_ENUM]


def shipped_regexes():
    """the regex strings actually used by the shipped forms"""
    found = set()
    import habutax.forms as forms_pkg
    import importlib
    import pkgutil
    for year in pkgutil.iter_modules(forms_pkg.__path__):
        ypkg = importlib.import_module(f'habutax.forms.{year.name}')
        if not hasattr(ypkg, '__path__'):
            continue
        for m in pkgutil.iter_modules(ypkg.__path__):
            src = os.path.join(ypkg.__path__[0], m.name + '.py')
            try:
                text = open(src, encoding='utf-8').read()
            except OSError:
                continue
            if 'RegexInput' not in text:
                continue
            mod = importlib.import_module(f'habutax.forms.{year.name}.{m.name}')
            for obj in vars(mod).values():
                if isinstance(obj, type) and hasattr(obj, 'form_name'):
                    try:
                        inst = obj()
                    except Exception:
                        continue
                    for i in inst.inputs():
                        if type(i) is hi.RegexInput:
                            found.add(i._regex_str)
    return sorted(found)


def make_inputs():
    form = StubForm('f')
    out = []
    specs = [hi.StringInput('s'), hi.BooleanInput('b'), hi.IntegerInput('i'), hi.FloatInput('x'),
             hi.SSNInput('ssn'), hi.RegexInput('routing', ROUTING), hi.RegexInput('account', ACCOUNT),
             hi.RegexInput('name', NAME_RE)]
    for k, e in enumerate(ENUMS):
        specs.append(hi.EnumInput(f'e{k}', e))
        specs.append(hi.EnumInput(f'ee{k}', e, allow_empty=True))
    for s in specs:
        s.__form_init__(form)
        out.append(s)
    return out


# ----------------------------------------------------------------------------- adversarial strings

WS = [chr(c) for c in range(sys.maxunicode + 1) if chr(c).isspace()]
ZEROS = []
for _c in range(sys.maxunicode + 1):
    try:
        if int(chr(_c)) == 0 and not (0xD800 <= _c <= 0xDFFF):
            ZEROS.append(_c)
    except ValueError:
        pass
ARABIC_INDIC, FULLWIDTH = 0x660, 0xFF10
JUNK = ['_', '-', '+', '.', 'e', 'E', ' ', '\t', '\n', '\x1c', '\x1f', '\x85', '\xa0', ' ', '　', '\x00',
        '\x7f', 'x', '?', 'é', 'İ', 'K', 'Σ', 'ς', 'ß', 'ſ', '−', '–', '٠', '０', '²', '½', '१', ',', "'", '０', 'ı',
        '​', '﻿', '\U0001d7d8', '\U0001e950']
TEN_WORDS = ['true', 'yes', 'y', '1', 'on', 'false', 'no', 'n', '0', 'off']


def pad(rng, s):
    """surround with white space of every kind"""
    def ws():
        return ''.join(rng.choice(WS) for _ in range(rng.choice([0, 0, 1, 1, 2, 5])))
    return ws() + s + ws()


def rand_case(rng, s):
    return ''.join(c.upper() if rng.random() < 0.5 else c.lower() for c in s)


def uni_digits(rng, s, p=0.3):
    out = []
    zero = rng.choice([ARABIC_INDIC, FULLWIDTH, rng.choice(ZEROS)])
    for c in s:
        if c in '0123456789' and rng.random() < p:
            out.append(chr(zero + int(c)))
        else:
            out.append(c)
    return ''.join(out)


def digits(rng, lo=1, hi=6):
    lo, hi = min(lo, hi), max(lo, hi)
    return ''.join(rng.choice('0123456789') for _ in range(rng.randint(lo, hi)))


def underscored(rng, ds):
    out = []
    for k, c in enumerate(ds):
        out.append(c)
        if k + 1 < len(ds) and rng.random() < 0.3:
            out.append('_')
    return ''.join(out)


def mutate(rng, s):
    """one random local damage"""
    k = rng.randint(0, len(s))
    r = rng.random()
    if r < 0.5 or not s:
        return s[:k] + rng.choice(JUNK) + s[k:]
    if r < 0.75:
        k = min(k, len(s) - 1)
        return s[:k] + s[k + 1:]
    k = min(k, len(s) - 1)
    return s[:k] + rng.choice(JUNK) + s[k + 1:]


def gen_int_string(rng):
    ds = digits(rng, 1, rng.choice([3, 6, 12, 25]))
    if rng.random() < 0.3:
        ds = underscored(rng, ds)
    s = rng.choice(['', '', '', '+', '-']) + ds
    if rng.random() < 0.25:
        s = uni_digits(rng, s)
    return s


def gen_float_string(rng):
    r = rng.random()
    if rng.random() < 0.06:
        # grouping characters people type in amounts: none of these is a Python float literal
        a, b = digits(rng, 1, 3), digits(rng, 3, 3)
        return rng.choice([f'{a},{b}', f'{a},{b}.{digits(rng, 2, 2)}', f'{a},{digits(rng, 1, 2)}', ',', f'{a},', f',{b}', f'{a},e3',
                           f'{a} {b}', f"{a}'{b}", f'{a}.{b},{digits(rng, 2, 2)}', f'${a}', f'{a}$', f'{a}%', f'({a})'])
    if r < 0.15:
        w = rng.choice(['nan', 'inf', 'infinity', 'Infinity', 'NaN', 'infinit', 'in', 'na', 'infinityy', 'nan0',
                        'i_nf', 'ınf', 'İnf', 'nan(1)', 'snan', 'inf.', '1nf'])
        return rng.choice(['', '', '+', '-', '--']) + (rand_case(rng, w) if rng.random() < 0.6 else w)
    ip = digits(rng, 0, rng.choice([1, 3, 8, 20]))
    fp = digits(rng, 0, rng.choice([1, 2, 2, 6, 20]))
    if rng.random() < 0.2:
        ip = underscored(rng, ip)
    if rng.random() < 0.2:
        fp = underscored(rng, fp)
    s = ip
    if fp or rng.random() < 0.3:
        s += '.' + fp
    if rng.random() < 0.3:
        ex = str(rng.choice([0, 1, 2, 5, 15, 22, 23, 300, 308, 309, 310, 323, 324, 325, 400, 999, 10 ** 20]))
        if rng.random() < 0.15:
            ex = underscored(rng, ex)
        s += rng.choice('eE') + rng.choice(['', '+', '-']) + (ex if rng.random() < 0.95 else '')
    s = rng.choice(['', '', '', '+', '-']) + s
    if rng.random() < 0.2:
        s = uni_digits(rng, s)
    return s


def gen_halfway_float(rng):
    """decimal strings exactly between two doubles / near the overflow and subnormal borders"""
    r = rng.random()
    if r < 0.3:
        # k + 1/2 ulp for 53-bit k:  (2k+1) * 2^e  written exactly in decimal
        k = rng.getrandbits(53) | (1 << 52)
        e = rng.randint(-30, 30)
        num = 2 * k + 1
        if e >= 1:
            return str(num << (e - 1))
        # num * 2^(e-1) = num * 5^(1-e) / 10^(1-e)
        p = 1 - e
        ds = str(num * 5 ** p)
        ds = ds.rjust(p + 1, '0')
        return ds[:-p] + '.' + ds[-p:]
    if r < 0.5:
        return rng.choice(['1.7976931348623157e308', '1.7976931348623158e308', '1.7976931348623159e308',
                           '179769313486231580793728971405303415079934132710037826936173778980444968292764750946649017977587207096330286416692887910946555547851940402630657488671505820681908902000708383676273854845817711531764475730270069855571366959622842914819860834936475292719074168444365510704342711559699508093042880177904174497791.9999999999999999999999999999999999999999999999999999999999999999999999',
                           '179769313486231580793728971405303415079934132710037826936173778980444968292764750946649017977587207096330286416692887910946555547851940402630657488671505820681908902000708383676273854845817711531764475730270069855571366959622842914819860834936475292719074168444365510704342711559699508093042880177904174497792',
                           '4.9406564584124654e-324', '2.4703282292062327e-324', '2.4703282292062328e-324',
                           '2.4703282292062327208051355972539940e-324', '2.2250738585072014e-308', '2.2250738585072011e-308',
                           '1e-400', '-1e-400', '1e400', '0.' + '0' * 400 + '1', '1' + '0' * 400, '9007199254740993',
                           '9007199254740992.5', '0e9999', '-0.0', '-0', '0.0000e-999999999999999999999'])
    # money-like
    return f'{rng.randint(0, 10 ** rng.choice([2, 5, 9])) / 100:.{rng.choice([0, 1, 2, 3])}f}'


def gen_bool_string(rng):
    w = rng.choice(TEN_WORDS + ['True', 'FALSE', 'Yes', 'NO', 'On', 'OFF', 'ye', 'tru', 'yess', 'of', 'o n', 'yes.',
                                'ｙｅｓ', 'ＴＲＵＥ', '１', '٠', '١', 'ΟΝ', 'trüe', 'İ', 'oſſ', 'ﬀ', 'K', '2', '01', '+1', '',
                                'none', 'y\x00', 'no​', 't', 'f', 'ＯＮ'])
    if rng.random() < 0.5:
        w = rand_case(rng, w)
    return w


def gen_ssn_string(rng):
    d = digits(rng, 9, 9)
    r = rng.random()
    if r < 0.4:
        s = f'{d[:3]}-{d[3:5]}-{d[5:]}'
    elif r < 0.55:
        s = d
    elif r < 0.7:
        s = ''.join(c + ('-' if rng.random() < 0.4 else '') for c in d)
    elif r < 0.8:
        s = digits(rng, rng.choice([0, 8, 10]), rng.choice([8, 10, 11]))
    elif r < 0.9:
        s = uni_digits(rng, f'{d[:3]}-{d[3:5]}-{d[5:]}', 0.2)
    else:
        s = f'{d[:3]}{rng.choice(["–", "−", " ", "_", ".", "- ", " -"])}{d[3:5]}-{d[5:]}'
    return s


def gen_enum_string(rng, e=None):
    e = e or rng.choice(ENUMS)
    names = list(e.__members__)
    w = rng.choice(names)
    r = rng.random()
    if r < 0.45:
        return w
    if r < 0.6:
        return rand_case(rng, w)
    if r < 0.7:
        return w[:-1] if rng.random() < 0.5 else w + rng.choice(['s', ' ', '.', w[-1]])
    if r < 0.8:
        return rng.choice(['', ' ', '　', '\x1f', 'None', 'none', '0', str(e[w].value), f'{e.__name__}.{w}', repr(w)])
    return mutate(rng, w)


def gen_routing_string(rng):
    r = rng.random()
    if r < 0.5:
        p = rng.choice(['%02d' % k for k in list(range(1, 13)) + list(range(21, 33))])
        s = p + digits(rng, 7, 7)
    elif r < 0.7:
        s = '%02d' % rng.choice([0, 13, 14, 20, 33, 40, 99]) + digits(rng, 7, 7)
    elif r < 0.85:
        s = digits(rng, rng.choice([8, 10]), rng.choice([8, 10]))
    else:
        s = uni_digits(rng, '01' + digits(rng, 7, 7), 0.2)
    if rng.random() < 0.2:
        s += rng.choice(['\n', '\n\n', '\r\n', ' \n', '\x0b', '\x1c', ' '])
    return s


def gen_account_string(rng):
    alpha = '0123456789ABCXYZabcxyz-'
    r = rng.random()
    n = rng.choice([1, 5, 16, 17, 17, 18, 19, 0, 30])
    s = ''.join(rng.choice(alpha) for _ in range(n))
    if r < 0.2:
        s = mutate(rng, s)
    if rng.random() < 0.2:
        s += rng.choice(['\n', '\n\n', '\r\n', ' \n', '\x0b'])
    return s


def gen_name_string(rng):
    s = rng.choice(['Bob Smith', 'Robert Smith', 'robert Smith', 'bob Smith', 'Bob  Smith', 'Bob Smith Jr',
                    'Bob Smith\n', 'Bob Smith\n\n', 'Robert Smit', 'BobSmith', 'Bob Smith'])
    return mutate(rng, s) if rng.random() < 0.2 else s


def gen_long_string(rng):
    r = rng.random()
    if r < 0.25:
        n = rng.choice([639, 640, 641, 4299, 4300, 4301, 5000])
        lead = rng.choice(['', '0', '-', '+', ' '])
        return lead + rng.choice('123456789') * 1 + digits(rng, n - 1, n - 1)
    if r < 0.4:
        n = rng.choice([4300, 4301])
        return '_'.join(digits(rng, n, n))
    if r < 0.55:
        return '0' * rng.choice([4300, 4301, 6000]) + rng.choice(['', '1', '.5', 'e5'])
    if r < 0.7:
        return ''.join(rng.choice(WS) for _ in range(2000)) + rng.choice(['yes', '12', '1.5', 'Single']) + \
            ''.join(rng.choice(WS) for _ in range(2000))
    if r < 0.85:
        return '1' + '0' * rng.choice([300, 308, 309, 1000]) + rng.choice(['', '.0', 'e-5', 'e-1000'])
    return ''.join(rng.choice('0123456789ABCabc-') for _ in range(rng.choice([17, 18, 500, 5000])))


def gen_random_string(rng):
    n = rng.choice([0, 1, 1, 2, 3, 5, 9])
    return ''.join(rng.choice(JUNK + list('0123456789yesnotruefalseonoff')) for _ in range(n))


GENS = {
    'int': gen_int_string, 'float': gen_float_string, 'halfway': gen_halfway_float, 'bool': gen_bool_string,
    'ssn': gen_ssn_string, 'enum': gen_enum_string, 'routing': gen_routing_string, 'account': gen_account_string,
    'name': gen_name_string, 'random': gen_random_string,
}


def gen_clean(rng, kind, inp=None):
    """a string the input is meant to accept (the mostly-valid part of the stream)"""
    if kind == 'int':
        return rng.choice(['', '', '-']) + str(rng.randint(0, 10 ** rng.choice([1, 3, 6, 12])))
    if kind in ('float', 'halfway'):
        return rng.choice(['', '', '-']) + f'{rng.randint(0, 10 ** rng.choice([2, 5, 9])) / 100:.{rng.choice([0, 1, 2, 2, 3])}f}'
    if kind == 'bool':
        w = rng.choice(TEN_WORDS)
        return rand_case(rng, w) if rng.random() < 0.4 else w
    if kind == 'ssn':
        d = digits(rng, 9, 9)
        return rng.choice([d, f'{d[:3]}-{d[3:5]}-{d[5:]}'])
    if kind == 'enum':
        e = inp.enum if inp is not None and type(inp) is hi.EnumInput else rng.choice(ENUMS)
        return rng.choice(list(e.__members__))
    if kind == 'routing':
        return rng.choice(['%02d' % k for k in list(range(1, 13)) + list(range(21, 33))]) + digits(rng, 7, 7)
    if kind == 'account':
        return ''.join(rng.choice('0123456789ABCXYZabcxyz-') for _ in range(rng.randint(1, 17)))
    if kind == 'name':
        return rng.choice(['Bob Smith', 'Robert Smith', 'robert Smith'])
    return rng.choice(['John Smith', 'x', '123 Main St.', 'Ünï cödé', ''])


def gen_string(rng, kind, inp=None):
    if rng.random() < 0.45:
        s = gen_clean(rng, kind, inp)
        return pad(rng, s) if rng.random() < 0.3 else s
    if kind == 'enum' and inp is not None and type(inp) is hi.EnumInput:
        s = gen_enum_string(rng, inp.enum)
    else:
        s = GENS[kind](rng)
    r = rng.random()
    if r < 0.35:
        s = pad(rng, s)
    if rng.random() < (0.15 if kind != 'halfway' else 0.0):
        s = mutate(rng, s)
    return s


def natural_kinds(inp):
    t = type(inp)
    if t is hi.IntegerInput:
        return ['int', 'int', 'int', 'float']
    if t is hi.FloatInput:
        return ['float', 'float', 'halfway', 'int']
    if t is hi.BooleanInput:
        return ['bool']
    if t is hi.SSNInput:
        return ['ssn']
    if t is hi.EnumInput:
        return ['enum']
    if t is hi.RegexInput:
        return {ROUTING: ['routing'], ACCOUNT: ['account']}.get(inp._regex_str, ['name'])
    return ['random', 'enum', 'bool']


# ----------------------------------------------------------------------------- random regexes

RX_ALPHA = ['a', 'b', '0', '1', '-', '\n', ' ', 'é']


def gen_regex(rng, depth=0):
    """a random pattern string inside the fragment (anchors only at the outside of the pattern or of a
    top-level alternative, which is where Python's treatment of empty iterations cannot matter)"""
    def lit():
        c = rng.choice(RX_ALPHA)
        return re.escape(c) if c != '\n' else '\\n'

    def cls():
        items = []
        for _ in range(rng.randint(1, 3)):
            if rng.random() < 0.5:
                a, b = sorted(rng.sample('abc0129', 2))
                items.append(f'{a}-{b}')
            else:
                c = rng.choice(['a', 'b', '0', '\\-', '\\n', ' ', 'é'])
                items.append(c)
        return '[' + ('^' if rng.random() < 0.25 else '') + ''.join(items) + ']'

    def atom(d):
        r = rng.random()
        if r < 0.45 or d > 2:
            return lit()
        if r < 0.65:
            return cls()
        if r < 0.72:
            return '.'
        return '(' + alt(d + 1) + ')'

    def piece(d):
        a = atom(d)
        r = rng.random()
        if r < 0.5:
            return a
        q = rng.choice(['*', '+', '?', '{2}', '{0,2}', '{1,3}', '{2,}', '*?', '+?', '??', '{0}', '{1,2}?'])
        return a + q

    def seq(d):
        return ''.join(piece(d) for _ in range(rng.choice([1, 1, 2, 2, 3, 4])))

    def alt(d):
        return '|'.join(seq(d) for _ in range(rng.choice([1, 1, 1, 2, 3])))

    def top_branch():
        return ('^' if rng.random() < 0.4 else '') + seq(0) + ('$' if rng.random() < 0.5 else '')

    return '|'.join(top_branch() for _ in range(rng.choice([1, 1, 2])))


def gen_rx_subject(rng):
    n = rng.choice([0, 1, 2, 3, 4, 6, 9])
    s = ''.join(rng.choice(RX_ALPHA + ['a', 'a', 'b', '0']) for _ in range(n))
    if rng.random() < 0.3:
        s += rng.choice(['\n', '\n\n', 'a\n'])
    return s


# ----------------------------------------------------------------------------- real answers


def real_call(f, *args):
    try:
        return True, f(*args)
    except Exception as e:  # noqa: BLE001  (the exception class IS the observation)
        return False, e


def real_valid(inp, s):
    ok, r = real_call(inp.valid, s)
    if ok:
        return f'{r!r} {r!r}'
    return f'{enc_exc(r)} False'


def real_value(inp, s):
    ok, r = real_call(inp.value, s)
    return enc_val(r) if ok else enc_exc(r)


def classify_store(store, key, keep_text=True):
    try:
        v = store[key]
    except hi.MissingInputSpecification:
        return 'noSpec'
    except hi.MissingInput:
        return 'missing'
    except hi.InvalidInput as e:
        return 'invalid ' + enc_text(e.value) if keep_text else 'invalid'
    except Exception as e:  # noqa: BLE001
        return 'raised ' + enc_exc(e)
    return 'ok ' + enc_val(v)


def ini_safe(s):
    return '\n' not in s and '\r' not in s and not has_surrogate(s) and '\x00' not in s


class Collector:
    def __init__(self):
        self.ops, self.real, self.kinds, self.post, self.flags = [], [], [], [], []

    def add(self, kind, op, real, post=None, text=None):
        self.ops.append(op)
        self.real.append(real)
        self.kinds.append(kind)
        self.post.append(post)
        self.flags.append(text_flags(text))


def text_flags(s):
    """coarse features of the input text, for the distribution report"""
    if s is None:
        return ''
    f = ''
    if len(s) > 600:
        f += '+long'
    if any(ord(c) > 127 for c in s.strip()):
        f += '+unicode'
    if '_' in s:
        f += '+underscore'
    t = s.strip()
    if t.lower().lstrip('+-') in ('nan', 'inf', 'infinity'):
        f += '+nan/inf'
    else:
        try:
            if t and float(t) in (float('inf'), float('-inf')):
                f += '+overflow'
        except ValueError:
            pass
    return f


def pick_inputs(rng, inputs_list, k):
    """k inputs, every class equally likely"""
    by_type = {}
    for i in inputs_list:
        by_type.setdefault(type(i), []).append(i)
    chosen = {}
    for _ in range(k):
        i = rng.choice(by_type[rng.choice(list(by_type))])
        chosen[i.name()] = i
    return list(chosen.values())


def add_store_batch(col, rng, inputs_list, tmpdir, k):
    """one INI file with many keys (file path) and one in-memory store (`__setitem__` path)"""
    by_key = {i.name(): i for i in inputs_list}
    inputs_list = pick_inputs(rng, inputs_list, 8)
    # ---- file path
    entries = []
    lines = ['[f]']
    for inp in inputs_list:
        mode = rng.random()
        if mode < 0.15:
            entries.append((inp, None))
            continue
        s = gen_string(rng, rng.choice(natural_kinds(inp)), inp)
        if not ini_safe(s):
            s = s.replace('\n', ' ').replace('\r', ' ').replace('\x00', '0')
        entries.append((inp, s))
        lines.append(f'{inp.base_name()} {rng.choice(["=", ":", " = "])} {s}')
    path = os.path.join(tmpdir, f'in{k}.ini')
    with open(path, 'w', encoding='utf-8', newline='\n') as f:
        f.write('\n'.join(lines) + '\n')
    store = hi.InputStore(path, by_key)
    for inp, s in entries:
        key = inp.name()
        real = classify_store(store, key, keep_text=False)
        op = f'getitem {enc_spec(inp)} {"-" if s is None else enc_text(s)}'
        col.add('getitem.file', op, real, post=lambda m: 'invalid' if m.startswith('invalid ') else m)
    col.add('getitem.file', 'getitem - -', classify_store(store, 'f.nosuch'))
    col.add('getitem.file', f'getitem - {enc_text("1")}', classify_store(store, 'g.x'))
    # ---- prompt path: __setitem__ on an initially empty configuration
    store2 = hi.InputStore(configparser.ConfigParser(interpolation=None), by_key)
    for inp in inputs_list:
        key = inp.name()
        if rng.random() < 0.1:
            col.add('getitem.set', f'getitem {enc_spec(inp)} -', classify_store(store2, key))
            continue
        s = gen_string(rng, rng.choice(natural_kinds(inp)), inp)
        if has_surrogate(s):
            continue
        store2[key] = s
        col.add('getitem.set', f'getitem {enc_spec(inp)} {enc_text(s)}', classify_store(store2, key))
    # ---- histories on the SAME store object: what a read returns is a function of the CURRENT specification and the
    # CURRENT text only (the model op is stateless), whatever was read, set, deleted or re-specified before (seed
    # C11g: a memo of parsed values that outlives `del`, a change of the configuration and `update_input_spec`)
    for inp in inputs_list:
        key = inp.name()
        if key not in store2:
            continue
        classify_store(store2, key)                     # a read first, so that anything memoised is memoised
        how = rng.randrange(4)
        if how == 0:
            del store2[key]
            col.add('getitem.history', f'getitem {enc_spec(inp)} -', classify_store(store2, key))
            continue
        s = gen_string(rng, rng.choice(natural_kinds(inp)), inp)
        if has_surrogate(s):
            continue
        if how == 1:
            store2[key] = s
            col.add('getitem.history', f'getitem {enc_spec(inp)} {enc_text(s)}', classify_store(store2, key))
        elif how == 2:
            store2.config.set(inp.section(), inp.base_name(), s)      # the caller's ConfigParser is the backing store
            col.add('getitem.history', f'getitem {enc_spec(inp)} {enc_text(s)}', classify_store(store2, key))
        else:
            other = rng.choice(inputs_list)
            cur = store2.config.get(inp.section(), inp.base_name())
            specs2 = dict(by_key)
            specs2[key] = other.__class__.__new__(other.__class__)
            specs2[key].__dict__.update(other.__dict__)
            specs2[key].__dict__.update({k2: v2 for k2, v2 in inp.__dict__.items() if k2 in ('_name', 'name', '_form', 'form')})
            if specs2[key].name() != key or specs2[key].section() != inp.section() or specs2[key].base_name() != inp.base_name():
                continue
            store2.update_input_spec(specs2)
            col.add('getitem.history', f'getitem {enc_spec(specs2[key])} {enc_text(cur)}', classify_store(store2, key))
            store2.update_input_spec(by_key)


def build(seed, n, thorough):
    col = Collector()
    inputs_list = make_inputs()
    # --- fixed checks: the regex constants of the model are the shipped patterns
    shipped = shipped_regexes()
    for name, pat in (('routing', ROUTING), ('account', ACCOUNT)):
        col.add('rxconst', f'rxconst {name}', regex_tokens(pat))
        if pat not in shipped:
            col.add('rxconst', f'rxconst {name}', f'<pattern {pat!r} not used by the shipped forms: {shipped}>')
    for pat in shipped:
        if pat not in (ROUTING, ACCOUNT):
            col.add('rxconst', 'rxconst other', f'<shipped pattern {pat!r} has no model constant>')
    # --- character classes
    if thorough:
        cps = [c for c in range(sys.maxunicode + 1) if not 0xD800 <= c <= 0xDFFF]
    else:
        rng = random.Random(f'{seed}/inputs/chr')
        cps = list(range(0, 0x250)) + [ord(c) for c in WS] + ZEROS + [z + 9 for z in ZEROS] + \
            [0x3A3, 0x3C2, 0x3C3, 0x130, 0x131, 0x212A, 0x17F, 0x1E9E, 0xDF, 0xFB00, 0x10FFFF, 0xD7FF, 0xE000] + \
            [rng.randrange(0x250, 0x110000) for _ in range(max(200, n // 20))]
        cps = [c for c in cps if not 0xD800 <= c <= 0xDFFF]
    for c in cps:
        ch = chr(c)
        ok, d = real_call(int, ch)
        okf, df = real_call(float, ch)
        numspace = not ok and real_call(int, '1' + ch) == (True, 1) and real_call(int, ch + '1') == (True, 1)
        numspace_f = not okf and real_call(float, '1' + ch) == (True, 1.0) and real_call(float, ch + '1') == (True, 1.0)
        if numspace != numspace_f:
            numspace = f'int/float disagree {numspace}/{numspace_f}'
        real = f'{ch.isspace()!r} {numspace!r} {d if ok else "-"} {int(df) if okf else "-"} ' + \
            ','.join(str(ord(x)) for x in ch.lower()) + ' ' + \
            ','.join(str(ord(x)) for x in (ch + 'Σ').lower()) + ' ' + \
            ','.join(str(ord(x)) for x in ('AΣ' + ch + 'A').lower())
        col.add('chr', f'chr {c}', real)
    # --- main loop
    target = len(col.ops) + n if thorough else max(n, len(col.ops))
    k = 0
    tmpdir = tempfile.mkdtemp(prefix='hvD_inputs_')
    try:
        while len(col.ops) < target:
            rng = random.Random(f'{seed}/inputs/{k}')
            k += 1
            r = rng.random()
            if r < 0.03:
                add_store_batch(col, rng, inputs_list, tmpdir, k)
                continue
            if r < 0.16:
                # regex engine on generated patterns (trailing newlines, anchors, repeats)
                pat = gen_regex(rng)
                try:
                    toks = regex_tokens(pat)
                    cre = re.compile(pat)
                except (OutsideFragment, re.error):
                    continue
                for _ in range(4):
                    s = gen_rx_subject(rng)
                    col.add('rx', f'rx {toks} {enc_text(s)}', repr(bool(cre.match(s))))
                continue
            if r < 0.22:
                # shipped patterns on unstripped text
                pat, kind = rng.choice([(ROUTING, 'routing'), (ACCOUNT, 'account'), (NAME_RE, 'name')])
                s = gen_string(rng, kind)
                col.add('rx.shipped', f'rx {regex_tokens(pat)} {enc_text(s)}', repr(bool(re.compile(pat).match(s))))
                continue
            if r < 0.40:
                # raw Python string semantics
                kind = rng.choice(['int', 'float', 'halfway', 'bool', 'random', 'enum', 'ssn'])
                s = gen_string(rng, kind) if rng.random() < 0.97 else gen_long_string(rng)
                if has_surrogate(s):
                    continue
                col.add('strip', f'strip {enc_text(s)}', enc_text(s.strip()))
                col.add('lower', f'lower {enc_text(s)}', enc_text(s.lower()))
                ok, v = real_call(int, s)
                col.add('int', f'int {enc_text(s)}', 'int:' + enc_int(v) if ok else enc_exc(v), text=s)
                ok, v = real_call(float, s)
                col.add('float', f'float {enc_text(s)}', 'float:' + float_bits(v) if ok else enc_exc(v), text=s)
                if rng.random() < 0.2:
                    col.add('rmdash', f'rmdash {enc_text(s)}', enc_text(s.replace('-', '')))
                continue
            if r < 0.43:
                # sigma contexts for str.lower
                s = ''.join(rng.choice(['Σ', 'Σ', 'A', 'a', '.', "'", ' ', '1', 'ͅ', 'ʰ', 'İ', '­', ':', 'Б', '-'])
                            for _ in range(rng.randint(1, 7)))
                col.add('lower.sigma', f'lower {enc_text(s)}', enc_text(s.lower()))
                col.add('value.sigma', f'value bool {enc_text(s)}', real_value(inputs_list[1], s))
                continue
            if r < 0.45:
                i = rng.choice([0, 1, -1]) * rng.choice([0, 7, 10 ** 18, 10 ** 639, 10 ** 640 - 1, 10 ** 640,
                                                         10 ** 4299, 10 ** 4300 - 1, 10 ** 4300, rng.getrandbits(70)])
                ok, v = real_call(str, i)
                col.add('intstr', f'intstr {enc_int(i)}', enc_text(v) if ok else enc_exc(v))
                continue
            # input classes
            inp = pick_inputs(rng, inputs_list, 1)[0]
            if rng.random() < 0.85:
                kind = rng.choice(natural_kinds(inp))
            else:
                kind = rng.choice(list(GENS))
            if rng.random() < 0.01:
                s = gen_long_string(rng)
            else:
                s = gen_string(rng, kind, inp)
            if has_surrogate(s):
                continue
            spec = enc_spec(inp)
            col.add('valid.' + type(inp).__name__, f'valid {spec} {enc_text(s)}', real_valid(inp, s), text=s)
            col.add('value.' + type(inp).__name__, f'value {spec} {enc_text(s)}', real_value(inp, s))
    finally:
        for f in os.listdir(tmpdir):
            os.unlink(os.path.join(tmpdir, f))
        os.rmdir(tmpdir)
    return col


def branch_of(kind, real):
    head = real.split(' ')[0] if real else ''
    if real.startswith('raise'):
        return kind + ':' + real
    if kind.startswith('valid') or kind.startswith('rx'):
        return kind + ':' + real.split(' ')[-1]
    if kind.startswith('getitem'):
        return kind + ':' + head
    if kind.startswith('value') or kind in ('int', 'float'):
        r = head.split(':')[0]
        if r == 'float':
            b = int(real.split(':')[1][:16], 16) & 0x7FFFFFFFFFFFFFFF
            r = 'float.nan' if b > 0x7FF0000000000000 else 'float.inf' if b == 0x7FF0000000000000 else \
                'float.zero' if b == 0 else 'float.subnormal' if b < 0x0010000000000000 else 'float.finite'
        return kind + ':' + r
    return kind


def run(seed, n, run_step, thorough=None):
    if thorough is None:
        thorough = common.tier() == 'thorough'
    col = build(seed, n, thorough)
    out = run_step(col.ops)
    disagreements, distribution, samples = [], {}, {}
    if len(out) != len(col.ops):
        disagreements.append({'op': '<stream>', 'model': f'{len(out)} answers', 'real': f'{len(col.ops)} operations'})
    for op, real, kind, post, flags, model in zip(col.ops, col.real, col.kinds, col.post, col.flags, out):
        m = post(model) if post else model
        b = branch_of(kind, real) + flags
        distribution[b] = distribution.get(b, 0) + 1
        if b not in samples:
            samples[b] = {'op': op if len(op) < 300 else op[:300] + '…', 'real': real[:200]}
        if m != real:
            disagreements.append({'op': op if len(op) < 2000 else op[:2000] + '…', 'model': model[:500], 'real': real[:500]})
    return {'cases': len(col.ops), 'disagreements': disagreements, 'distribution': distribution,
            'samples': list(samples.values())[:40]}


if __name__ == '__main__':
    import json
    import subprocess
    exe = sys.argv[3] if len(sys.argv) > 3 else common.DRIVER

    def run_step(lines):
        p = subprocess.run([exe], input=('\n'.join(lines) + '\n').encode(), stdout=subprocess.PIPE, check=True)
        return p.stdout.decode().split('\n')[:-1]
    res = run(int(sys.argv[1]) if len(sys.argv) > 1 else 0, int(sys.argv[2]) if len(sys.argv) > 2 else 2000, run_step)
    print(json.dumps({'cases': res['cases'], 'disagreements': res['disagreements'][:10],
                      'n_disagreements': len(res['disagreements']), 'distribution': res['distribution']},
                     indent=1, ensure_ascii=True))
