"""Regenerate the generated part of the Lean model (lean/HabuVerif/Gen) from /repo's working tree.
Files are only rewritten when their content changes, so an unchanged tree costs a no-op build."""
import os

from common import LEAN_DIR

GEN_DIR = os.path.join(LEAN_DIR, 'HabuVerif', 'Gen')


def write_if_changed(path, text):
    os.makedirs(os.path.dirname(path), exist_ok=True)
    try:
        if open(path, encoding='utf-8').read() == text:
            return False
    except FileNotFoundError:
        pass
    with open(path, 'w', encoding='utf-8') as f:
        f.write(text)
    return True


def generate_for(pid):
    """Returns info about what was generated for this property (extra lake targets, failed
    obligations detected while generating)."""
    info = {'extra_targets': [], 'failed': []}
    fn = globals().get('gen_' + pid)
    if fn is not None:
        fn(info)
    return info
