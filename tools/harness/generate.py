"""Regenerate the generated part of the Lean model (lean/HabuVerif/Gen) from /repo's working tree.
Files are only rewritten when their content changes, so an unchanged tree costs a no-op build."""
import os

from common import LEAN_DIR

GEN_DIR = os.path.join(LEAN_DIR, 'HabuVerif', 'Gen')


def write_if_changed(path, text):
    os.makedirs(os.path.dirname(path), exist_ok=True)
    try:
        if open(path, encoding='utf-8').read() == text:
            return False
    except FileNotFoundError:
        pass
    with open(path, 'w', encoding='utf-8') as f:
        f.write(text)
    return True


def generate_for(pid):
    """Returns info about what was generated for this property (extra lake targets, failed
    obligations detected while generating)."""
    info = {'extra_targets': [], 'failed': []}
    fn = globals().get('gen_' + pid)
    if fn is not None:
        fn(info)
    return info


def _run_tool(args, timeout=900):
    import subprocess
    import sys
    from common import VERIF, REPO
    env = dict(os.environ, HABUTAX_REPO=REPO, PYTHONDONTWRITEBYTECODE='1', HABUTAX_VERIF='1')
    p = subprocess.run([sys.executable, '-W', 'ignore'] + args, cwd=os.path.join(VERIF, 'tools'), env=env,
                       stdout=subprocess.PIPE, stderr=subprocess.STDOUT, timeout=timeout)
    return p.returncode, p.stdout.decode('utf-8', 'replace')


def gen_chartable(info):
    """Unicode class tables of the running CPython -> Gen/CharTable.lean"""
    import tempfile
    tmp = tempfile.mktemp(suffix='.lean', dir='/var/tmp')
    try:
        code, out = _run_tool(['gen_chartable.py', tmp])
        if code != 0:
            info['failed'].append({'id': 'gen_chartable', 'log': out[-1500:]})
            return
        write_if_changed(os.path.join(GEN_DIR, 'CharTable.lean'), open(tmp, encoding='utf-8').read())
    finally:
        if os.path.exists(tmp):
            os.unlink(tmp)


def gen_C11(info):
    gen_chartable(info)


def gen_C12(info):
    gen_chartable(info)


def gen_c17_c18(info):
    """catalogue mirror + template field trees -> Gen/C17_*.lean, Gen/C18_*.lean"""
    import json
    import shutil
    import tempfile
    tmpdir = tempfile.mkdtemp(dir='/var/tmp', prefix='hv-gen-')
    try:
        code, out = _run_tool(['gen_c17_c18.py', '--out-dir', tmpdir, '--quiet'])
        if code != 0:
            info['failed'].append({'id': 'gen_c17_c18', 'log': out[-2000:]})
            return
        for fn in sorted(os.listdir(tmpdir)):
            with open(os.path.join(tmpdir, fn), encoding='utf-8') as f:
                write_if_changed(os.path.join(GEN_DIR, fn), f.read())
        info['c17_c18_failed'] = json.load(open(os.path.join(GEN_DIR, 'c17_c18_failed.json')))
        obl = json.load(open(os.path.join(GEN_DIR, 'c17_c18_obligations.json')))
        info['c17_c18_obligations'] = obl
    finally:
        shutil.rmtree(tmpdir, ignore_errors=True)


def gen_C17(info):
    gen_c17_c18(info)
    info['extra_targets'] += ['HabuVerif.Gen.C17_2021', 'HabuVerif.Gen.C17_2022', 'HabuVerif.Gen.C17_2023']


def gen_C18(info):
    gen_c17_c18(info)
    info['extra_targets'] += ['HabuVerif.Gen.C18_2021', 'HabuVerif.Gen.C18_2022', 'HabuVerif.Gen.C18_2023']


def generate_all():
    """used by setup: everything that `lake build` of the whole library needs"""
    info = {'extra_targets': [], 'failed': []}
    gen_chartable(info)
    gen_c17_c18(info)
    for name, fn in list(globals().items()):
        if name.startswith('genall_'):
            fn(info)
    return info


if __name__ == '__main__':
    import sys
    i = generate_all()
    print('generated; generator failures:', [f.get('id') for f in i['failed']])
