"""Regenerate the generated part of the Lean model (lean/HabuVerif/Gen) from /repo's working tree.
Files are only rewritten when their content changes, so an unchanged tree costs a no-op build."""
import os

from common import LEAN_DIR

GEN_DIR = os.path.join(LEAN_DIR, 'HabuVerif', 'Gen')


def write_if_changed(path, text):
    os.makedirs(os.path.dirname(path), exist_ok=True)
    try:
        if open(path, encoding='utf-8').read() == text:
            return False
    except FileNotFoundError:
        pass
    with open(path, 'w', encoding='utf-8') as f:
        f.write(text)
    return True


def repo_hash(extra_files=()):
    """content hash of the working tree's Python sources and form templates (what the generators read)"""
    import hashlib
    from common import REPO
    h = hashlib.sha256()
    for root, dirs, files in os.walk(os.path.join(REPO, 'habutax')):
        dirs[:] = sorted(d for d in dirs if d not in ('__pycache__', 'instructions'))
        for fn in sorted(files):
            if fn.endswith(('.py', '.pdf')):
                path = os.path.join(root, fn)
                h.update(path.encode())
                with open(path, 'rb') as f:
                    h.update(hashlib.sha256(f.read()).digest())
    for path in extra_files:
        with open(path, 'rb') as f:
            h.update(f.read())
    return h.hexdigest()


def stamped(name, outputs, extra_files, info, produce):
    """Run `produce` unless the stamp says the same inputs already produced the outputs."""
    stamp = os.path.join(GEN_DIR, f'.stamp_{name}')
    want = repo_hash(extra_files)
    try:
        if open(stamp).read() == want and all(os.path.exists(os.path.join(GEN_DIR, o)) for o in outputs):
            return False
    except FileNotFoundError:
        pass
    produce()
    if not any(f.get('id') == name for f in info['failed']):
        os.makedirs(GEN_DIR, exist_ok=True)
        with open(stamp, 'w') as f:
            f.write(want)
    return True


def gen_translate(info):
    """the shipped forms as DSL terms: Gen/Forms<year>_<k>.lean, Gen/Catalogue<year>.lean, Gen/TaxTable<year>.lean"""
    import json
    from common import VERIF
    tool = os.path.join(VERIF, 'tools', 'translate.py')

    def produce():
        code, out = _run_tool(['translate.py'])
        if code != 0:
            info['failed'].append({'id': 'translate', 'log': out[-2000:]})
    stamped('translate', ['Catalogue2021.lean', 'Catalogue2022.lean', 'Catalogue2023.lean', 'translate_report.json'],
            [tool], info, produce)
    try:
        info['translate_report'] = json.load(open(os.path.join(GEN_DIR, 'translate_report.json')))
    except Exception:  # noqa: BLE001
        info['translate_report'] = None


def generate_for(pid):
    """Returns info about what was generated for this property (extra lake targets, failed
    obligations detected while generating)."""
    info = {'extra_targets': [], 'failed': []}
    gen_chartable(info)      # the driver imports both
    gen_translate(info)
    fn = globals().get('gen_' + pid)
    if fn is not None:
        fn(info)
    return info


def _run_tool(args, timeout=900):
    import subprocess
    import sys
    from common import VERIF, REPO
    env = dict(os.environ, HABUTAX_REPO=REPO, PYTHONDONTWRITEBYTECODE='1', HABUTAX_VERIF='1')
    p = subprocess.run([sys.executable, '-W', 'ignore'] + args, cwd=os.path.join(VERIF, 'tools'), env=env,
                       stdout=subprocess.PIPE, stderr=subprocess.STDOUT, timeout=timeout)
    return p.returncode, p.stdout.decode('utf-8', 'replace')


def gen_chartable(info):
    """Unicode class tables of the running CPython -> Gen/CharTable.lean"""
    import tempfile
    if info.get('_chartable_done') or os.path.exists(os.path.join(GEN_DIR, 'CharTable.lean')) and os.environ.get('VERIF_TIER') != 'thorough':
        # the table depends on the interpreter only, not on /repo; regenerated on thorough runs and in setup
        info['_chartable_done'] = True
        return
    info['_chartable_done'] = True
    tmp = tempfile.mktemp(suffix='.lean', dir='/var/tmp')
    try:
        code, out = _run_tool(['gen_chartable.py', tmp])
        if code != 0:
            info['failed'].append({'id': 'gen_chartable', 'log': out[-1500:]})
            return
        write_if_changed(os.path.join(GEN_DIR, 'CharTable.lean'), open(tmp, encoding='utf-8').read())
    finally:
        if os.path.exists(tmp):
            os.unlink(tmp)


def gen_C11(info):
    gen_chartable(info)


def gen_C12(info):
    gen_chartable(info)


def gen_c17_c18(info):
    """catalogue mirror + template field trees -> Gen/C17_*.lean, Gen/C18_*.lean"""
    import json
    import shutil
    import tempfile
    tmpdir = tempfile.mkdtemp(dir='/var/tmp', prefix='hv-gen-')
    try:
        code, out = _run_tool(['gen_c17_c18.py', '--out-dir', tmpdir, '--quiet'])
        if code != 0:
            info['failed'].append({'id': 'gen_c17_c18', 'log': out[-2000:]})
            return
        for fn in sorted(os.listdir(tmpdir)):
            with open(os.path.join(tmpdir, fn), encoding='utf-8') as f:
                write_if_changed(os.path.join(GEN_DIR, fn), f.read())
        info['c17_c18_failed'] = json.load(open(os.path.join(GEN_DIR, 'c17_c18_failed.json')))
        obl = json.load(open(os.path.join(GEN_DIR, 'c17_c18_obligations.json')))
        info['c17_c18_obligations'] = obl
    finally:
        shutil.rmtree(tmpdir, ignore_errors=True)


def gen_C17(info):
    gen_c17_c18(info)
    info['extra_targets'] += ['HabuVerif.Gen.C17_2021', 'HabuVerif.Gen.C17_2022', 'HabuVerif.Gen.C17_2023']


def gen_C18(info):
    gen_c17_c18(info)
    info['extra_targets'] += ['HabuVerif.Gen.C18_2021', 'HabuVerif.Gen.C18_2022', 'HabuVerif.Gen.C18_2023']


def gen_C07(info):
    """TAX_TABLE / TAX_WORKSHEET_VALUES of the three years -> Gen/C07_<year>.lean"""
    import json
    import shutil
    import tempfile
    from common import VERIF

    def produce():
        tmpdir = tempfile.mkdtemp(dir='/var/tmp', prefix='hv-gen-')
        try:
            code, out = _run_tool(['gen_c07.py', '--out-dir', tmpdir])
            if code != 0:
                info['failed'].append({'id': 'c07', 'log': out[-2000:]})
                return
            for fn in sorted(os.listdir(tmpdir)):
                with open(os.path.join(tmpdir, fn), encoding='utf-8') as f:
                    write_if_changed(os.path.join(GEN_DIR, fn), f.read())
        finally:
            shutil.rmtree(tmpdir, ignore_errors=True)
    stamped('c07', ['C07.lean', 'c07_failed.json', 'c07_obligations.json'],
            [os.path.join(VERIF, 'tools', 'gen_c07.py')], info, produce)
    try:
        info['c07_failed'] = json.load(open(os.path.join(GEN_DIR, 'c07_failed.json')))
        info['c07_obligations'] = json.load(open(os.path.join(GEN_DIR, 'c07_obligations.json')))
    except Exception as e:  # noqa: BLE001
        info['failed'].append({'id': 'c07', 'log': repr(e)})


def genall_c07(info):
    gen_C07(info)


def _gen_tool(info, tool, tag, extra_args=()):
    """run tools/<tool> into a scratch directory and copy its output into Gen/ (unchanged files keep
    their time stamps, so lake does not rebuild them); returns True on success"""
    import shutil
    import tempfile
    tmpdir = tempfile.mkdtemp(dir='/var/tmp', prefix='hv-gen-')
    try:
        code, out = _run_tool([tool, '--out-dir', tmpdir, '--quiet'] + list(extra_args), timeout=1800)
        if code != 0:
            info['failed'].append({'id': tag, 'log': out[-2000:]})
            return False
        produced = set(os.listdir(tmpdir))
        # part modules of an earlier run that this run no longer produces
        prefix = tag.upper() + '_'
        for fn in os.listdir(GEN_DIR):
            if fn.startswith(prefix) and fn.endswith('.lean') and fn not in produced:
                os.remove(os.path.join(GEN_DIR, fn))
        for fn in sorted(produced):
            with open(os.path.join(tmpdir, fn), encoding='utf-8') as f:
                write_if_changed(os.path.join(GEN_DIR, fn), f.read())
        return True
    finally:
        shutil.rmtree(tmpdir, ignore_errors=True)


def _load_gen_json(info, tag):
    import json
    try:
        info[tag + '_failed'] = json.load(open(os.path.join(GEN_DIR, tag + '_failed.json')))
        info[tag + '_obligations'] = json.load(open(os.path.join(GEN_DIR, tag + '_obligations.json')))
    except Exception as e:  # noqa: BLE001
        info['failed'].append({'id': tag, 'log': repr(e)})


def gen_C02(info):
    """instruction table (templates + transcriptions) x translated programs -> Gen/C02_<year>.lean"""
    if _gen_tool(info, 'gen_c02.py', 'c02'):
        _load_gen_json(info, 'c02')
    info['extra_targets'] += ['HabuVerif.Gen.C02']


def genall_c02(info):
    gen_C02(info)


def gen_C08(info):
    """published amounts (Spec/Statutory.lean mirror of tools/c08_statutory.json) x sites in the
    translated programs -> Gen/C08_<year>_<k>.lean"""
    if _gen_tool(info, 'gen_c08.py', 'c08'):
        _load_gen_json(info, 'c08')
    info['extra_targets'] += ['HabuVerif.Gen.C08']


def genall_c08(info):
    gen_C08(info)


def gen_C09(info):
    """reviewed gate list (tools/c09_gates.json) x translated programs -> Gen/C09_<year>_<k>.lean"""
    if _gen_tool(info, 'gen_c09.py', 'c09'):
        _load_gen_json(info, 'c09')
    info['extra_targets'] += ['HabuVerif.Gen.C09_2021', 'HabuVerif.Gen.C09_2022', 'HabuVerif.Gen.C09_2023']


def genall_c09(info):
    gen_C09(info)


def gen_C15(info):
    """the NC half lives in a proof module that is built for this check; the sign half: tools/gen_c15_sign.py computes,
    from the translated programs, the greatest closed sets of lines that can only be not-negative and emits
    Gen/C15Sign_<year>.lean (closedness by `decide +kernel`); lines of the reviewed baseline that dropped out are
    listed in c15_sign_failed.json"""
    import json
    info['extra_targets'] += ['HabuVerif.Proofs.C15NC']
    if _gen_tool(info, 'gen_c15_sign.py', 'c15sign'):
        try:
            info['c15_sign_failed'] = json.load(open(os.path.join(GEN_DIR, 'c15_sign_failed.json')))
            sets = json.load(open(os.path.join(GEN_DIR, 'c15_sign.json')))
            info['c15_sign_sizes'] = {f'{y}/{v}': len(d.get('in', d.get('set', []))) for y, yy in sets.items() if isinstance(yy, dict)
                                      for v, d in yy.items() if isinstance(d, dict)}
        except Exception as e:  # noqa: BLE001
            info['failed'].append({'id': 'c15sign', 'log': repr(e)})
    info['extra_targets'] += ['HabuVerif.Props.C15Sign']


def genall_c15(info):
    gen_C15(info)


def gen_C10(info):
    """read-set patterns of every regenerated line x regenerated catalogue -> Gen/C10_<year>_<k>.lean"""
    if _gen_tool(info, 'gen_c10.py', 'c10'):
        _load_gen_json(info, 'c10')
    info['extra_targets'] += ['HabuVerif.Gen.C10_2021', 'HabuVerif.Gen.C10_2022', 'HabuVerif.Gen.C10_2023']


def genall_c10(info):
    gen_C10(info)


def generate_all():
    """used by setup: everything that `lake build` of the whole library needs"""
    info = {'extra_targets': [], 'failed': []}
    try:
        os.remove(os.path.join(GEN_DIR, 'CharTable.lean'))
    except FileNotFoundError:
        pass
    gen_chartable(info)
    gen_translate(info)
    gen_c17_c18(info)
    for name, fn in list(globals().items()):
        if name.startswith('genall_'):
            fn(info)
    return info


if __name__ == '__main__':
    import sys
    i = generate_all()
    print('generated; generator failures:', [f.get('id') for f in i['failed']])
