"""`dsl` correspondence stream: generated toy form SOURCE FILES, evaluated line by line.

For every batch a Python module with a few `habutax.form.Form` subclasses is GENERATED as source text
over the whole construct subset the translator accepts (expressions, statements, helpers, lambdas,
thresholds, enums, comprehensions, f-string names, instances, … including programs that raise:
wrong types, division by zero, index / key errors, enum misuse, attribute typos), written to a
scratch directory, imported, and translated by `tools/translate.py` — the same code path as the
shipped forms.  Each line is then evaluated on random stub stores

  * in Python: the REAL `Field.value` (so the typed-field wrapper is included) with dict-backed
    accessors (`FormAccessor` over a `ValueStore` / a mapping raising `MissingInput`) and a stub
    solver holding the "loaded" forms, and
  * in Lean: `evalLine` of the translated term under `run` with the same stores,

and the outcomes are compared: value (floats as bit patterns) / needV name / needI name / notImpl /
exception class / noForm name.

`run(seed, n, run_step)` follows COMMON.md.
"""
import enum as pyenum
import importlib.util
import os
import random
import shutil
import struct
import sys
import tempfile
import traceback

HERE = os.path.dirname(os.path.abspath(__file__))
TOOLS = os.path.dirname(HERE)
for p in (HERE, TOOLS):
    if p not in sys.path:
        sys.path.insert(0, p)

import translate  # noqa: E402  (sets up sys.path for habutax)

STATUS = ['Single', 'MarriedFilingJointly', 'MarriedFilingSeparately', 'HeadOfHousehold', 'QualifyingSurvivingSpouse']
COLORS = ['red', 'green', 'blue']

# name universe: base name -> intended type
OWN_LINES = {'a': 'flt', 'b': 'flt', 'c1': 'int', 'nm': 'str', 'fl': 'bool', 'st': 'status',
             'x_0': 'flt', 'x_1': 'flt', 'x_2': 'flt'}
OWN_INPUTS = {'p': 'flt', 'q': 'flt', 'n': 'cnt', 'm': 'int', 's1': 'str', 'flag': 'bool', 'flag2': 'bool',
              'st': 'status', 'col': 'color'}
CROSS_LINES = {'ta.a': 'flt', 'ta.nm': 'str', 'tb:0.a': 'flt', 'tb:1.a': 'flt', 'tb:2.a': 'flt',
               'tc:you.a': 'flt', 'tc:spouse.c1': 'int'}
CROSS_INPUTS = {'ta.p': 'flt', 'tb:0.n': 'cnt', 'tb:1.flag': 'bool', 'tc:you.s1': 'str'}
FORM_NAMES = ['ta', 'tb:0', 'tb:1', 'tc:you', 'tc:spouse', 'zz']


# ------------------------------------------------------------------------------------ source generator

class Gen:
    """random well-typed-ish Python source over the subset, with a small rate of type errors"""

    def __init__(self, rng, cls_name, p_err=0.02):
        self.rng = rng
        self.cls = cls_name
        self.p_err = p_err
        self.helpers = []        # (name, arity kind)
        self.counter = 0

    def fresh(self, prefix):
        self.counter += 1
        return f'{prefix}{self.counter}'

    # ---- atoms
    def flt_const(self):
        r = self.rng
        return r.choice(['0.0', '1.0', '0.1', '2.5', '100.0', '1234.56', '0.29', '1e-3', '99999.99', '12550.00',
                         '0.075', '3.0', '250000.0', '1e16', '0.001', '7.5', '-3.25', '0.5', '1.005', '2.675'])

    def int_const(self):
        return self.rng.choice(['0', '1', '2', '3', '4', '10', '17', '100', '-1', '-7', '38', '50'])

    def str_const(self):
        return self.rng.choice(["'x'", "''", "'abc'", "' pad '", "'A-b'", "'12'", "'Hello World'", "', '", "'q.r'"])

    def read_line(self, ty, env):
        r = self.rng
        pool = [k for k, t in OWN_LINES.items() if t == ty]
        cross = [k for k, t in CROSS_LINES.items() if t == ty]
        c = r.random()
        if ty == 'flt' and c < 0.2:
            ivars = [x for x, t in env.items() if t == 'idx']
            if ivars and r.random() < 0.7:
                k = r.choice(ivars)
                return r.choice([f"v[f'x_{{{k}}}']", f"v[f'tb:{{{k}}}.a']"])
            k = r.choice(['0', '1', '2', '1+1', 'i["n"]'])
            return "v[f'x_{" + k + "}']"
        if cross and c < 0.4:
            return f"v['{r.choice(cross)}']"
        if c < 0.45 and ty in ('flt', 'int'):
            return f"v[f'tc:{{s.form().instance()}}.{'a' if ty == 'flt' else 'c1'}']"
        if not pool:
            return None
        return f"v['{r.choice(pool)}']"

    def read_input(self, ty):
        r = self.rng
        pool = [k for k, t in OWN_INPUTS.items() if t == ty]
        cross = [k for k, t in CROSS_INPUTS.items() if t == ty]
        if cross and r.random() < 0.15:
            return f"i['{r.choice(cross)}']"
        if not pool:
            return None
        return f"i['{r.choice(pool)}']"

    def local(self, ty, env):
        pool = [x for x, t in env.items() if t == ty or (ty == 'num' and t in ('flt', 'int', 'idx')) or
                (ty == 'int' and t == 'idx')]
        return self.rng.choice(pool) if pool else None

    # ---- typed expressions
    def expr(self, ty, env, d):
        r = self.rng
        if r.random() < self.p_err:
            ty2 = r.choice(['flt', 'int', 'str', 'bool', 'none', 'status', 'lst'])
            if ty2 != ty:
                return self.expr(ty2, env, min(d, 1))
        f = getattr(self, 'e_' + ty)
        return f(env, d)

    def e_none(self, env, d):
        return 'None'

    def e_num(self, env, d):
        return self.expr(self.rng.choice(['flt', 'flt', 'int']), env, d)

    def e_flt(self, env, d):
        r = self.rng
        if d <= 0 or r.random() < 0.25:
            c = r.random()
            x = None
            if c < 0.3:
                x = self.read_line('flt', env)
            elif c < 0.5:
                x = self.read_input('flt')
            elif c < 0.6:
                x = self.local('flt', env)
            elif c < 0.68:
                x = r.choice(["s.threshold('t1')", "s.threshold('tab', i['st'])", "s.threshold('tab', v['st'])",
                              "s.threshold(f'lim_{i[\"n\"]}')", "s.threshold(name='t1')",
                              "s.threshold('tab', requested_key=i['st'])", "s.form('ta').threshold('t1')",
                              "s.form('tb:1').threshold('tab', i['st'])", "s.form().threshold('t1')"])
            return x or self.flt_const()
        c = r.random()
        e = lambda t='num': self.expr(t, env, d - 1)  # noqa: E731
        if r.random() < 0.12:
            return self.flt_idiom(env, d)
        if c < 0.22:
            return f"({e()} {r.choice(['+', '+', '-', '*'])} {e()})"
        if c < 0.27:
            return f"({e()} / {r.choice([e(), e(), 'i[\'n\']', 'len(i[\'s1\'])', '(v[\'a\'] - v[\'a\'])', 'i[\'flag\']'])})"
        if c < 0.33:
            return f"{r.choice(['max', 'min'])}({', '.join(e() for _ in range(r.choice([2, 2, 3])))})"
        if c < 0.38:
            return f"{r.choice(['max', 'min'])}({self.e_lst(env, d - 1)})"
        if c < 0.50:
            return f"sum({self.e_lst(env, d - 1)})"
        if c < 0.55:
            k = self.fresh('g')
            env2 = dict(env)
            env2[k] = 'idx'
            cond = f" if {self.expr('bool', env2, 1)}" if r.random() < 0.3 else ''
            return f"sum({self.expr('flt', env2, d - 1)} for {k} in range({self.count(env)}){cond})"
        if c < 0.62:
            return f"float({e()})"
        if c < 0.68:
            return f"round({e('flt')}, {r.choice(['0', '1', '2', '2', '3', '-1'])})"
        if c < 0.76:
            return f"({e('flt')} if {self.expr('bool', env, d - 1)} else {e('flt')})"
        if c < 0.82 and self.helpers:
            return self.call_helper(env, d, 'flt')
        if c < 0.86:
            return f"(-{e()})"
        if c < 0.90:
            k = r.choice(['0', '1', '-1', '2', '3', '-3', 'i["n"]'])
            return f"({e('flt')}, {e('flt')}, {e('int')})[{k}]"
        if c < 0.93:
            k = r.choice(['0', '1', "'k'", 'i["n"]', '5', 'True', '1.0'])
            return f"{{0: {e('flt')}, 1: {e('flt')}, 'k': 2.0}}[{k}]"
        if c < 0.96:
            return f"mod_rate({e()}, {self.expr('status', env, 0)})"
        return f"({e('flt')} or {e('flt')})"

    def flt_idiom(self, env, d):
        """places where a slightly wrong model of CPython arithmetic would show"""
        r = self.rng
        x = self.expr('flt', env, max(d - 1, 0))
        y = self.expr('flt', env, 0)
        return r.choice([
            f"max(0, {x})", f"min({x}, 0)", f"max(0.0, {x})", f"max({y}, {y})", f"min({y}, {y} + 0)",
            "max(i['n'], float(i['n']))", "min(float(i['n']), i['n'])", "max(float(i['n']), i['n'])",
            f"sum([{x}, 1e16, -1e16])", "sum([0.1, 0.2, 0.3])", f"sum([v['x_0'], v['x_1'], v['x_2'], {y}])",
            f"sum([{y}, i['n'], {x}])", f"sum([i['n'], {y}, True])", "sum([v['x_0'], -v['x_0'], v['x_1']])",
            f"sum([1e16, {y}, 1.0, -1e16])", f"sum([0.1] * 10)", f"sum(({y} * 0.1 for k0 in range(i['n'])))",
            f"round({x} * 0.0145, 2)", "round(2.675, 2)", f"round({x}, 1)", f"round({y} / 3, 5)",
            f"float(round({x}))", f"float(round({y} + 0.5))", "float(round(2.5))", "float(round(-0.5))",
            f"(0.0 * -{y})", f"(-0.0 + {y})", "sum([-0.0])", f"float(ceil({x}))", f"float(ceil(-{y}))",
            f"({x} / 3)", "(7 / 2)", "(i['m'] / 3)", "(10 ** 2 / 7)" if False else "(100000000000000000000 / 3)",
            f"(i['n'] / 7)", f"({y} - 0.1 - 0.2)", f"({y} * 1.1 * 1.1)", f"float(9007199254740993)",
            f"float(i['m'] == {y})", "float(9007199254740993 == 9007199254740992.0)",
            "float(9007199254740992 == 9007199254740992.0)", f"float(i['n'] < {y} <= i['m'])",
            f"float(len(str({x})))", f"float(str({y}) < str({x}))",
            "(0 / -7)", "(i['n'] * 0 / -3)", f"(0 * i['n'] / (-1 - i['n']))", "(False / -2)",
            "float(len(str(9007199254740993.0)))", "float(len(str(1234567890123456.0)))",
            f"float(len(str({y} * 1e13)))", "float(len(str(1e15 + 0.5)))", "float(len(str(123456789012345678.0)))",
            "sum(('x' if k9 == 0 else v['b'] for k9 in range(2)))", "sum((v['nm'] if k9 == 0 else v['x_2'] for k9 in range(2)))",
            "s.threshold('tabb', i['n'])", "s.threshold('tabb', i['flag'])", "s.threshold('tabo', i['st'])",
            "s.threshold('tab', enum.filing_status_2021.Single)", "s.threshold('tab', i['col'])",
            "s.threshold('tab', shade.red)", "s.threshold('tabo', enum.filing_status_2021.Single)",
        ])

    def e_int(self, env, d):
        r = self.rng
        if d <= 0 or r.random() < 0.3:
            c = r.random()
            x = None
            if c < 0.25:
                x = self.read_line('int', env)
            elif c < 0.5:
                x = self.read_input(r.choice(['int', 'cnt']))
            elif c < 0.65:
                x = self.local('int', env)
            elif c < 0.7:
                x = "s.threshold('ti')"
            return x or self.int_const()
        c = r.random()
        e = lambda t='int': self.expr(t, env, d - 1)  # noqa: E731
        if c < 0.25:
            return f"({e()} {r.choice(['+', '-', '*'])} {e()})"
        if c < 0.35:
            return f"len({self.expr(r.choice(['lst', 'str', 'str']), env, d - 1)})"
        if c < 0.45:
            return f"ceil({e('num')})"
        if c < 0.53:
            return f"round({e('num')})"
        if c < 0.63:
            k = self.fresh('g')
            env2 = dict(env)
            env2[k] = 'idx'
            return f"sum([{self.expr('bool', env2, 1)} for {k} in range({self.count(env)})])"
        if c < 0.72:
            return f"{r.choice(['max', 'min'])}({e()}, {e()})"
        if c < 0.80:
            return f"({e()} if {self.expr('bool', env, d - 1)} else {e()})"
        if c < 0.86:
            return f"sum([{e()}, {e()}, {self.expr('bool', env, 1)}])"
        if c < 0.9:
            return f"round({e()}, {r.choice(['0', '1', '-1', '-2'])})"
        if c < 0.95:
            return f"(+{e()})"
        return f"({e()} and {e()})"

    def count(self, env):
        """small non-negative ints for range()"""
        r = self.rng
        return r.choice(["i['n']", "i['n']", "3", "2", "i['tb:0.n']", "min(3, i['n'])", "len(i['s1'])", "0",
                         "1, 3", "i['n'], 3"])

    def e_str(self, env, d):
        r = self.rng
        if d <= 0 or r.random() < 0.3:
            c = r.random()
            x = None
            if c < 0.25:
                x = self.read_line('str', env)
            elif c < 0.5:
                x = self.read_input('str')
            elif c < 0.6:
                x = self.local('str', env)
            elif c < 0.65:
                x = "s.form().instance()"
            elif c < 0.7:
                x = "self_name"
            return x or self.str_const()
        c = r.random()
        e = lambda t='str': self.expr(t, env, d - 1)  # noqa: E731
        if c < 0.2:
            parts = []
            for _ in range(r.choice([1, 2, 3])):
                parts.append(r.choice(['{' + self.fexpr(env, d - 1) + '}', ' ', 'x-', ':', 'n=']))
            return "f'" + ''.join(parts) + "'"
        if c < 0.3:
            return f"({e()} + {e()})"
        if c < 0.4:
            return f"str({self.expr(r.choice(['int', 'status', 'str', 'bool', 'flt', 'flt', 'flt', 'color']), env, d - 1)})"
        if c < 0.5:
            return f"{e()}.{r.choice(['upper', 'strip', 'lower', 'strip'])}()"
        if c < 0.6:
            lo = r.choice(['', '0', '1', '-2', '2'])
            hi = r.choice(['', '3', '-1', '1', '10'])
            return f"{e()}[{lo}:{hi}]"
        if c < 0.66:
            return f"{e()}[{r.choice(['0', '-1', '1', '5'])}]"
        if c < 0.74:
            sep = r.choice(["', '", "''", "'-'"])
            return f"{sep}.join({self.strlist(env, d - 1)})"
        if c < 0.8:
            return f"({e()} if {self.expr('bool', env, d - 1)} else {e()})"
        if c < 0.85:
            sep = r.choice(['', "' '", "'-'", "','"])
            return f"{e()}.split({sep})[{r.choice(['0', '-1'])}]"
        if c < 0.9:
            return f"({e()} * {r.choice(['2', '0', '1', '3'])})"
        if c < 0.94:
            cs = r.choice(["'x'", "' a'", "'-'"])
            return f"{e()}.strip({cs})"
        if c < 0.97:
            return f"({e()} or {e()})"
        return f"{e()}.{r.choice(['str', 'stripp', 'uper'])}()"       # typos: AttributeError

    def fexpr(self, env, d):
        """something inside an f-string replacement field (no quotes of the enclosing kind)"""
        r = self.rng
        c = r.random()
        if c < 0.3:
            x = self.local('idx', env) or self.local('int', env)
            if x:
                return r.choice([x, f'{x}+1', f'{x} + 1'])
        if c < 0.5:
            return r.choice(['i["s1"]', 'v["nm"]', 'i["n"]', 'i["m"]', 'v["c1"]', 'i["st"]', 'i["flag"]', 'i["col"]'])
        if c < 0.6:
            return r.choice(['i["p"]', 'v["a"]', '1.5', '2.0 * i["n"]', '1e22', 'v["a"] / 3', '0.1 + 0.2', 'i["p"] * 1e-7'])
        if c < 0.7:
            return 's.form().instance()'
        return self.expr(r.choice(['int', 'str']), env, 0).replace("'", '"')

    def strlist(self, env, d):
        r = self.rng
        c = r.random()
        if c < 0.5:
            return '[' + ', '.join(self.expr('str', env, d) for _ in range(r.choice([0, 1, 2, 3]))) + ']'
        if c < 0.7:
            k = self.fresh('g')
            return f"[str({k}) for {k} in range({self.count(env)})]"
        if c < 0.8:
            return self.expr('str', env, d)
        x = self.local('slst', env)
        return x or "['a', 'b']"

    def bool_idiom(self, env, d):
        r = self.rng
        y = self.expr('flt', env, 0)
        return r.choice([
            f"({y} <= {y})", f"({y} >= {y})", f"({y} < {y})", "(i['n'] <= 1)", "(i['n'] >= 2)", "(i['n'] < 2)",
            "(len(i['s1']) <= 3)", "(v['c1'] <= i['m'])", "(i['n'] <= i['n'] <= 2)", "(1 <= i['n'] < 3)",
            "('b' in 'abc')", "(i['s1'][1:2] in i['s1'])", "('-' in v['nm'])", "('bc' in 'abc')", "(i['s1'][1:] in i['s1'])",
            "('c' not in 'abc')", "('' in i['s1'])",
            "(i['st'] == enum.filing_status_2021.Single)", "(i['st'] is enum.filing_status_2021.Single)",
            "(i['st'] != enum.filing_status_2021.HeadOfHousehold)", "(i['col'] == shade.red)", "(i['col'] is shade.red)",
            "(shade.red in [i['col']])", "(i['st'] in [enum.filing_status_2021.Single, enum.filing_status_2021.MarriedFilingJointly])",
            "(i['col'] is not shade.red)", "(v['st'] == enum.filing_status_2021.MarriedFilingJointly)",
        ])

    def e_bool(self, env, d):
        r = self.rng
        if d > 0 and r.random() < 0.12:
            return self.bool_idiom(env, d)
        if d <= 0 or r.random() < 0.25:
            c = r.random()
            x = None
            if c < 0.3:
                x = self.read_line('bool', env)
            elif c < 0.6:
                x = self.read_input('bool')
            elif c < 0.7:
                x = self.local('bool', env)
            return x or r.choice(['True', 'False'])
        c = r.random()
        e = self.expr
        if c < 0.3:
            op = r.choice(['<', '<=', '>', '>=', '==', '!=', '>', '<'])
            return f"({e('num', env, d - 1)} {op} {e('num', env, d - 1)})"
        if c < 0.36:
            return f"({e('num', env, d - 1)} {r.choice(['<', '<='])} {e('num', env, d - 1)} {r.choice(['<', '<=', '=='])} {e('num', env, d - 1)})"
        if c < 0.46:
            a = e('status', env, d - 1)
            return r.choice([f"({a} == {self.status_const()})", f"({a} != {self.status_const()})",
                             f"({a} is {self.status_const()})", f"({a} is not {self.status_const()})",
                             f"({a} in [{self.status_const()}, {self.status_const()}])",
                             f"({a} not in ({self.status_const()}, {self.status_const()}))"])
        if c < 0.56:
            return f"({e('bool', env, d - 1)} {r.choice(['and', 'or'])} {e('bool', env, d - 1)})"
        if c < 0.64:
            return f"(not {e(r.choice(['bool', 'num', 'str', 'lst']), env, d - 1)})"
        if c < 0.72:
            return f"({e('str', env, d - 1)} {r.choice(['==', '!=', '<', 'in', 'not in'])} {e('str', env, d - 1)})"
        if c < 0.78:
            x = r.choice(["i['col']", "i['s1']", "v['st']", 'None', 's.form().instance()'])
            return f"({x} {r.choice(['is', 'is not'])} None)"
        if c < 0.84:
            return f"({e('num', env, d - 1)} in {self.e_lst(env, d - 1)})"
        if c < 0.9:
            return f"({e('bool', env, d - 1)} if {e('bool', env, d - 1)} else {e('bool', env, d - 1)})"
        if c < 0.94 and self.helpers:
            return self.call_helper(env, d, 'bool')
        if c < 0.97:
            return f"({e('lst', env, d - 1)} {r.choice(['==', '<', '!='])} {e('lst', env, d - 1)})"
        return f"(i['col'] == {r.choice(['color.red', 'shade.red', 'color.blue', 'None'])})"

    def status_const(self):
        r = self.rng
        c = r.random()
        if c < 0.85:
            return f"{r.choice(['status', 'enum.filing_status'])}.{r.choice(STATUS)}"
        if c < 0.9:
            return f"enum.filing_status_2021.{r.choice(['Single', 'QualifyingWidowWidower'])}"
        if c < 0.95:
            return "status.QualifyingWidowWidower"        # AttributeError on the 2023 enum
        return f"status['{r.choice(['Single', 'Nope'])}']"

    def e_status(self, env, d):
        r = self.rng
        c = r.random()
        if c < 0.3:
            return "i['st']"
        if c < 0.5:
            return "v['st']"
        if c < 0.58:
            return self.local('status', env) or "i['st']"
        if c < 0.9 or d <= 0:
            return self.status_const()
        if c < 0.95:
            return f"({self.e_status(env, d - 1)} if {self.expr('bool', env, d - 1)} else {self.e_status(env, d - 1)})"
        return f"{self.e_status(env, 0)}.{r.choice(STATUS + ['Nope'])}"      # member through a member

    def e_color(self, env, d):
        r = self.rng
        return r.choice(["i['col']", "color.red", "color.green", "local_kind.big", "i['col'].blue", "shade.dark"])

    def e_lst(self, env, d):
        r = self.rng
        c = r.random()
        if d <= 0 or c < 0.3:
            n = r.choice([0, 1, 2, 3, 3])
            return '[' + ', '.join(self.expr('num', env, max(d, 0)) for _ in range(n)) + ']'
        k = self.fresh('g')
        env2 = dict(env)
        env2[k] = 'idx'
        if c < 0.65:
            cond = f" if {self.expr('bool', env2, 1)}" if r.random() < 0.3 else ''
            return f"[{self.expr('num', env2, d - 1)} for {k} in range({self.count(env)}){cond}]"
        if c < 0.72:
            return f"[{k} * 1.5 for {k} in [{self.expr('num', env, 0)}, {self.expr('num', env, 0)}]]"
        if c < 0.78:
            k2 = self.fresh('g')
            return f"[{k} + {k2} for {k}, {k2} in [(1, 2.0), (3, 4.5)]]"
        if c < 0.84:
            return f"(list(range({self.count(env)})) + {self.e_lst(env, d - 1)})"
        if c < 0.9:
            return f"{self.e_lst(env, d - 1)}[{r.choice(['1:', ':2', '0:1', ':-1'])}]"
        if c < 0.95:
            x = self.local('lst', env)
            return x or '[1.0]'
        src = r.choice(["'123'", "i['s1']", "'4.5'"])
        return f"[float(c) for c in {src}]"

    # ---- helpers
    def call_helper(self, env, d, want):
        r = self.rng
        cands = [h for h in self.helpers if h[2] == want] or self.helpers
        name, sig, ret = r.choice(cands)
        if sig == 'siv':
            return f"{name}(s, i, v)"
        if sig == 'si':
            return f"{name}(s, i)"
        if sig == 'sivx':
            return f"{name}(s, i, v, {self.expr('num', env, d - 1)})"
        if sig == 'sivxd':
            return r.choice([f"{name}(s, i, v, {self.expr('num', env, d - 1)})",
                             f"{name}(s, i, v, {self.expr('num', env, d - 1)}, {self.expr('num', env, 0)})",
                             f"{name}(s, i, v, x={self.expr('num', env, d - 1)})"])
        if sig == 'tup':
            return f"{name}(s, i, v)[{r.choice(['0', '1', '0', '2'])}]"
        return f"{name}(s, i, v)"

    # ---- statements (bodies of def-style lines / helpers)
    def body(self, ret_ty, env, depth, indent, selfname='s'):
        r = self.rng
        env = dict(env)
        lines = []
        pad = ' ' * indent
        n = r.choice([0, 1, 1, 2, 3])
        for _ in range(n):
            lines += self.stmt(ret_ty, env, depth, indent)
        if r.random() < 0.92:
            lines.append(f"{pad}return {self.expr(ret_ty, env, depth)}")
        if not lines:
            lines.append(f"{pad}pass")
        return lines

    def stmt(self, ret_ty, env, depth, indent):
        r = self.rng
        pad = ' ' * indent
        c = r.random()
        d = max(depth - 1, 0)
        if c < 0.03 and self.helpers and 'zz' not in env:
            env['zz'] = 'flt'
            return [f"{pad}zz = {self.flt_const()}", f"{pad}if {self.expr('bool', env, 0)}:",
                    f"{pad}    return {self.call_helper(env, 1, 'flt')}"]
        if c < 0.04:
            # a comprehension variable neither leaks nor clobbers a local of the same name
            x = self.fresh('t')
            lst = self.fresh('xs')
            out = [f"{pad}{x} = {self.flt_const()}", f"{pad}{lst} = [{x} + 1 for {x} in range({self.count(env)})]"]
            env[x] = 'flt'
            env[lst] = 'lst'
            return out
        if c < 0.06:
            k9 = self.fresh('q')
            lst = self.fresh('xs')
            env[lst] = 'lst'
            return [f"{pad}{lst} = [{k9} * 2.0 for {k9} in range(2)]", f"{pad}if {self.expr('bool', env, 0)}:",
                    f"{pad}    return {k9}"]
        if c < 0.22:
            ty = r.choice(['flt', 'flt', 'int', 'str', 'bool', 'status', 'lst'])
            x = self.fresh('t')
            out = [f"{pad}{x} = {self.expr(ty, env, d)}"]
            env[x] = ty
            return out
        if c < 0.32:
            x = self.local('flt', env)
            if x and env.get(x) == 'flt':
                return [f"{pad}{x} {r.choice(['+=', '-=', '*=', '+='])} {self.expr('num', env, d)}"]
            x = self.fresh('t')
            env[x] = 'flt'
            return [f"{pad}{x} = 0.0", f"{pad}{x} += {self.expr('num', env, d)}"]
        if c < 0.5:
            out = [f"{pad}if {self.expr('bool', env, d)}:"]
            out += self.block(ret_ty, dict(env), d, indent + 4)
            if r.random() < 0.4:
                out.append(f"{pad}elif {self.expr('bool', env, d)}:")
                out += self.block(ret_ty, dict(env), d, indent + 4)
            if r.random() < 0.5:
                out.append(f"{pad}else:")
                out += self.block(ret_ty, dict(env), d, indent + 4)
            return out
        if c < 0.66:
            k = self.fresh('k')
            acc = self.fresh('acc')
            env[acc] = 'flt'
            env2 = dict(env)
            env2[k] = 'idx'
            out = [f"{pad}{acc} = 0.0", f"{pad}for {k} in range({self.count(env)}):"]
            if r.random() < 0.4:
                out += [f"{pad}    if {self.expr('bool', env2, 1)}:", f"{pad}        {r.choice(['continue', 'continue', 'break'])}"]
            if r.random() < 0.25:
                out += [f"{pad}    if {k} == {r.choice(['0', '1', '1'])}:", f"{pad}        {r.choice(['continue', 'break', 'break'])}"]
            if r.random() < 0.25:
                out += [f"{pad}    if {self.expr('bool', env2, 1)}:", f"{pad}        return {self.expr(ret_ty, env2, 1)}"]
            if r.random() < 0.2:
                out += [f"{pad}    if {self.expr('bool', env2, 1)}:", f"{pad}        s.not_implemented()"]
            out.append(f"{pad}    {acc} += {self.expr('flt', env2, d)}")
            return out
        if c < 0.72:
            lst = self.fresh('names')
            env[lst] = 'slst'
            out = [f"{pad}{lst} = [{self.expr('str', env, 0)}]", f"{pad}if {self.expr('bool', env, d)}:",
                   f"{pad}    {lst}.append({self.expr('str', env, d)})"]
            return out
        if c < 0.77:
            a, b = self.fresh('u'), self.fresh('w')
            env[a], env[b] = 'flt', 'flt'
            rhs = r.choice([f"({self.expr('flt', env, d)}, {self.expr('flt', env, d)})",
                            f"[{self.expr('flt', env, d)}, {self.expr('flt', env, d)}]",
                            f"({self.expr('flt', env, 0)}, 2.0, 3.0)", f"{self.expr('flt', env, 0)}"])
            return [f"{pad}{a}, {b} = {rhs}"]
        if c < 0.82:
            return [f"{pad}assert {self.expr('bool', env, d)}" + r.choice(['', ", 'bad'", ", f'bad {i[\"n\"]}'", ", f'bad {undefined_name}'", ", f'bad {v[\"a\"] / 3}'"])]
        if c < 0.87:
            x = r.choice([self.read_line('flt', env), 's.not_implemented()', 'pass', "s.form('ta')", "s.form('zz')", "s.form('tb:0')",
                          "s.not_implemented(v['nm'])", "s.not_implemented(detailed=i['s1'])", "s.not_implemented(v['tc:you.a'])"])
            return [f"{pad}{x}"]
        if c < 0.92:
            a, b = self.fresh('lo'), self.fresh('hi')
            acc = self.fresh('r')
            env[acc] = 'flt'
            return [f"{pad}{acc} = -1.0", f"{pad}for {a}, {b} in [(0, 1.5), (10, 2.5), (100, 4.0)]:",
                    f"{pad}    if {self.expr('num', env, d)} < {a}:", f"{pad}        {acc} = {b}", f"{pad}        break"]
        if c < 0.96:
            acc = self.fresh('r')
            env[acc] = 'flt'
            return [f"{pad}{acc} = 0.0", f"{pad}for row in TABLE:",
                    f"{pad}    if {self.expr('num', env, d)} >= row[0] and {self.expr('num', env, 0)} < row[1]:",
                    f"{pad}        {acc} = row[2]"]
        lst = self.fresh('xs')
        env[lst] = 'lst'
        return [f"{pad}{lst} = {self.e_lst(env, d)}", f"{pad}{lst} += {r.choice(['[1.0]', '(2.0, 3)', self.e_lst(env, 0)])}"]

    def block(self, ret_ty, env, depth, indent):
        r = self.rng
        pad = ' ' * indent
        c = r.random()
        if c < 0.45:
            return [f"{pad}return {self.expr(ret_ty, env, depth)}"]
        if c < 0.55:
            x = r.choice(['', "'detail'", "detailed='why'", "v['nm']", "f'x {i[\"s1\"]}'", "detailed=v['ta.nm']"])
            return [f"{pad}s.not_implemented({x})"]
        if c < 0.6:
            return [f"{pad}s.not_implmented()"]
        out = self.stmt(ret_ty, env, depth, indent)
        return out or [f"{pad}pass"]


FIELD_CTOR = {'flt': 'FloatField', 'int': 'IntegerField', 'str': 'StringField', 'bool': 'BooleanField',
              'status': 'EnumField'}


def gen_class(rng, cname, form_name, instanced):
    """source lines of one Form subclass"""
    g = Gen(rng, cname)
    L = []
    A = L.append
    A(f"class {cname}(Form):")
    A(f"    form_name = '{form_name}'")
    A("    tax_year = 2023")
    A("    description = 'toy'")
    A("    long_description = 'generated'")
    A("    jurisdiction = Jurisdiction.US")
    A("    sequence_no = 0")
    if instanced == 'valid':
        A("    valid_instances = ['you', 'spouse']")
    A("")
    A("    def __init__(self, **kwargs):")
    if instanced == 'valid':
        A("        instance = kwargs['instance']")
        A("        assert instance in ['you', 'spouse']")
    A("        status = enum.filing_status")
    A("        self_name = " + repr(form_name))
    A("        local_kind = enum.make('Kind', {'small': 's', 'big': 'b'})")
    A("        thresholds = {")
    A("            't1': %s," % g.flt_const())
    A("            'ti': %s," % rng.choice(['38', '7', '100']))
    for k in range(4):
        A(f"            'lim_{k}': {rng.choice(['100.0', '250.5', '17', '0.0'])},")
    A("            'tabb': {True: 1.0, 2: 2.0, 'k': 3.0},")
    A("            'tabo': {(status.Single, status.HeadOfHousehold): 1.0, status.Single: 2.0, status.MarriedFilingJointly: 3.0},")
    A("            'tab': {")
    shapes = rng.choice([0, 1, 2])
    if shapes == 0:
        A("                (status.Single, status.MarriedFilingSeparately): 12950.00,")
        A("                (status.MarriedFilingJointly, status.QualifyingSurvivingSpouse): 25900.00,")
        A("                status.HeadOfHousehold: 19400.00,")
    elif shapes == 1:
        A("                status.MarriedFilingJointly: 250000.0,")
        A("                status.MarriedFilingSeparately: 125000.0,")
        A("                (status.Single, status.QualifyingSurvivingSpouse, status.HeadOfHousehold): 200000.0,")
    else:
        A("                status.Single: 1.5,")
        A("                (status.MarriedFilingJointly,): 2,")
    A("            },")
    A("        }")
    A("        inputs = [")
    A("            FloatInput('p'), FloatInput('q'), IntegerInput('n'), IntegerInput('m'), StringInput('s1'),")
    A("            BooleanInput('flag'), BooleanInput('flag2'), EnumInput('st', status),")
    A("            EnumInput('col', color, allow_empty=True), EnumInput('kind', local_kind),")
    A("            SSNInput('ssn'), RegexInput('acct', '^[0-9A-Za-z\\\\-]{1,17}$'),")
    A("        ]")
    A("")
    # helpers
    nh = rng.choice([1, 2, 3, 4])
    for _ in range(nh):
        sig = rng.choice(['siv', 'si', 'sivx', 'sivxd', 'sivxd', 'tup', 'lam', 'ubl'])
        ret = rng.choice(['flt', 'flt', 'bool'])
        name = g.fresh('helper')
        if sig == 'lam':
            A(f"        {name} = lambda s, i, v: {g.expr(ret, {}, 2)}")
            g.helpers.append((name, 'siv', ret))
            continue
        if sig == 'ubl':
            # a local that is read before it is assigned on one path: UnboundLocalError, whatever the
            # caller's variables are called
            A(f"        def {name}(s, i, v):")
            A("            if i['flag']:")
            A("                zz = 1.0")
            A("            return zz + 1.0")
            g.helpers.append((name, 'siv', 'flt'))
            continue
        params = {'siv': 's, i, v', 'si': 's, i', 'sivx': 's, i, v, x', 'sivxd': 's, i, v, x, y=2.5',
                  'tup': 's, i, v'}[sig]
        env = {}
        if 'x' in params.split(', ') or 'x' in params:
            if sig in ('sivx', 'sivxd'):
                env['x'] = 'flt'
        if sig == 'sivxd':
            env['y'] = 'flt'
        A(f"        def {name}({params}):")
        if sig == 'tup':
            A(f"            return ({g.expr('flt', env, 1)}, {g.expr('flt', env, 1)}) if {g.expr('bool', env, 1)} else (None, None)")
            ret = 'flt'
        else:
            body = g.body(ret, env, 1 if sig == 'si' else 2, 12)
            if sig == 'sivxd' and ret == 'flt':
                body = [b + ' + y' if b.startswith('            return ') else b for b in body]
            for b in body:
                A(b)
        g.helpers.append((name, sig, ret))
    A("")
    # fields
    req, opt = [], []
    names = list(OWN_LINES.items())
    deffields = []
    for base, ty in names:
        if base.startswith('x_'):
            continue
        style = rng.choice(['lambda', 'lambda', 'def'])
        ctor = FIELD_CTOR[ty]
        extra = ''
        if ty == 'flt':
            extra = rng.choice(['', '', ', places=0', ', places=5', ', places=2'])
        target = req if rng.random() < 0.6 else opt
        if style == 'def':
            fname = f"line_{base}"
            deffields.append((fname, ty))
            if ty == 'status':
                target.append(f"EnumField('{base}', status, {fname})")
            else:
                target.append(f"{ctor}('{base}', {fname}{extra})")
        else:
            e = g.expr(ty, {}, rng.choice([1, 2, 3]))
            if ty == 'status':
                target.append(f"EnumField('{base}', status, lambda s, i, v: {e})")
            else:
                target.append(f"{ctor}('{base}', lambda s, i, v: {e}{extra})")
    for fname, ty in deffields:
        A(f"        def {fname}(s, i, v):")
        if rng.random() < 0.3:
            A('            """doc"""')
        for b in g.body(ty, {}, 3, 12):
            A(b)
        A("")
    A("        required_fields = [")
    for f in req:
        A(f"            {f},")
    A("        ]")
    A("        optional_fields = [")
    for f in opt:
        A(f"            {f},")
    A("        ]")
    A("        for n in range(3):")
    A("            required_fields += [")
    A(f"                FloatField(f'x_{{n}}', lambda s, i, v, n=n: {g.expr('flt', {'n': 'idx'}, 2)}),")
    A("            ]")
    A("        for k in range(2):")
    A(f"            fld = FloatField(f'y_{{k}}', lambda s, i, v: {g.expr('flt', {}, 1)} + s.which)")
    A("            fld.which = k")
    A("            optional_fields.append(fld)")
    A("        super().__init__(__class__, inputs, required_fields, optional_fields, thresholds=thresholds, **kwargs)")
    A("")
    A("    def needs_filing(self, values):")
    A("        return False")
    A("")
    return L


MODULE_HEAD = '''import habutax.enum as enum
from habutax.form import Form, Jurisdiction
from habutax.inputs import *
from habutax.fields import *
from math import ceil

color = enum.make('Color', {'red': 'r', 'green': 'g', 'blue': 'b'})
shade = enum.make('Color', {'red': 'r', 'dark': 'd'})
TABLE = ((0, 10, 1.5), (10, 20, 2.5), (20, 1000, 4.0))
BIG = (%s)


def mod_rate(amount, kind):
    idx = None
    if kind is kind.Single:
        idx = 0
    elif kind in [kind.MarriedFilingJointly, kind.QualifyingSurvivingSpouse]:
        idx = 1
    elif kind is kind.HeadOfHousehold:
        idx = 2
    for row in BIG:
        if amount >= row[0] and amount < row[1]:
            return float(row[idx + 2])
    assert False, f"no row for {amount}"


'''


def gen_module_source(rng):
    big = ', '.join(f'({k * 50}, {k * 50 + 50}, {k}, {2 * k}, {3 * k})' for k in range(40))
    L = [MODULE_HEAD % big]
    L += gen_class(rng, 'ToyA', 'ta', None)
    L += gen_class(rng, 'ToyB', 'tb', 'any')
    L += gen_class(rng, 'ToyC', 'tc', 'valid')
    L.append("available_forms = [ToyA, ToyB, ToyC]")
    return '\n'.join(L) + '\n'


# ------------------------------------------------------------------------------------ stub stores

def rand_value(rng, ty, enums, wrong=0.03):
    if rng.random() < wrong:
        # (a loop count never becomes a large number: CPython would iterate `range(10**20)` for ever)
        ty = rng.choice(['flt', 'str', 'bool', 'none', 'status', 'tuple'] + ([] if ty == 'cnt' else ['int', 'big']))
        if ty == 'flt' and rng.random() < 0.5:
            return rng.choice([0.5, 2.0, 1.5, -1.0, 3.0])
    if ty == 'flt':
        c = rng.random()
        if c < 0.35:
            return round(rng.uniform(0, 3000), 2)
        if c < 0.5:
            return float(rng.randrange(0, 200))
        if c < 0.58:
            return round(rng.uniform(-500, 250000), 2)
        if c < 0.62:
            return rng.choice([1e16, -1e16, 1.0, 0.1, 0.2, 0.3, 1e100, -1e100, 3.3, 1e-3])
        if c < 0.7:
            return rng.choice([0.0, -0.0, 0.1, 0.5, 1.5, 2.5, 0.005, 1e-7, 123456789.125, 1e16, 9007199254740993.0,
                               0.1 + 0.2, 1e22, 1e21, 123456.7, 5e-324, 1.7976931348623157e308, float('inf'), -float('inf')])
        if c < 0.85:
            return rng.uniform(0, 100)
        return rng.uniform(-1, 1) * 10 ** rng.randrange(-8, 12)
    if ty == 'int':
        return rng.choice([0, 1, 2, 3, 5, 10, 17, 100, 64, -1, -40, 99])
    if ty == 'big':
        return rng.choice([2 ** 63, 10 ** 20, -2 ** 63 - 1, 2 ** 53 + 1, 10 ** 400])
    if ty == 'cnt':
        return rng.choice([0, 1, 2, 3, 3, 2, 1])
    if ty == 'str':
        return rng.choice(['', 'abc', ' pad ', 'Bob', 'A-b', '123', '4.5', 'x y z', 'Smith-Jones', '12-34', 'q.r', '   ',
                           'MiXed', 'a,b', "it's"])
    if ty == 'bool':
        return rng.random() < 0.5
    if ty == 'none':
        return None
    if ty == 'status':
        return enums['status'][rng.choice(STATUS)]
    if ty == 'color':
        return rng.choice([None, enums['color']['red'], enums['color']['blue'], enums['color']['green']])
    if ty == 'tuple':
        return rng.choice([(1.0, 2.0), [1, 2.5], (), [], ('a', 'b')])
    raise ValueError(ty)


def full_names(form_full):
    v_names = {f'{form_full}.{k}': t for k, t in OWN_LINES.items()}
    v_names.update(CROSS_LINES)
    i_names = {f'{form_full}.{k}': t for k, t in OWN_INPUTS.items()}
    i_names.update(CROSS_INPUTS)
    return v_names, i_names


def rand_stores(rng, form_full, enums, p_present=0.88):
    v_names, i_names = full_names(form_full)
    p = rng.choice([p_present, p_present, 1.0, 0.6])
    vs = {k: rand_value(rng, t, enums) for k, t in v_names.items() if rng.random() < p}
    is_ = {k: rand_value(rng, t, enums, wrong=0.02) for k, t in i_names.items() if rng.random() < p}
    forms = [f for f in FORM_NAMES[:-1] if rng.random() < 0.8]
    return vs, is_, forms


# ------------------------------------------------------------------------------------ real evaluation

class StubSolver:
    def __init__(self, forms):
        self.forms = forms


EXC_NAMES = {'UnboundLocalError': 'NameError'}


def eval_real(module, cls, inst, line, vs, is_, loaded):
    from habutax import form as hform, values as hvalues, inputs as hinputs, fields as hfields
    import collections.abc

    class IStore(collections.abc.Mapping):
        def __getitem__(self, key):
            if key not in is_:
                raise hinputs.MissingInput(key)
            return is_[key]

        def __iter__(self):
            return iter(is_)

        def __len__(self):
            return len(is_)

    by_name = {c.form_name: c for c in module.available_forms}
    forms = {}
    solver = StubSolver(forms)
    for f in loaded:
        cn, _, fi = f.partition(':')
        forms[f] = by_name[cn](solver=solver, instance=(fi or None))
    form = cls(solver=solver, instance=inst)
    field = [f for f in form.fields() if f.base_name() == line][0]
    try:
        with limit_memory(), time_limit(10):
            val = field.value(hform.FormAccessor(IStore(), form), hform.FormAccessor(hvalues.ValueStore(vs), form))
    except EvalTimeout:
        return 'timeout'
    except hvalues.UnmetDependency as e:
        return 'needV ' + str(e.dependency)
    except hinputs.MissingInput as e:
        return 'needI ' + str(e.input_name)
    except hfields.FieldNotImplemented:
        return 'notImpl'
    except RecursionError:
        return 'err RecursionError'
    except Exception as e:  # noqa: BLE001
        tb = traceback.extract_tb(e.__traceback__)
        if isinstance(e, KeyError) and tb and tb[-1].name == 'form' and tb[-1].filename.endswith('fields.py'):
            return 'noForm ' + str(e.args[0])
        name = type(e).__name__
        return 'err ' + EXC_NAMES.get(name, name)
    return 'val ' + show_val(val)


def show_val(v):
    if v is None:
        return 'None'
    if isinstance(v, bool):
        return 'True' if v else 'False'
    if isinstance(v, pyenum.Enum):
        return 'e:' + v.name
    if isinstance(v, int):
        return 'i:%d' % v
    if isinstance(v, float):
        bits = struct.unpack('>Q', struct.pack('>d', v))[0]
        if v != v:
            bits = 0x7ff8000000000000
        return 'f:%016x' % bits
    if isinstance(v, str):
        return 's:' + v.encode('utf-8').hex()
    if isinstance(v, tuple):
        return 't[' + ','.join(show_val(x) for x in v) + ']'
    if isinstance(v, list):
        return 'l[' + ','.join(show_val(x) for x in v) + ']'
    return 'other:' + type(v).__name__


# ------------------------------------------------------------------------------------ stream

def load_module(path, name):
    spec = importlib.util.spec_from_file_location(name, path)
    mod = importlib.util.module_from_spec(spec)
    sys.modules[name] = mod
    spec.loader.exec_module(mod)
    return mod


class EvalTimeout(BaseException):
    pass


class time_limit:
    """watchdog for the Python evaluation of one generated line (main thread only)"""

    def __init__(self, seconds):
        self.seconds = seconds
        self.active = False

    def __enter__(self):
        import signal
        import threading
        if threading.current_thread() is threading.main_thread():
            def handler(signum, frame):
                raise EvalTimeout()
            self.old = signal.signal(signal.SIGALRM, handler)
            signal.setitimer(signal.ITIMER_REAL, self.seconds)
            self.active = True
        return self

    def __exit__(self, *a):
        if self.active:
            import signal
            signal.setitimer(signal.ITIMER_REAL, 0)
            signal.signal(signal.SIGALRM, self.old)
        return False


class limit_memory:
    """generated programs can multiply sequences: make CPython raise MemoryError early (only around
    the evaluation: a child process would inherit the limit)"""

    def __init__(self, nbytes=3 << 29):
        self.nbytes = nbytes
        self.old = None

    def __enter__(self):
        try:
            import resource
            self.old = resource.getrlimit(resource.RLIMIT_AS)
            soft = self.nbytes if self.old[1] == resource.RLIM_INFINITY else min(self.nbytes, self.old[1])
            resource.setrlimit(resource.RLIMIT_AS, (soft, self.old[1]))
        except Exception:  # noqa: BLE001
            self.old = None
        return self

    def __exit__(self, *a):
        if self.old is not None:
            import resource
            resource.setrlimit(resource.RLIMIT_AS, self.old)
        return False


def count_constructs(x, acc):
    """IR constructor / operator coverage of the translated programs"""
    if isinstance(x, list):
        if x and isinstance(x[0], str) and x[0] in CONSTRUCTS:
            key = x[0]
            if key in ('bin', 'call', 'method', 'raise') and len(x) > 1 and isinstance(x[1], str):
                key = f'{key}:{x[1]}'
            acc[key] = acc.get(key, 0) + 1
            if x[0] == 'cmp':
                for o in x[2]:
                    acc['cmp:' + o] = acc.get('cmp:' + o, 0) + 1
        for y in x:
            count_constructs(y, acc)
    elif isinstance(x, dict):
        for y in x.values():
            count_constructs(y, acc)


CONSTRUCTS = {'const', 'var', 'readI', 'readV', 'fstr', 'bin', 'neg', 'pos', 'not', 'and', 'or', 'cmp', 'ite', 'call',
              'method', 'attr', 'attrFail', 'raise', 'threshold', 'thresholdOf', 'loadedForm', 'instance', 'notImpl',
              'tuple', 'list', 'dict', 'index', 'slice', 'listComp', 'sumGen', 'callHelper', 'global', 'unsupported',
              'assign', 'unpack', 'aug', 'ifS', 'forS', 'ret', 'expr', 'append', 'assertS', 'continueS', 'breakS', 'pass'}


def run(seed, n, run_step, evals_per_line=3, keep_dir=None):
    """COMMON.md stream interface. `n` = number of line evaluations (cases)."""
    import habutax.enum as henum
    tmp = keep_dir or tempfile.mkdtemp(prefix='hv-dsl-', dir='/var/tmp')
    os.makedirs(tmp, exist_ok=True)
    cases = 0
    bad = []
    dist = {'outcome': {}, 'unsupported_lines': 0, 'modules': 0, 'lines': 0, 'unmodelled': 0,
            'translator_unsupported': {}, 'constructs': {}}
    samples = []
    midx = 0
    try:
        while cases < n:
            rng = random.Random(f'{seed}/dsl/{midx}')
            src = gen_module_source(rng)
            mname = f'hv_toyforms_{seed}_{midx}'
            path = os.path.join(tmp, mname + '.py')
            with open(path, 'w', encoding='utf-8') as f:
                f.write(src)
            try:
                mod = load_module(path, mname)
            except Exception as e:  # noqa: BLE001
                raise RuntimeError(f'generated module {path} does not import: {type(e).__name__}: {e}')
            # make the toy module's enums visible to the translator under their module names
            class EnumNS:
                pass
            ns = EnumNS()
            for k, v in vars(henum).items():
                setattr(ns, k, v)
            ns.color = mod.color
            ns.shade = mod.shade
            tr = translate.Translator(2023, mod.available_forms, habutax_enum_module=ns)
            ir = tr.run()
            for c in ir['classes']:
                for l in c['lines']:
                    count_constructs(l['body'], dist['constructs'])
            for u in tr.report['unsupported']:
                key = u['construct'].split(':')[0][:60]
                dist['translator_unsupported'][key] = dist['translator_unsupported'].get(key, 0) + 1
            enums = {'status': henum.filing_status, 'color': mod.color}
            ops = ['dsl-begin'] + translate.wire_year(ir)
            expect = []
            by_name = {c.form_name: c for c in mod.available_forms}
            for c in ir['classes']:
                cls = by_name[c['name']]
                insts = {'ta': [None], 'tb': ['0', '1', '2', None], 'tc': ['you', 'spouse']}[c['name']]
                for l in c['lines']:
                    dist['lines'] += 1
                    for _ in range(evals_per_line):
                        inst = rng.choice(insts)
                        full = c['name'] if inst is None else f"{c['name']}:{inst}"
                        vs, is_, loaded = rand_stores(rng, full, enums)
                        real = eval_real(mod, cls, inst, l['name'], vs, is_, loaded)
                        if real == 'timeout':
                            dist['timeouts'] = dist.get('timeouts', 0) + 1
                            continue
                        toks = ['eval', full, l['name'], str(len(vs))]
                        for k, v in vs.items():
                            toks += [k] + translate.w_val(tr.reify(v))
                        toks.append(str(len(is_)))
                        for k, v in is_.items():
                            toks += [k] + translate.w_val(tr.reify(v))
                        toks += [str(len(loaded))] + loaded
                        ops.append(' '.join(toks))
                        expect.append((f'{mname} {full}.{l["name"]}', real, ops[-1]))
            ops.append('end')
            out = run_step(ops)
            if len(out) != len(expect):
                bad.append({'op': f'module {mname}', 'model': f'{len(out)} answers: {out[:3]}', 'real': f'{len(expect)} evaluations'})
                midx += 1
                cases += len(expect)
                continue
            for (what, real, op), model in zip(expect, out):
                cases += 1
                kind = ' '.join(real.split(' ')[:2]) if real.startswith('err') else real.split(' ')[0]
                dist['outcome'][kind] = dist['outcome'].get(kind, 0) + 1
                if model == 'err Unsupported':
                    dist['unmodelled'] += 1
                    continue
                if model != real:
                    bad.append({'op': what, 'model': model, 'real': real, 'source': path, 'line_op': op[:300]})
                elif len(samples) < 3 and real.startswith('val f:'):
                    samples.append({'op': what, 'answer': real})
            dist['modules'] += 1
            midx += 1
    finally:
        if keep_dir is None and not bad:
            shutil.rmtree(tmp, ignore_errors=True)
    return {'cases': cases, 'disagreements': bad, 'distribution': dist, 'samples': samples}


if __name__ == '__main__':
    import json
    from common import run_driver
    n = int(sys.argv[1]) if len(sys.argv) > 1 else 500
    seed = int(sys.argv[2]) if len(sys.argv) > 2 else 0
    res = run(seed, n, run_driver)
    print(json.dumps({k: v for k, v in res.items() if k != 'disagreements'}, indent=1))
    print('disagreements', len(res['disagreements']))
    for d in res['disagreements'][:10]:
        print(d)
