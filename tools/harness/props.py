"""Per-property checks: obligations, tie, statement oracle, search, evidence."""
import json
import os
import random
import time
import traceback

import common
import lean_tools
from common import VERIF

EVIDENCE_DIR = os.path.join(VERIF, 'evidence')
REPLAY_DIR = os.path.join(VERIF, 'evidence', 'replays')
KNOWN_FILE = os.path.join(VERIF, 'known_findings.json')

TRUSTED_BASE = [
    'Lean 4.33.0 kernel',
    'axioms: propext, Classical.choice, Quot.sound only (checked with #print axioms on every property theorem)',
    'statement of the theorems in lean/HabuVerif/Props and the hand-written oracles in lean/HabuVerif/Spec',
    'correspondence harness (tools/harness) and translator (tools/translate.py): validated differentially, not proved',
    'CPython 3.12.1 semantics of float/round/format/configparser/re/enum are modelled, not verified',
]


def load_known():
    try:
        return json.load(open(KNOWN_FILE))
    except FileNotFoundError:
        return {'findings': [], 'fixed': []}


class Context:
    def __init__(self, pid, tier, seed):
        self.pid, self.tier, self.seed = pid, tier, seed
        self.obligations = []       # dicts: name, ok, detail
        self.streams = {}           # name -> dict
        self.statement = {}         # oracle name -> dict
        self.violations = []
        self.known_hits = []
        self.notes = []
        self.gen_info = {}
        self.build_ok = True
        self.build_log = ''
        self.level = 'proof'
        self.known = load_known()

    # ---- scaling
    def n(self, quick, thorough):
        return thorough if self.tier == 'thorough' else quick

    # ---- reporting
    def matches_known(self, key):
        for f in self.known.get('findings', []):
            if f.get('property') == self.pid and f.get('key') == key:
                return f
        return None

    def report(self, key, what, replay_obj, found=True):
        """A property failure. `key` identifies the failing input/site (stable across runs) so
        that a listed known finding suppresses exactly that one."""
        k = self.matches_known(key)
        if k is not None and found:
            if key not in [h[0] for h in self.known_hits]:
                self.known_hits.append((key, what))
                print(f'KNOWN-FINDING: property={self.pid} {key}: {what}')
            return
        os.makedirs(REPLAY_DIR, exist_ok=True)
        safe = ''.join(c if c.isalnum() or c in '-_.' else '_' for c in key)[:80]
        path = os.path.join(REPLAY_DIR, f'{self.pid}_{safe}.json')
        with open(path, 'w') as f:
            json.dump({'property': self.pid, 'key': key, 'what': what, 'found_failing_input': found,
                       'replay': replay_obj, 'seed': self.seed, 'tier': self.tier,
                       'rerun': f'/venv/bin/python tools/check.py {self.pid} --replay {os.path.relpath(path, VERIF)}'},
                      f, indent=1, default=str)
        if key in [v[0] for v in self.violations]:
            return
        self.violations.append((key, what, path))
        tail = '' if found else ' no-failing-input-found'
        print(f'VIOLATION property={self.pid} replay={os.path.relpath(path, VERIF)}{tail}')
        print(f'  {what}')

    def finish(self, wall):
        os.makedirs(EVIDENCE_DIR, exist_ok=True)
        n_obl = len(self.obligations)
        n_ok = sum(1 for o in self.obligations if o['ok'])
        cases = sum(s.get('cases', 0) for s in self.streams.values()) + \
            sum(s.get('checked', 0) for s in self.statement.values())
        samples = []
        for o in self.obligations[:6]:
            samples.append({'obligation': o['name'], 'axioms': o.get('axioms'), 'ok': o['ok']})
        for name, s in self.streams.items():
            for x in s.get('samples', [])[:2]:
                samples.append({'stream': name, 'case': x})
        for name, s in self.statement.items():
            for x in s.get('samples', [])[:2]:
                samples.append({'oracle': name, 'case': x})
        cov = {
            'obligations': max(n_obl, 0),
            'discharged': n_ok,
            'checker_cmd': f'cd lean && lake build HabuVerif.Props.{self.pid} && lake env lean HabuVerif/Props/{self.pid}.lean  (#print axioms per theorem; forbidden-token scan)',
            'trusted_base': TRUSTED_BASE,
            'obligation_list': self.obligations,
            'evaluations': cases,
            'distinct_nontrivial': sum(s.get('distinct_nontrivial', 0) for s in list(self.streams.values()) + list(self.statement.values())),
            'rule': 'correspondence streams: one case = one generated input / operation sequence run on the real code and on the model; statement oracles: one case = one real execution checked against the property statement; non-trivial = reaches the behaviour the property is about (per-stream rule in streams.*.rule)',
            'streams': {k: {kk: vv for kk, vv in v.items() if kk != 'samples'} for k, v in self.streams.items()},
            'statement_oracles': {k: {kk: vv for kk, vv in v.items() if kk != 'samples'} for k, v in self.statement.items()},
            'samples': samples or [{'note': 'no cases'}],
            'known_findings_seen': [k for k, _ in self.known_hits],
            'notes': self.notes,
            'generated': {k: v for k, v in self.gen_info.items() if k != 'extra_targets'},
            'exhaustive': False,
        }
        ev = {
            'property_id': self.pid, 'tier': self.tier, 'seed': self.seed, 'level': self.level,
            'coverage': cov,
            'assumptions': TRUSTED_BASE + PROPS[self.pid].get('assumptions', []),
            'wall_s': round(wall, 2), 'violations': len(self.violations),
        }
        with open(os.path.join(EVIDENCE_DIR, f'{self.pid}.json'), 'w') as f:
            json.dump(ev, f, indent=1, default=str)
        print(f'{self.pid} {self.tier}: obligations {n_ok}/{n_obl}, cases {cases}, '
              f'violations {len(self.violations)}, known findings {len(self.known_hits)}, {wall:.1f}s')


# ------------------------------------------------------------------------------ obligations

def check_obligations(ctx, theorems):
    """Returns the list of broken obligation names."""
    broken = []
    hits = lean_tools.forbidden_scan()
    ctx.obligations.append({'name': 'no sorry/axiom/native_decide/... in the development', 'ok': not hits,
                            'detail': hits[:10]})
    if hits:
        broken.append('forbidden-token-scan')
    rel = f'HabuVerif/Props/{ctx.pid}.lean'
    if not ctx.build_ok:
        for t in theorems:
            ctx.obligations.append({'name': t, 'ok': False, 'detail': 'module does not build'})
        ctx.notes.append('lake build failed: ' + ctx.build_log[-1500:])
        return broken + list(theorems)
    ok, ax, out = lean_tools.axioms_of_module(rel)
    for t in theorems:
        if t not in ax:
            ctx.obligations.append({'name': t, 'ok': False, 'detail': 'no #print axioms line (theorem missing or file fails)'})
            broken.append(t)
            continue
        extra = [a for a in ax[t] if a not in lean_tools.ALLOWED_AXIOMS]
        ctx.obligations.append({'name': t, 'ok': not extra, 'axioms': ax[t]})
        if extra:
            broken.append(t)
    if not ok:
        ctx.notes.append('lean reported errors on ' + rel + ': ' + out[-1500:])
    return broken


# ------------------------------------------------------------------------------ streams

def stream_toy(ctx, n, wild=None, label='solve-toy'):
    """Real Solver vs Lean model on generated form programs (attempt order, prompts, final state)."""
    import toy
    cases, proto = [], []
    for k in range(n):
        rng = random.Random(f'{ctx.seed}/{label}/{k}')
        c = toy.gen_case(rng, wild=wild)
        cases.append(c)
        proto += c.protocol()
    out = common.run_driver(proto)
    pos, disagreements, dist, reals = 0, [], {}, []
    for k, c in enumerate(cases):
        model = []
        while pos < len(out):
            line = out[pos]
            pos += 1
            if line == 'done':
                break
            model.append(line)
        model = [toy.canon_model_abort(x) for x in model]
        real, solver, log, prompts = c.run_real()
        reals.append((c, real, solver, log, prompts))
        key = ' '.join(real[0].split(' ')[:3])
        dist[key] = dist.get(key, 0) + 1
        if model != real:
            diff = [(a, b) for a, b in zip(model + ['<none>'] * 12, real + ['<none>'] * 12) if a != b][:3]
            disagreements.append({'case': k, 'protocol': c.protocol(), 'diff': diff})
    nontrivial = sum(1 for c, real, *_ in reals if len([x for x in real if x.startswith('attempts ') and x.count(',') >= 2]) > 0
                     or real[0].startswith('verdict abort'))
    ctx.streams[label] = {
        'cases': n, 'disagreements': len(disagreements), 'distribution': dist,
        'distinct_nontrivial': nontrivial,
        'rule': 'generated catalogue of 1-4 form classes with strategy-tree lines, inputs, prompt script, request and schedule; non-trivial = at least three line attempts or an abort',
        'samples': [{'protocol': cases[0].protocol()[:12], 'real': reals[0][1][:4]}] if cases else [],
    }
    return disagreements, reals


_REAL_CACHE = {}


def real_runs(ctx, n, label='scenarios', years=(2021, 2022, 2023)):
    """Real solves of the shipped forms on generated scenarios (cached per process)."""
    import scenarios as sc
    key = (ctx.seed, n, label, years)
    if key in _REAL_CACHE:
        return _REAL_CACHE[key]
    res = []
    for k in range(n):
        year = years[k % len(years)]
        sd = f'{ctx.seed}/{label}/{k}'
        pol, kind = sc.gen_policy(sd, year)
        forms = sc.request_for(sd, year, kind)
        r = sc.run(year, forms, pol)
        r['kind'] = kind
        r['scenario_seed'] = sd
        res.append(r)
    _REAL_CACHE[key] = res
    return res


def scenario_replay(r):
    import scenarios as sc
    return {'kind': 'scenario', 'year': r['year'], 'forms': r['forms'], 'inputs': sc.inputs_of(r),
            'scenario_seed': r.get('scenario_seed')}


# ------------------------------------------------------------------------------ oracles on real runs

def oracle_c01(solver, ok):
    """statement of C01 on one finished real solve; returns list of problems"""
    probs = []
    unimpl = solver.unimplemented_fields()
    ui = solver.unmet_input_dependencies()
    uf = solver.unmet_field_dependencies()
    missing = [n for n in solver._solving_fields if n not in solver._v.values]
    req_missing = [f.name() for form in solver.forms.values() for f in form.required_fields()
                   if f.name() not in solver._v.values]
    if ok:
        if unimpl or ui or uf:
            probs.append(f'solved, yet diagnostics non-empty: unimpl={unimpl[:3]} inputs={list(ui)[:3]} fields={list(uf)[:3]}')
        if missing:
            probs.append(f'solved, yet demanded lines have no value: {missing[:5]}')
        if req_missing:
            probs.append(f'solved, yet required lines of loaded forms are absent: {req_missing[:5]}')
    else:
        if not (unimpl or ui or uf):
            probs.append('failed, yet all three diagnostics are empty')
        listed = set(unimpl) | {w for ws in ui.values() for w in ws} | {w for ws in uf.values() for w in ws}
        unexplained = [n for n in missing if n not in listed]
        if unexplained:
            probs.append(f'failed, and demanded lines without value are in no diagnostic: {unexplained[:5]}')
    return probs


def same_value(a, b):
    if isinstance(a, float) and isinstance(b, float):
        return a == b or (a != a and b != b)
    return type(a) is type(b) and a == b


def oracle_c03(solver):
    """re-evaluate every stored line on the final stores"""
    from habutax import form as hform
    probs = []
    for name, val in list(solver._v.values.items()):
        field = solver._field_map.get(name)
        if field is None:
            probs.append(f'{name}: stored but unknown to the field map')
            continue
        try:
            again = field.value(hform.FormAccessor(solver._i, field.form()),
                                hform.FormAccessor(solver._v, field.form()))
        except BaseException as e:  # noqa: BLE001
            if isinstance(e, (KeyboardInterrupt, SystemExit)):
                raise
            probs.append(f'{name}: stored {val!r}, re-evaluation raises {type(e).__name__}: {str(e)[:80]}')
            continue
        if not same_value(again, val):
            probs.append(f'{name}: stored {val!r}, its definition yields {again!r} on the final stores')
    return probs


# ------------------------------------------------------------------------------ property runners

def tie_solver(ctx, theorems_broken):
    """shared by the solver-metatheory properties: toy stream + real scenario runs"""
    n_toy = ctx.n(400, 6000)
    dis, reals = stream_toy(ctx, n_toy)
    dis2, reals2 = stream_toy(ctx, ctx.n(150, 1500), wild=True, label='solve-toy-dangling')
    runs = real_runs(ctx, ctx.n(45, 600))
    return dis + dis2, reals + reals2, runs


def run_C01(ctx):
    broken = check_obligations(ctx, PROPS['C01']['theorems'])
    dis, reals, runs = tie_solver(ctx, broken)
    checked, bad, dist = 0, [], {}
    for c, real, solver, log, prompts in reals:
        if real[0] in ('verdict solved', 'verdict failed'):
            checked += 1
            for p in oracle_c01(solver, real[0] == 'verdict solved'):
                bad.append(('toy', c.protocol(), p))
    for r in runs:
        k = 'abort ' + type(r['exception']).__name__ if r['exception'] else ('solved' if r['ok'] else 'failed')
        dist[f"{r['year']} {k}"] = dist.get(f"{r['year']} {k}", 0) + 1
        if r['exception'] is None:
            checked += 1
            for p in oracle_c01(r['solver'], r['ok']):
                bad.append(('scenario', scenario_replay(r), p))
    ctx.statement['c01-verdict'] = {
        'checked': checked, 'violations': len(bad), 'distribution': dist,
        'distinct_nontrivial': sum(1 for r in runs if r['exception'] is None and len(r['solver']._v.values) > 50),
        'rule': 'every finished real solve (generated programs and shipped forms): verdict vs diagnostics vs values; non-trivial real return = more than 50 lines valued',
        'samples': [{'year': r['year'], 'forms': r['forms'], 'kind': r['kind'], 'ok': r['ok'],
                     'lines': len(r['solver']._v.values)} for r in runs[:2]]}
    for kind, rep, p in bad:
        ctx.report('verdict:' + p[:60], p, {'kind': kind, 'case': rep})
    finish_tie(ctx, broken, dis, found=bool(bad))


def finish_tie(ctx, broken, disagreements, found):
    """Broken obligations / correspondence without a failing input found by the oracles."""
    if disagreements:
        d = disagreements[0]
        if not found:
            ctx.report('correspondence:solve-toy', 'the solver model and solver.py disagree: ' + str(d['diff'])[:300],
                       {'kind': 'toy', 'protocol': d['protocol'], 'diff': d['diff'],
                        'broken': 'correspondence stream solve-toy'}, found=False)
    if broken and not found and not disagreements:
        ctx.report('obligation:' + broken[0], f'proof obligation(s) no longer check: {broken[:5]}',
                   {'broken': broken, 'build_log_tail': ctx.build_log[-2000:]}, found=False)


def run_C03(ctx):
    broken = check_obligations(ctx, PROPS['C03']['theorems'])
    dis, reals, runs = tie_solver(ctx, broken)
    checked, bad, nvals = 0, [], 0
    for c, real, solver, log, prompts in reals:
        if real[0] in ('verdict solved', 'verdict failed'):
            checked += 1
            nvals += len(solver._v.values)
            for p in oracle_c03(solver):
                bad.append(('toy', c.protocol(), p))
    for r in runs:
        if r['exception'] is None:
            checked += 1
            nvals += len(r['solver']._v.values)
            for p in oracle_c03(r['solver']):
                bad.append(('scenario', scenario_replay(r), p))
    ctx.statement['c03-fixed-point'] = {
        'checked': checked, 'values_reevaluated': nvals, 'violations': len(bad),
        'distinct_nontrivial': sum(1 for r in runs if r['exception'] is None and len(r['solver']._v.values) > 50),
        'rule': 'every value of every finished real solve is recomputed from its definition on the final stores',
        'samples': [{'year': r['year'], 'kind': r['kind'], 'values': len(r['solver']._v.values)} for r in runs[:2]]}
    for kind, rep, p in bad:
        ctx.report('fixed-point:' + p.split(':')[0], p, {'kind': kind, 'case': rep})
    finish_tie(ctx, broken, dis, found=bool(bad))


PROPS = {
    'C01': dict(run=run_C01, theorems=[
        'HabuVerif.C01.solved_sound', 'HabuVerif.C01.failed_complete',
        'HabuVerif.C01.missing_input_not_solved', 'HabuVerif.C01.abort_has_no_state'],
        assumptions=['line definitions are deterministic and side-effect free (strategy trees); checked syntactically by the translator for shipped forms']),
    'C03': dict(run=run_C03, theorems=[
        'HabuVerif.C03.solution_fixed_point', 'HabuVerif.C03.stores_only_grow',
        'HabuVerif.C03.attempt_keeps_values'],
        assumptions=['line definitions are deterministic and side-effect free (strategy trees)']),
}


def run_property(ctx):
    PROPS[ctx.pid]['run'](ctx)


def replay(pid, path):
    """Re-run a recorded failing case against /repo."""
    data = json.load(open(path if os.path.isabs(path) else os.path.join(VERIF, path)))
    print(json.dumps({k: data[k] for k in ('property', 'key', 'what')}, indent=1))
    rep = data.get('replay', {})
    case = rep.get('case', rep)
    if isinstance(case, dict) and case.get('kind') == 'scenario':
        import scenarios as sc
        r = sc.run(case['year'], case['forms'], None, file_inputs=case['inputs'])
        print('re-run on /repo:', 'exception ' + repr(r['exception']) if r['exception'] else ('solved' if r['ok'] else 'failed'))
        if r['exception'] is None:
            for p in oracle_c01(r['solver'], r['ok']) + oracle_c03(r['solver']):
                print('  ', p)
    return 0
