"""Per-property checks: obligations, tie, statement oracle, search, evidence."""
import configparser
import json
import sys
import os
import random
import re
import time
import traceback

import common
import lean_tools
from common import VERIF

EVIDENCE_DIR = os.path.join(VERIF, 'evidence')
REPLAY_DIR = os.path.join(VERIF, 'evidence', 'replays')
KNOWN_FILE = os.path.join(VERIF, 'known_findings.json')

TRUSTED_BASE = [
    'Lean 4.33.0 kernel',
    'axioms: propext, Classical.choice, Quot.sound only (checked with #print axioms on every property theorem)',
    'statement of the theorems in lean/HabuVerif/Props and the hand-written oracles in lean/HabuVerif/Spec',
    'correspondence harness (tools/harness) and translator (tools/translate.py): validated differentially, not proved',
    'CPython 3.12.1 semantics of float/round/format/configparser/re/enum are modelled, not verified',
]


def load_known():
    try:
        return json.load(open(KNOWN_FILE))
    except FileNotFoundError:
        return {'findings': [], 'fixed': []}


MAX_REPORTED = 40


class Context:
    def __init__(self, pid, tier, seed):
        self.pid, self.tier, self.seed = pid, tier, seed
        self.obligations = []       # dicts: name, ok, detail
        self.streams = {}           # name -> dict
        self.statement = {}         # oracle name -> dict
        self.violations = []
        self.known_hits = []
        self.notes = []
        self.gen_info = {}
        self.build_ok = True
        self.build_log = ''
        self.level = 'proof'
        self.known = load_known()
        self._more_keys = set()

    # ---- scaling
    def n(self, quick, thorough):
        return thorough if self.tier == 'thorough' else quick

    # ---- reporting
    def matches_known(self, key):
        for f in self.known.get('findings', []):
            if f.get('property') == self.pid and f.get('key') == key:
                return f
        return None

    def report(self, key, what, replay_obj, found=True):
        """A property failure. `key` identifies the failing input/site (stable across runs) so
        that a listed known finding suppresses exactly that one."""
        k = self.matches_known(key)
        if k is not None and found:
            if key not in [h[0] for h in self.known_hits]:
                self.known_hits.append((key, what))
                print(f'KNOWN-FINDING: property={self.pid} {key}: {what}')
            return
        if len(self.violations) >= MAX_REPORTED:
            # a change that breaks a property everywhere: the first MAX_REPORTED failing inputs are written out, the
            # rest are only counted (the exit status and the evidence count them all)
            if key not in self._more_keys:
                self._more_keys.add(key)
                self.violations.append((key, what, None))
                if len(self._more_keys) == 1:
                    print(f'  ... further violations of {self.pid} are counted, not listed')
            return
        os.makedirs(REPLAY_DIR, exist_ok=True)
        safe = ''.join(c if (c.isascii() and c.isalnum()) or c in '-_.' else ('_' if c.isascii() else 'u%04x' % ord(c)) for c in key)[:80]
        path = os.path.join(REPLAY_DIR, f'{self.pid}_{safe}.json')
        with open(path, 'w') as f:
            json.dump({'property': self.pid, 'key': key, 'what': what, 'found_failing_input': found,
                       'replay': replay_obj, 'seed': self.seed, 'tier': self.tier,
                       'rerun': f'/venv/bin/python tools/check.py {self.pid} --replay {os.path.relpath(path, VERIF)}'},
                      f, indent=1, default=str)
        if key in [v[0] for v in self.violations]:
            return
        self.violations.append((key, what, path))
        tail = '' if found else ' no-failing-input-found'
        print(f'VIOLATION property={self.pid} replay={os.path.relpath(path, VERIF)}{tail}')
        print(f'  {what}')

    def finish(self, wall):
        os.makedirs(EVIDENCE_DIR, exist_ok=True)
        n_obl = len(self.obligations)
        n_ok = sum(1 for o in self.obligations if o['ok'])
        cases = sum(s.get('cases', 0) for s in self.streams.values()) + \
            sum(s.get('checked', 0) for s in self.statement.values())
        samples = []
        for o in self.obligations[:6]:
            samples.append({'obligation': o['name'], 'axioms': o.get('axioms'), 'ok': o['ok']})
        for name, s in self.streams.items():
            for x in s.get('samples', [])[:2]:
                samples.append({'stream': name, 'case': x})
        for name, s in self.statement.items():
            for x in s.get('samples', [])[:2]:
                samples.append({'oracle': name, 'case': x})
        cov = {
            'obligations': max(n_obl, 0),
            'discharged': n_ok,
            'checker_cmd': f'cd lean && lake build HabuVerif.Props.{self.pid} && lake env lean HabuVerif/Props/{self.pid}.lean  (#print axioms per theorem; forbidden-token scan)',
            'trusted_base': TRUSTED_BASE,
            'obligation_list': self.obligations,
            'evaluations': cases,
            'distinct_nontrivial': sum(s.get('distinct_nontrivial', 0) for s in list(self.streams.values()) + list(self.statement.values())),
            'rule': 'correspondence streams: one case = one generated input / operation sequence run on the real code and on the model; statement oracles: one case = one real execution checked against the property statement; non-trivial = reaches the behaviour the property is about (per-stream rule in streams.*.rule)',
            'streams': {k: {kk: vv for kk, vv in v.items() if kk != 'samples'} for k, v in self.streams.items()},
            'statement_oracles': {k: {kk: vv for kk, vv in v.items() if kk != 'samples'} for k, v in self.statement.items()},
            'samples': samples or [{'note': 'no cases'}],
            'known_findings_seen': [k for k, _ in self.known_hits],
            'notes': self.notes,
            'leanchecker': getattr(self, 'leanchecker', None),
            'generated': {k: v for k, v in self.gen_info.items() if k != 'extra_targets'},
            'exhaustive': False,
        }
        ev = {
            'property_id': self.pid, 'tier': self.tier, 'seed': self.seed, 'level': self.level,
            'coverage': cov,
            'assumptions': TRUSTED_BASE + PROPS[self.pid].get('assumptions', []),
            'wall_s': round(wall, 2), 'violations': len(self.violations),
        }
        with open(os.path.join(EVIDENCE_DIR, f'{self.pid}.json'), 'w') as f:
            json.dump(ev, f, indent=1, default=str)
        print(f'{self.pid} {self.tier}: obligations {n_ok}/{n_obl}, cases {cases}, '
              f'violations {len(self.violations)}, known findings {len(self.known_hits)}, {wall:.1f}s')


# ------------------------------------------------------------------------------ obligations

def check_obligations(ctx, theorems):
    """Returns the list of broken obligation names."""
    broken = []
    hits = lean_tools.forbidden_scan()
    ctx.obligations.append({'name': 'no sorry/axiom/native_decide/... in the development', 'ok': not hits,
                            'detail': hits[:10]})
    if hits:
        broken.append('forbidden-token-scan')
    rel = f'HabuVerif/Props/{ctx.pid}.lean'
    if not ctx.build_ok:
        for t in theorems:
            ctx.obligations.append({'name': t, 'ok': False, 'detail': 'module does not build'})
        ctx.notes.append('lake build failed: ' + ctx.build_log[-1500:])
        return broken + list(theorems)
    # the `#print axioms` lines of Props/<id>.lean: taken from the log of the build that produced (or replayed) the
    # module's .olean; only if a theorem is missing there is the file re-elaborated
    ok, ax, out = True, lean_tools.axioms_from_log(ctx.build_log, rel), ''
    if any(t not in ax for t in theorems):
        ok, ax, out = lean_tools.axioms_of_module(rel)
        ctx.notes.append('axioms audit by re-elaboration of ' + rel)
    for t in theorems:
        if t not in ax:
            ctx.obligations.append({'name': t, 'ok': False, 'detail': 'no #print axioms line (theorem missing or file fails)'})
            broken.append(t)
            continue
        extra = [a for a in ax[t] if a not in lean_tools.ALLOWED_AXIOMS]
        ctx.obligations.append({'name': t, 'ok': not extra, 'axioms': ax[t]})
        if extra:
            broken.append(t)
    if not ok:
        ctx.notes.append('lean reported errors on ' + rel + ': ' + out[-1500:])
    # theorems of further proof modules built for this property (their `#print axioms` lines are in the build log)
    for rel2, names in (PROPS.get(ctx.pid, {}).get('extra_audit') or {}).items():
        ax2 = lean_tools.axioms_from_log(ctx.build_log, rel2)
        for t in names:
            if t not in ax2:
                ctx.obligations.append({'name': t, 'ok': False, 'detail': f'no #print axioms line from {rel2} in the build log'})
                broken.append(t)
                continue
            extra = [a for a in ax2[t] if a not in lean_tools.ALLOWED_AXIOMS]
            ctx.obligations.append({'name': t, 'ok': not extra, 'axioms': ax2[t]})
            if extra:
                broken.append(t)
    return broken


# ------------------------------------------------------------------------------ streams

def stream_toy(ctx, n, wild=None, label='solve-toy'):
    """Real Solver vs Lean model on generated form programs (attempt order, prompts, final state)."""
    import toy
    cases, proto = [], []
    for k in range(n):
        rng = random.Random(f'{ctx.seed}/{label}/{k}')
        c = toy.gen_case(rng, wild=wild)
        cases.append(c)
        proto += c.protocol()
    out = common.run_driver(proto)
    pos, disagreements, dist, reals = 0, [], {}, []
    for k, c in enumerate(cases):
        model = []
        while pos < len(out):
            line = out[pos]
            pos += 1
            if line == 'done':
                break
            model.append(line)
        model = [toy.canon_model_abort(x) for x in model]
        real, solver, log, prompts = c.run_real()
        reals.append((c, real, solver, log, prompts))
        key = ' '.join(real[0].split(' ')[:3])
        dist[key] = dist.get(key, 0) + 1
        if model != real:
            diff = [(a, b) for a, b in zip(model + ['<none>'] * 12, real + ['<none>'] * 12) if a != b][:3]
            disagreements.append({'case': k, 'protocol': c.protocol(), 'diff': diff})
    nontrivial = sum(1 for c, real, *_ in reals if len([x for x in real if x.startswith('attempts ') and x.count(',') >= 2]) > 0
                     or real[0].startswith('verdict abort'))
    ctx.streams[label] = {
        'cases': n, 'disagreements': len(disagreements), 'distribution': dist,
        'distinct_nontrivial': nontrivial,
        'rule': 'generated catalogue of 1-4 form classes with strategy-tree lines, inputs, prompt script, request and schedule; non-trivial = at least three line attempts or an abort',
        'samples': [{'protocol': cases[0].protocol()[:12], 'real': reals[0][1][:4]}] if cases else [],
    }
    return disagreements, reals


_REAL_CACHE = {}


def real_runs(ctx, n, label='scenarios', years=(2021, 2022, 2023)):
    """Real solves of the shipped forms on generated scenarios (cached per process)."""
    import scenarios as sc
    key = (ctx.seed, n, label, years)
    if key in _REAL_CACHE:
        return _REAL_CACHE[key]
    res = []
    for k in range(n):
        year = years[k % len(years)]
        sd = f'{ctx.seed}/{label}/{k}'
        pol, kind = sc.gen_policy(sd, year)
        forms = sc.request_for(sd, year, kind)
        r = sc.run(year, forms, pol)
        r['kind'] = kind
        r['scenario_seed'] = sd
        res.append(r)
    _REAL_CACHE[key] = res
    return res


def scenario_replay(r):
    import scenarios as sc
    return {'kind': 'scenario', 'year': r['year'], 'forms': r['forms'], 'inputs': sc.inputs_of(r),
            'scenario_seed': r.get('scenario_seed')}


# ------------------------------------------------------------------------------ oracles on real runs

def oracle_c01(solver, ok):
    """statement of C01 on one finished real solve; returns list of problems"""
    probs = []
    unimpl = solver.unimplemented_fields()
    ui = solver.unmet_input_dependencies()
    uf = solver.unmet_field_dependencies()
    missing = [n for n in solver._solving_fields if n not in solver._v.values]
    req_missing = [f.name() for form in solver.forms.values() for f in form.required_fields()
                   if f.name() not in solver._v.values]
    if ok:
        if unimpl or ui or uf:
            probs.append(f'solved, yet diagnostics non-empty: unimpl={unimpl[:3]} inputs={list(ui)[:3]} fields={list(uf)[:3]}')
        if missing:
            probs.append(f'solved, yet demanded lines have no value: {missing[:5]}')
        if req_missing:
            probs.append(f'solved, yet required lines of loaded forms are absent: {req_missing[:5]}')
        if not probs:
            # "demanded" recomputed independently of the solver's own bookkeeping: whatever a stored line asks its
            # accessors for when it is evaluated again (recorded below the FormAccessor, so `v.get(k)` and `k in v`
            # count like `v[k]`) is demanded, and must be there (seed C01g: the "not there yet" signals became
            # KeyErrors, `get`/`in` swallowed them, and the return was "solved" without the demanded line or input)
            import solver_oracles as so
            for n in list(solver._v.values):
                if n not in solver._field_map:
                    continue
                vlog, ilog, exc = so.reads_of(solver, n)
                gone = [m for m in vlog if m not in solver._v.values]
                gone_i = [x for x in ilog if x not in solver._i]
                if gone or gone_i:
                    probs.append(f'solved, yet line {n} demands {(gone + gone_i)[:4]} which the solution / the inputs do not hold')
                    break
    else:
        if not (unimpl or ui or uf):
            probs.append('failed, yet all three diagnostics are empty')
        listed = set(unimpl) | {w for ws in ui.values() for w in ws} | {w for ws in uf.values() for w in ws}
        unexplained = [n for n in missing if n not in listed]
        if unexplained:
            probs.append(f'failed, and demanded lines without value are in no diagnostic: {unexplained[:5]}')
    return probs


def same_value(a, b):
    if isinstance(a, float) and isinstance(b, float):
        return a == b or (a != a and b != b)
    return type(a) is type(b) and a == b


def oracle_c03(solver):
    """re-evaluate every stored line on the final stores"""
    from habutax import form as hform
    probs = []
    for name, val in list(solver._v.values.items()):
        field = solver._field_map.get(name)
        if field is None:
            probs.append(f'{name}: stored but unknown to the field map')
            continue
        try:
            again = field.value(hform.FormAccessor(solver._i, field.form()),
                                hform.FormAccessor(solver._v, field.form()))
        except BaseException as e:  # noqa: BLE001
            if isinstance(e, (KeyboardInterrupt, SystemExit)):
                raise
            probs.append(f'{name}: stored {val!r}, re-evaluation raises {type(e).__name__}: {str(e)[:80]}')
            continue
        if not same_value(again, val):
            probs.append(f'{name}: stored {val!r}, its definition yields {again!r} on the final stores')
    if not probs:
        probs += oracle_c03_returned(solver)
    return probs


def oracle_c03_returned(solver):
    """the statement on the RETURNED solution (what `Solver.solution()` hands out, as text): read every value back
    through its own line type and re-evaluate every line against those values; the line must print as it was returned"""
    from habutax import form as hform, values as hvalues
    probs = []
    try:
        sol = solver.solution()
    except BaseException as e:  # noqa: BLE001
        if isinstance(e, (KeyboardInterrupt, SystemExit)):
            raise
        return []
    back = hvalues.ValueStore()
    texts = {}
    for sec in sol.sections():
        for key, text in sol[sec].items():
            name = f'{sec}.{key}'
            field = solver._field_map.get(name)
            if field is None:
                # option names are lower-cased by configparser: find the line case-insensitively
                field = next((f for n, f in solver._field_map.items() if n.lower() == name.lower()), None)
            if field is None:
                continue
            try:
                back[field.name()] = field.from_string(text)
                texts[field.name()] = text
            except BaseException as e:  # noqa: BLE001  (C14's business)
                if isinstance(e, (KeyboardInterrupt, SystemExit)):
                    raise
                return []
    for name, text in texts.items():
        field = solver._field_map[name]
        try:
            again = field.value(hform.FormAccessor(solver._i, field.form()), hform.FormAccessor(back, field.form()))
            shown = field.to_string(again)
        except BaseException as e:  # noqa: BLE001
            if isinstance(e, (KeyboardInterrupt, SystemExit)):
                raise
            continue            # a line that needs a value the returned (partial) solution does not contain
        if shown != text:
            probs.append(f'{name}: the returned solution says {text!r}, but its definition yields {shown!r} on the values of the same returned solution')
            if len(probs) >= 3:
                break
    return probs


# ------------------------------------------------------------------------------ property runners

def tie_solver(ctx, theorems_broken):
    """shared by the solver-metatheory properties: toy stream + real scenario runs"""
    n_toy = ctx.n(400, 6000)
    dis, reals = stream_toy(ctx, n_toy)
    dis2, reals2 = stream_toy(ctx, ctx.n(150, 1500), wild=True, label='solve-toy-dangling')
    runs = real_runs(ctx, ctx.n(45, 600))
    dis3 = tie_real(ctx, runs)
    return dis + dis2 + dis3, reals + reals2, runs


def tie_real(ctx, runs, label='solve-real'):
    """shipped forms: real Solver vs the Lean solver model running the TRANSLATED line programs
    (regenerated from the working tree), compared on verdict / abort class, every value (floats by
    bits), forms, diagnostics and attempt order"""
    import real_stream
    info = {}
    dis = real_stream.compare(runs, info=info)
    dist = {}
    for r in runs:
        k = 'abort ' + type(r['exception']).__name__ if r['exception'] else ('solved' if r['ok'] else 'failed')
        dist[f"{r['year']} {k}"] = dist.get(f"{r['year']} {k}", 0) + 1
    rep = (ctx.gen_info or {}).get('translate_report') or {}
    unsupported = []
    for y, yr in (rep.get('years') or {}).items() if isinstance(rep, dict) else []:
        unsupported += [(y, u) for u in (yr.get('unsupported') or [])]
    ctx.streams[label] = {
        'cases': len(runs), 'disagreements': len(dis), 'distribution': dist,
        'distinct_nontrivial': sum(1 for r in runs if r['exception'] is None and len(r['solver']._v.values) > 50),
        'translator_unsupported_constructs': len(unsupported),
        'rule': 'demand-driven random scenarios over the shipped forms of 2021-2023 (statuses, 0-3 payer forms, itemizing, dependents, HSA, NC, gates); the recorded answers are replayed through the Lean solver model with the translated programs; non-trivial = more than 50 lines valued',
        'samples': [{'year': r['year'], 'forms': r['forms'], 'kind': r.get('kind'), 'inputs': len(sc_inputs(r))} for r in runs[:2]]}
    ctx.suspect_runs = sorted({int(m.group(1)) for d in dis for m in [re.search(r' case (\d+)$', str(d.get('op', '')))] if m})
    out = [{'case': i, 'protocol': ['real scenario', str(d)[:300]], 'diff': str(d)[:600]} for i, d in enumerate(dis)]
    if unsupported:
        out.append({'case': -1, 'protocol': ['translator'], 'diff': f'unsupported constructs in line definitions: {unsupported[:3]}'})
    return out


def oracle_c01_cli(r):
    """run the REAL command `habutax solve` (habutax.solve(args), in-process, no prompting) on the inputs of a finished
    scenario run, with one needed input and (when the return has several) nothing else removed, so that failures with more
    than one kind of problem occur; compare the text it prints with what a directly driven Solver reports"""
    import contextlib
    import io
    import tempfile
    import types
    import habutax
    import scenarios as sc
    from habutax import solver as hsolver, inputs as hinputs, forms as hforms
    probs = []
    inputs = dict(sc.inputs_of(r))
    asked = [a[0] for a in r.get('asked', []) if a[0] in inputs]
    variants = [inputs]
    if asked:
        # drop the last two inputs the original run had to ask for: the solve now lacks inputs (and whatever else is wrong)
        v = dict(inputs)
        for k in asked[-2:]:
            v.pop(k, None)
        variants.append(v)
    for inp in variants:
        cfg = configparser.ConfigParser(interpolation=None)
        for k, val in inp.items():
            sec, opt = k.split('.', 1)
            if not cfg.has_section(sec):
                cfg.add_section(sec)
            cfg.set(sec, opt, val)
        tmpd = tempfile.mkdtemp(prefix='hv-c01-', dir='/var/tmp')
        path = os.path.join(tmpd, 'in.ini')
        try:
            with open(path, 'w') as fh:
                cfg.write(fh)
            # reference: the solver driven directly on the same file
            try:
                s = hsolver.Solver(hinputs.InputStore(path), hforms.available_forms[r['year']], prompt=None)
                ok = s.solve(list(r['forms']))
            except BaseException as e:  # noqa: BLE001
                if isinstance(e, (KeyboardInterrupt, SystemExit)):
                    raise
                continue            # aborts are the other branch of the property; nothing is printed
            out = io.StringIO()
            args = types.SimpleNamespace(input_file=path, forms=list(r['forms']), year=r['year'], prompt_missing=False,
                                         writeback_input=False, solution=os.path.join(tmpd, 'sol.ini'))
            try:
                with contextlib.redirect_stdout(out):
                    habutax.solve(args)
            except BaseException as e:  # noqa: BLE001
                if isinstance(e, (KeyboardInterrupt, SystemExit)):
                    raise
                probs.append(('cli-raises', f'`habutax solve` raises {type(e).__name__} where Solver.solve returns {ok}'))
                continue
            text = out.getvalue()
            if ok:
                if 'Successfully solved' not in text or 'Failed' in text:
                    probs.append(('cli-verdict', 'the solve succeeded but `habutax solve` does not say so'))
                continue
            if 'Successfully solved' in text or 'Failed to solve' not in text:
                probs.append(('cli-verdict', 'the solve FAILED but `habutax solve` does not say so'))
            missing = []
            for name in s.unimplemented_fields():
                if name not in text:
                    missing.append(f'unimplemented line {name}')
            for dep, waiters in s.unmet_input_dependencies().items():
                if dep not in text:
                    missing.append(f'missing input {dep}')
                missing += [f'line {w} blocked behind input {dep}' for w in waiters if w not in text]
            for dep, waiters in s.unmet_field_dependencies().items():
                if dep not in text:
                    missing.append(f'blocking line {dep}')
                missing += [f'line {w} blocked behind {dep}' for w in waiters if w not in text]
            if missing:
                probs.append(('cli-names', f'`habutax solve` failed without naming: {missing[:4]} ({len(missing)} in all)'))
        finally:
            import shutil
            shutil.rmtree(tmpd, ignore_errors=True)
    return probs


def run_C01(ctx):
    broken = check_obligations(ctx, PROPS['C01']['theorems'])
    dis, reals, runs = tie_solver(ctx, broken)
    checked, bad, dist = 0, [], {}
    for c, real, solver, log, prompts in reals:
        if real[0] in ('verdict solved', 'verdict failed'):
            checked += 1
            for p in oracle_c01(solver, real[0] == 'verdict solved'):
                bad.append(('toy', c.protocol(), p))
    for r in runs:
        k = 'abort ' + type(r['exception']).__name__ if r['exception'] else ('solved' if r['ok'] else 'failed')
        dist[f"{r['year']} {k}"] = dist.get(f"{r['year']} {k}", 0) + 1
        if r['exception'] is None:
            checked += 1
            for p in oracle_c01(r['solver'], r['ok']):
                bad.append(('scenario', scenario_replay(r), p))
    # the exit text of the real `habutax solve` (observe_at of the property): a failed solve NAMES the unimplemented
    # lines, the missing inputs and the lines blocked behind them; a successful one says so and nothing else
    cli_checked = 0
    for r in runs[:ctx.n(30, 200)]:
        if r['exception'] is not None:
            continue
        for key, msg in oracle_c01_cli(r):
            bad.append(('scenario', scenario_replay(r), msg))
        cli_checked += 1
    ctx.notes.append(f'exit text of the real `habutax solve` checked on {cli_checked} scenario files')
    ctx.statement['c01-verdict'] = {
        'checked': checked, 'violations': len(bad), 'distribution': dist,
        'distinct_nontrivial': sum(1 for r in runs if r['exception'] is None and len(r['solver']._v.values) > 50),
        'rule': 'every finished real solve (generated programs and shipped forms): verdict vs diagnostics vs values; non-trivial real return = more than 50 lines valued',
        'samples': [{'year': r['year'], 'forms': r['forms'], 'kind': r['kind'], 'ok': r['ok'],
                     'lines': len(r['solver']._v.values)} for r in runs[:2]]}
    for kind, rep, p in bad:
        ctx.report('verdict:' + p[:60], p, {'kind': kind, 'case': rep})
    finish_tie(ctx, broken, dis, found=bool(bad))


def finish_tie(ctx, broken, disagreements, found):
    """Broken obligations / correspondence without a failing input found by the oracles."""
    # `found` from the callers means "the oracles produced problems"; when every one of them matched a recorded known
    # finding nothing NEW was found, and a broken tie or proof must still be reported
    found = found and bool(ctx.violations)
    if disagreements:
        d = disagreements[0]
        if not found:
            ctx.report('correspondence:solve-toy', 'the solver model and solver.py disagree: ' + str(d['diff'])[:300],
                       {'kind': 'toy', 'protocol': d['protocol'], 'diff': d['diff'],
                        'broken': 'correspondence stream solve-toy'}, found=False)
    if broken and not found and not disagreements:
        ctx.report('obligation:' + broken[0], f'proof obligation(s) no longer check: {broken[:5]}',
                   {'broken': broken, 'build_log_tail': ctx.build_log[-2000:]}, found=False)


def cli_store_check(ctx, n, what):
    """the file layer behind C05 / C13: the REAL InputStore (constructor options included) on real temp files vs the
    session model, plus the statement check that an answer typed for an input reads back from the written file as
    typed; property violations are reported with the session as the failing input"""
    r = tie_cli(ctx, n)
    for v in r.get('violations', [])[:5]:
        ctx.report('store:' + str(v.get('real'))[:60], f"{what}: {str(v.get('real'))[:300]}", {'kind': 'session', 'case': v})
    if not r.get('violations') and r['disagreements']:
        ctx.report('correspondence:cli', 'input-file model and the real InputStore / CLI disagree: ' + str(r['disagreements'][0])[:300],
                   {'disagreement': r['disagreements'][0]}, found=False)
    return r


def run_C03(ctx):
    broken = check_obligations(ctx, PROPS['C03']['theorems'])
    dis, reals, runs = tie_solver(ctx, broken)
    checked, bad, nvals = 0, [], 0
    # returns whose COMPUTED text lines begin or end with white space (a blank last name makes `full_names` end in a
    # blank, a blank income type does the same for Schedule 1 `8z_type`): the returned solution must carry the value
    # the definition yields, not a tidied one (seed C03g: `to_config` strips the text it writes)
    import scenarios as sc
    runs = list(runs)
    for k in range(ctx.n(6, 30)):
        year = (2021, 2022, 2023)[k % 3]
        sd = f'{ctx.seed}/c03-blank-text/{k}'
        pol, kind = sc.gen_policy(sd, year)
        pol.fixed.update({'last_name': '', 'other_income_type': '', 'middle_initial': ' ' if k % 2 else ''})
        r = sc.run(year, sc.request_for(sd, year, kind), pol)
        r['kind'], r['scenario_seed'] = kind, sd
        runs.append(r)
    for c, real, solver, log, prompts in reals:
        if real[0] in ('verdict solved', 'verdict failed'):
            checked += 1
            nvals += len(solver._v.values)
            for p in oracle_c03(solver):
                bad.append(('toy', c.protocol(), p))
    for r in runs:
        if r['exception'] is None:
            checked += 1
            nvals += len(r['solver']._v.values)
            for p in oracle_c03(r['solver']):
                bad.append(('scenario', scenario_replay(r), p))
    ctx.statement['c03-fixed-point'] = {
        'checked': checked, 'values_reevaluated': nvals, 'violations': len(bad),
        'distinct_nontrivial': sum(1 for r in runs if r['exception'] is None and len(r['solver']._v.values) > 50),
        'rule': 'every value of every finished real solve is recomputed from its definition on the final stores',
        'samples': [{'year': r['year'], 'kind': r['kind'], 'values': len(r['solver']._v.values)} for r in runs[:2]]}
    for kind, rep, p in bad:
        ctx.report('fixed-point:' + p.split(':')[0], p, {'kind': kind, 'case': rep})
    finish_tie(ctx, broken, dis, found=bool(bad))



def toy_signature(real, solver):
    """order-insensitive part of a toy result"""
    if real[0].startswith('verdict abort'):
        return ('abort',)
    d = {l.split(' ', 1)[0]: (l.split(' ', 1)[1] if ' ' in l else '') for l in real}
    return (real[0], d.get('v', ''), d.get('forms', ''), tuple(sorted(set(solver.unimplemented_fields()))),
            tuple(sorted((k, tuple(sorted(set(ws)))) for k, ws in solver.unmet_input_dependencies().items())),
            tuple(sorted((k, tuple(sorted(set(ws)))) for k, ws in solver.unmet_field_dependencies().items())),
            d.get('inputs', ''))


def run_C04(ctx):
    import solver_oracles as so
    broken = check_obligations(ctx, PROPS['C04']['theorems'])
    dis, reals, runs = tie_solver(ctx, broken)
    checked, bad, solved = 0, [], 0
    for c, real, solver, log, prompts in reals:
        if real[0] == 'verdict solved':
            checked += 1
            for p in so.oracle_c04(solver, True, c.forms):
                bad.append(('toy', c.protocol(), p))
    for r in runs:
        if r['exception'] is None and r['ok']:
            checked += 1
            solved += 1
            for p in so.oracle_c04(r['solver'], True, r['forms']):
                bad.append(('scenario', scenario_replay(r), p))
    ctx.statement['c04-closure'] = {
        'checked': checked, 'violations': len(bad), 'distinct_nontrivial': solved,
        'rule': 'every solved real return: required lines present, every line read by a present line present with its form, and the set of lines/forms equals the closure recomputed from the request with read-recording accessors; non-trivial = solved return of the shipped forms',
        'samples': [{'year': r['year'], 'forms': sorted(r['solver'].forms)[:8]} for r in runs if r['exception'] is None and r['ok']][:2]}
    for kind, rep, p in bad:
        ctx.report('closure:' + p[:70], p, {'kind': kind, 'case': rep})
    finish_tie(ctx, broken, dis, found=bool(bad))


def run_C05(ctx):
    import solver_oracles as so
    import toy
    broken = check_obligations(ctx, PROPS['C05']['theorems'])
    dis, reals, runs = tie_solver(ctx, broken)
    cli_store_check(ctx, ctx.n(500, 5000), 'a value means the same whether it comes from the input file or from the prompt')
    bad, checked, variants = [], 0, 0
    # generated programs under several schedules (line names / ranks decide the order)
    n_toy = ctx.n(150, 2500)
    for k in range(n_toy):
        rng = random.Random(f'{ctx.seed}/c05-toy/{k}')
        c = toy.gen_case(rng, wild=rng.random() < 0.2, form_obs=False,
                         prompt_mode=rng.choice(['none', 'total']))
        base = None
        names = [f'{tc.full(i)}.{b}' for tc in c.classes for i in tc.instances for b, _, _ in tc.fields]
        names += [f'{tc.full(i)}.{b}' for tc in c.classes for i in tc.instances for b in tc.inputs]
        nsched = ctx.n(4, 8)
        for j in range(nsched):
            if j == 0:
                c.sched = None
            else:
                order = names[:]
                rng.shuffle(order)
                c.sched = dict(seed=str(j), ranks={n: i for i, n in enumerate(order)})
            if j == nsched - 1 and len(c.forms) > 1:
                c.forms = list(reversed(c.forms))
            real, tsolver, _, _ = c.run_real()
            sig = toy_signature(real, tsolver)
            variants += 1
            if base is None:
                base = sig
            elif sig != base:
                bad.append(('toy', c.protocol(), f'result depends on the attempt order / request order: {str(base)[:120]} vs {str(sig)[:120]}'))
                break
        checked += 1
    # shipped forms; plus requests that do NOT start from Form 1040 (forms reached only through other forms' lines)
    import scenarios as sc
    odd = []
    for year in (2021, 2022, 2023):
        for forms in (['8959', 'nc_d-400'], ['nc_d-400', '1040_sb'], ['1040_s1', '8959'], ['1040_sa', 'nc_d-400', '8959']):
            sd = f'{ctx.seed}/c05/forms/{year}/{"-".join(forms)}'
            pol, kind = sc.gen_policy(sd, year, kind='plain')
            r = sc.run(year, forms, pol)
            r['kind'], r['scenario_seed'] = kind, sd
            odd.append(r)
    # plain wage returns (one W-2, no dividends or interest, taxable income in the tax-table range): the bases of the
    # "after another return in the same process" history below, where line 16 is ONE look-up
    hist = []
    for year in (2021, 2022, 2023):
        for st, wage in (('Single', '61234.00'), ('HeadOfHousehold', '83417.50')):
            sd = f'{ctx.seed}/c05/history/{year}/{st}'
            pol, kind = sc.gen_policy(sd, year, kind='plain')
            pol.p_yes = 0.0
            pol.fixed.update({'1040.filing_status': st, '1040.number_w-2': '1', '1040.number_1099-div': '0', '1040.number_1099-int': '0',
                              '1040.number_1099-r': '0', '1040.number_1099-g': '0', '1040.number_dependents': '0', 'w-2:0.box_1': wage})
            r = sc.run(year, ['1040'], pol)
            r['kind'], r['scenario_seed'], r['history'] = 'plain', sd, True
            hist.append(r)
    nreal = 0
    # scenarios on which the solver model (which can only read inputs and lines) and the real code disagree are where a
    # line may be reading something else (loaded forms, attempt history, module state): many more orders and splits there
    suspects = [runs[k] for k in getattr(ctx, 'suspect_runs', []) if k < len(runs)][:12]
    for r in suspects:
        r['suspect'] = True
    rest = [r for r in runs[:ctx.n(25, 300)] if not r.get('suspect')]
    for r in hist + odd + suspects + rest:
        if r['exception'] is not None and not isinstance(r['exception'], (NotImplementedError, TypeError, AssertionError)):
            continue
        rng = random.Random(f'{ctx.seed}/c05-real/{r["scenario_seed"]}')
        inputs = sc_inputs(r)
        base_run = so.rerun_with(r, file_inputs=inputs)
        base = so.signature(base_run)
        nreal += 1
        if r['exception'] is None and so.signature(r)[:6] != base[:6]:
            bad.append(('scenario', scenario_replay(r), 'file-vs-prompt: ' + so.describe_diff(so.signature(r), base)))
        tests = []
        for j in range(ctx.n(2, 5) if not r.get('suspect') else 16):
            tests.append((f'schedule {j}', lambda j=j: so.rerun_with(r, schedule=so.hash_schedule(f'{ctx.seed}/{j}'), file_inputs=inputs)))
        if len(r['forms']) > 1:
            tests.append(('request order', lambda: so.rerun_with(r, forms=list(reversed(r['forms'])), file_inputs=inputs)))
        tests.append(('file layout', lambda: so.run_from_text(r, so.ini_text(inputs, rng))))
        keys = sorted(inputs)
        half = {k: inputs[k] for k in keys if rng.random() < 0.5}
        split_policy = so.FixedPolicy(inputs)
        tests.append(('file/prompt split', lambda: (split_policy.refused.clear(), so.rerun_with(r, file_inputs=half, policy=split_policy))[1]))
        if r.get('suspect'):
            for j in range(6):
                hj = {k: inputs[k] for k in keys if random.Random(f'{ctx.seed}/split/{j}/{k}').random() < 0.5}
                tests.append(('file/prompt split', lambda hj=hj: (split_policy.refused.clear(), so.rerun_with(r, file_inputs=hj, policy=split_policy))[1]))
        if (r.get('history') or checked < ctx.n(8, 40)) and base_run['exception'] is None and '1040.15' in base_run['solver']._v.values \
                and '1040.filing_status' in inputs and 'w-2:0.box_1' in inputs:
            # history: the same request after ANOTHER return was solved in the same process.  The other return has a
            # different filing status and wages shifted so that its taxable income falls where this one's does -- the
            # place where something remembered from the previous solve (seed C05g: a last-row memo of the tax table
            # that ignores the status column) would be reused.
            def after_another(r=r, inputs=inputs, base_run=base_run):
                import scenarios as sc
                t15 = base_run['solver']._v.values['1040.15']
                cur = inputs['1040.filing_status']
                for other in ('HeadOfHousehold', 'Single', 'MarriedFilingJointly'):
                    if other == cur:
                        continue
                    pol2, _ = sc.gen_policy(r['scenario_seed'], r['year'], kind=r.get('kind'))
                    in2 = dict(inputs, **{'1040.filing_status': other})
                    r2 = so.rerun_with(r, file_inputs=in2, policy=pol2)
                    if r2['exception'] is not None or '1040.15' not in r2['solver']._v.values:
                        continue
                    try:
                        w = float(inputs['w-2:0.box_1']) + (t15 - r2['solver']._v.values['1040.15'])
                    except ValueError:
                        continue
                    if w < 0:
                        continue
                    pol3, _ = sc.gen_policy(r['scenario_seed'], r['year'], kind=r.get('kind'))
                    so.rerun_with(r, file_inputs=dict(in2, **{'w-2:0.box_1': '%.2f' % w}), policy=pol3)
                    break
                return so.rerun_with(r, file_inputs=inputs)
            tests.append(('after another return in the same process', after_another))
        trace = so.ReadTrace()
        with trace.install():
            so.rerun_with(r, file_inputs=inputs)
        for label, fn in tests:
            variants += 1
            with trace.install():
                res_v = fn()
            sig = so.signature(res_v)
            if label == 'file/prompt split' and split_policy.refused:
                continue        # the split run needed an input the base run never supplied: not the same inputs
            if sig != base:
                bad.append(('scenario', dict(scenario_replay(r), variant=label), f'{label}: ' + so.describe_diff(base, sig)))
        for line, hist, a, b in trace.divergences()[:3]:
            bad.append(('scenario', dict(scenario_replay(r), variant='read sequence', line=line, answers_so_far=[list(h) for h in hist[-6:]],
                                         then_once=list(a), then_another_time=list(b)),
                        f'read sequence: two evaluations of {line} received the same answers from the stores ({len(hist)} reads) and then '
                        f'did different things: {a} vs {b} -- the line consults something other than inputs and lines'))
        checked += 1
    ctx.statement['c05-independence'] = {
        'checked': checked, 'variants_run': variants, 'violations': len(bad), 'distinct_nontrivial': nreal,
        'rule': 'each case is solved under the natural order and under further schedules (hook), reversed request, re-laid-out input file (shuffled sections/keys, spacing, comments, key case) and a random file/prompt split; all result signatures must be equal, and over all these solves any two evaluations of one line that got the same answers from the stores must read the same next key / return the same value (read-sequence determinism); non-trivial = shipped-form scenario',
        'samples': [{'year': r['year'], 'forms': r['forms'], 'inputs': len(sc_inputs(r))} for r in runs[:2]]}
    for kind, rep, p in bad:
        key = 'independence:' + (p.split(':')[0] if kind == 'scenario' else 'toy')
        if 'KeyError' in p and kind == 'scenario':
            # Field.form(name) on a form that is not loaded: identified by WHAT was varied, the year and the request, so that
            # the recorded finding (hypothetical schedules, Form 8959 requested without Form 1040) hides nothing else
            vk = 'schedule' if str(rep.get('variant', '')).startswith('schedule') else str(rep.get('variant', p.split(':')[0]))
            ctx.report(f"independence:form-lookup-KeyError:{vk}:{rep.get('year')}:{'+'.join(rep.get('forms', []))}", p, {'kind': kind, 'case': rep})
            continue
        ctx.report(key + ':' + p[:50], p, {'kind': kind, 'case': rep})
    finish_tie(ctx, broken, dis, found=bool(bad))


def sc_inputs(r):
    import scenarios as sc
    return sc.inputs_of(r)


def tie_ini(ctx, n, label='ini'):
    import ini_stream
    r = ini_stream.run(ctx.seed, n, lambda lines: common.run_driver(['ini ' + l for l in lines]))
    ctx.streams[label] = {
        'cases': r['cases'], 'disagreements': len(r['disagreements']), 'distribution': r['distribution'],
        'distinct_nontrivial': r['cases'] - r['distribution'].get('malformed:MissingSectionHeaderError', 0),
        'rule': 'configparser / InputStore / _create_fdf / PDF string decoding / fill selection: real code vs Lean model, text compared byte for byte; non-trivial = anything but a file rejected for a missing section header',
        'samples': r.get('samples', [])[:2]}
    return r['disagreements']


def run_C19(ctx):
    import c19_oracle as o
    import scenarios as sc
    from habutax import pdf_fields
    broken = check_obligations(ctx, PROPS['C19']['theorems'])
    dis = tie_ini(ctx, ctx.n(2500, 24000))
    bad, fills, forms_filled, checked = [], 0, 0, 0
    nsc = ctx.n(45, 500)
    for k in range(nsc):
        year = (2021, 2022, 2023)[k % 3]
        sd = f'{ctx.seed}/c19/{k}'
        pol, kind = sc.gen_policy(sd, year, kind='hsa' if k % 4 == 0 else None)
        if k % 2 == 0:
            pol.text = o.adversarial_text(sd)
        r = sc.run(year, sc.request_for(sd, year, kind), pol)
        r['scenario_seed'] = sd
        if r['exception'] is not None or not r['ok']:
            continue
        res = o.run_fill(year, r['solver'])
        fills += 1
        forms_filled += len(res['fdfs'])
        for key, msg in o.check_fill(year, r['solver'], res):
            bad.append((key, msg, scenario_replay(r)))
    seq_probs, seq_checked = o.sequence_check()
    for key, msg in seq_probs:
        bad.append((key, msg, {'kind': 'template', 'case': key}))
    ctx.notes.append(f'attachment sequence numbers printed in {seq_checked} templates compared with sequence_no')
    # direct: length limits and choice lists never truncate / substitute
    rng = random.Random(f'{ctx.seed}/c19-fields')
    class F:  # minimal field object
        def to_string(self, v):
            return str(v)
    for k in range(ctx.n(400, 4000)):
        m = rng.choice([None, 0, 1, 5, 9, 17])
        s = ''.join(rng.choice('ab()\\ 9-.0') for _ in range(rng.randrange(0, 25)))
        if k % 3 == 1:
            # a run of one sign / padding character around a core that is just at the limit: a guard that measures
            # a stripped or trimmed text lets the whole text through (seed C19g: len(value.lstrip('-')))
            pad = rng.choice('-+ 0.') * rng.randrange(1, 6)
            core = ''.join(rng.choice('ab9') for _ in range(rng.choice([(m or 3) - 1, m or 3, (m or 3) + 1]) if (m or 3) > 0 else 0))
            s = rng.choice([pad + core, core + pad, pad + core + pad])
        checked += 1
        try:
            got = pdf_fields.TextPDFField('t', 'f', max_length=m).value(s, F())
            if got != s or (m is not None and len(s) > m):
                bad.append(('text-truncation', f'TextPDFField(max_length={m}) turned {s!r} into {got!r}', {'max_length': m, 'text': s}))
        except pdf_fields.PDFValueTooLong:
            if m is None or len(s) <= m:
                bad.append(('text-spurious-error', f'TextPDFField(max_length={m}) rejected {s!r}', {'max_length': m, 'text': s}))
        choices = ['a', 'b', 'ab']
        try:
            got = pdf_fields.ChoicePDFField('t', 'f', choices).value(s, F())
            if got != s or s not in choices:
                bad.append(('choice-substitution', f'ChoicePDFField accepted {s!r} as {got!r}', {'text': s}))
        except pdf_fields.PDFInvalidChoiceValue:
            if s in choices:
                bad.append(('choice-spurious-error', f'ChoicePDFField rejected {s!r}', {'text': s}))
    ctx.statement['c19-fill'] = {
        'checked': fills + checked, 'fills': fills, 'forms_filled': forms_filled, 'violations': len(bad),
        'distinct_nontrivial': fills,
        'rule': 'solved real returns (half with adversarial text in every string input) are written as solution files, read back and filled by the real PDFFiller with pdftk replaced by a recorder; every FDF is decoded by an independent PDF-string decoder and compared with the mapped text; forms, multiplicity and order checked; non-trivial = one fill of a solved return',
        'samples': [{'adversarial_texts': o.ADVERSARIAL[:5]}]}
    for key, msg, rep in bad:
        ctx.report(key, msg, {'kind': 'scenario', 'case': rep})
    if dis and not bad:
        ctx.report('correspondence:ini', 'Ini/Pdf model and real code disagree: ' + str(dis[0])[:300], {'disagreement': dis[0]}, found=False)
    elif broken and not bad:
        ctx.report('obligation:' + broken[0], f'proof obligation(s) no longer check: {broken[:5]}', {'broken': broken}, found=False)



def run_stream(ctx, module, prefix, n, label, rule, **kw):
    import importlib
    mod = importlib.import_module(module)
    r = mod.run(ctx.seed, n, lambda lines: common.run_driver([prefix + ' ' + l for l in lines]), **kw)
    ctx.streams[label] = {
        'cases': r['cases'], 'disagreements': len(r['disagreements']),
        'distribution': dict(list(r.get('distribution', {}).items())[:60]),
        'distinct_nontrivial': r.get('distinct_nontrivial', r['cases']),
        'rule': rule, 'samples': r.get('samples', [])[:2]}
    return r['disagreements']


ADVERSARIAL_INPUTS = ['nan', 'NaN', 'inf', '-inf', 'Infinity', '1e999', '-1e999', '1_0.5', '1__0', '_1', ' 12 ', '+5', '1e3',
                      '\u0661\u0662', '\uff11\uff12', '', '  ', 'yes', 'YES', ' On', 'ja', 'true ', 'Tru', '0x10', '1.', '.5', '1,000',
                      '123-45-6789', '123456789', '12345678', '1234567890', '12345678a', '- -', 'Single', 'single', ' Single ',
                      'Singl', '011000015', '011000015\n', '001000015', 'ACCT-12345', 'a' * 18, '--', '5.', '٣',
                      '１２３-４５-６７８９', '123-45-678²', '①②③④⑤⑥⑦⑧⑨', '١٢٣٤٥٦٧٨٩', '123 45 6789', '１２３', '²', '௧', '1²', '12³4']


def oracle_c11():
    """statement of C11 on the REAL classes: whatever InputStore[...] returns passed valid(), equals
    value(), has the declared type and is finite; rejected text raises InvalidInput; absent raises
    MissingInput; by file and by prompt (__setitem__)."""
    import configparser
    import math
    from habutax import inputs as hi, enum as henum
    probs, checked = [], 0
    specs = [('s', hi.StringInput('s'), str), ('b', hi.BooleanInput('b'), bool), ('i', hi.IntegerInput('i'), int),
             ('f', hi.FloatInput('f'), float), ('e', hi.EnumInput('e', henum.filing_status), None),
             ('ee', hi.EnumInput('ee', henum.taxpayer_or_spouse, allow_empty=True), None),
             ('r', hi.RegexInput('r', '^(0[1-9]|1[0-2]|2[1-9]|3[0-2])[0-9]{7}$'), str),
             ('a', hi.RegexInput('a', '^[0-9A-Za-z\\-]{1,17}$'), str), ('n', hi.SSNInput('n'), str)]

    class FakeForm:
        def name(self):
            return 'f'
    for _, inp, _ in specs:
        inp.__form_init__(FakeForm())
    texts = [t.encode().decode('unicode_escape') if '\\u' in t else t for t in ADVERSARIAL_INPUTS]
    for base, inp, ty in specs:
        for t in texts:
            for route in ('file', 'set'):
                cfg = configparser.ConfigParser(interpolation=None)
                store = hi.InputStore(cfg, {inp.name(): inp})
                try:
                    if route == 'file':
                        cfg.read_dict({'f': {base: t}})
                    else:
                        store[inp.name()] = t
                except Exception as e:  # noqa: BLE001
                    continue
                checked += 1
                try:
                    v = store[inp.name()]
                except hi.InvalidInput:
                    if inp.valid(t):
                        probs.append((f'{type(inp).__name__}:{t!r}', f'{type(inp).__name__}: valid text {t!r} reported invalid'))
                    continue
                except hi.MissingInput:
                    probs.append((f'{type(inp).__name__}:{t!r}', f'{type(inp).__name__}: supplied text {t!r} reported missing'))
                    continue
                except Exception as e:  # noqa: BLE001
                    probs.append((f'{type(inp).__name__}:{t!r}', f'{type(inp).__name__}: text {t!r} escapes as {type(e).__name__}'))
                    continue
                stored = cfg.get('f', base)
                if not inp.valid(stored):
                    probs.append((f'{type(inp).__name__}:{t!r}', f'{type(inp).__name__}: rejected text {t!r} reached a line as {v!r}'))
                if ty is not None and type(v) is not ty:
                    probs.append((f'{type(inp).__name__}:{t!r}', f'{type(inp).__name__}: {t!r} gives {type(v).__name__}, declared {ty.__name__}'))
                if isinstance(v, float) and not math.isfinite(v):
                    probs.append((f'{type(inp).__name__}:{t!r}', f'{type(inp).__name__}: {t!r} gives the non-finite number {v!r}'))
                # a social security number that reaches a line is nine of the digits 0-9 (the form the class itself
                # announces, 123-45-6789, without the separators) -- a reference independent of SSNInput.valid
                if isinstance(inp, hi.SSNInput) and not (isinstance(v, str) and len(v) == 9 and all(c in '0123456789' for c in v)):
                    probs.append((f'{type(inp).__name__}:{t!r}', f'SSNInput: {t!r} is not a nine-digit number, yet it reached a line as {v!r}'))
                # "text that does not denote a finite number for a numeric input is never turned into a value": the
                # reference for "denotes" is the language's own number syntax, independent of the input class
                if isinstance(inp, (hi.FloatInput, hi.IntegerInput)) and t.strip():
                    try:
                        ref = float(t.strip()) if isinstance(inp, hi.FloatInput) else int(t.strip())
                        denotes = math.isfinite(ref) if isinstance(ref, float) else True
                    except ValueError:
                        denotes, ref = False, None
                    if not denotes:
                        probs.append((f'{type(inp).__name__}:{t!r}', f'{type(inp).__name__}: {t!r} is not a number, yet it reached a line as {v!r}'))
                    elif ref != v:
                        probs.append((f'{type(inp).__name__}:{t!r}', f'{type(inp).__name__}: {t!r} denotes {ref!r}, yet it reached a line as {v!r}'))
        # absent
        cfg = configparser.ConfigParser(interpolation=None)
        cfg.read_dict({'f': {'other': '1'}, 'DEFAULT': {}})
        store = hi.InputStore(cfg, {inp.name(): inp})
        checked += 1
        try:
            v = store[inp.name()]
            probs.append((f'{type(inp).__name__}:absent', f'{type(inp).__name__}: absent input silently defaults to {v!r}'))
        except hi.MissingInput:
            pass
    # histories on ONE store object: what a read returns depends on the CURRENT text and specification only.  The same
    # real code on a FRESH store holding the current text is the reference (real against real: a difference is a
    # stale value that was never validated against what is supplied now -- seed C11g, a memo of parsed values).
    def outcome(store, key):
        try:
            v = store[key]
            return ('ok', type(v).__name__, repr(v))
        except (hi.MissingInput, hi.InvalidInput, hi.MissingInputSpecification) as e:
            return (type(e).__name__,)
        except Exception as e:  # noqa: BLE001
            return ('raised', type(e).__name__)

    def fresh(inp2, text):
        cfg2 = configparser.ConfigParser(interpolation=None)
        if text is not None:
            cfg2.read_dict({'f': {inp2.base_name(): text}})
        return outcome(hi.InputStore(cfg2, {inp2.name(): inp2}), inp2.name())
    good = {'s': ['x', 'y z'], 'b': ['yes', 'no'], 'i': ['3', '41'], 'f': ['1.5', '20'], 'e': ['Single', 'MarriedFilingJointly'],
            'ee': ['taxpayer', 'spouse'], 'r': ['011000015', '021000021'], 'a': ['ACCT-1', 'B2'], 'n': ['123-45-6789', '987654321']}
    for base, inp, ty in specs:
        others = [t for t in texts if t not in good[base]][:40] + good[base]
        for a in good[base]:
            for b in others:
                for how in ('delete', 'config-set', 'setitem', 'respec'):
                    cfg = configparser.ConfigParser(interpolation=None)
                    store = hi.InputStore(cfg, {inp.name(): inp})
                    try:
                        store[inp.name()] = a
                        outcome(store, inp.name())                  # first read
                        if how == 'delete':
                            del store[inp.name()]
                            want, hist = fresh(inp, None), f'set {a!r}; read; del; read'
                        elif how == 'config-set':
                            cfg.set('f', base, b)
                            want, hist = fresh(inp, b), f'set {a!r}; read; config.set {b!r}; read'
                        elif how == 'setitem':
                            store[inp.name()] = b
                            want, hist = fresh(inp, b), f'set {a!r}; read; set {b!r}; read'
                        else:
                            k2 = specs[(specs.index((base, inp, ty)) + 1 + len(b)) % len(specs)][1]
                            inp2 = k2.__class__.__new__(k2.__class__)
                            inp2.__dict__.update(k2.__dict__)
                            inp2._name = inp._name
                            store.update_input_spec({inp.name(): inp2})
                            want, hist = fresh(inp2, a), f'set {a!r}; read as {type(inp).__name__}; update_input_spec({type(inp2).__name__}); read'
                    except Exception:  # noqa: BLE001  (a text the configuration itself refuses)
                        continue
                    checked += 1
                    got = outcome(store, inp.name())
                    if got != want:
                        probs.append((f'history:{type(inp).__name__}:{how}', f'{type(inp).__name__}: after [{hist}] the store returns {got}, a fresh store holding the current text returns {want}'))
    return probs, checked


def run_C11(ctx):
    broken = check_obligations(ctx, PROPS['C11']['theorems'])
    dis = run_stream(ctx, 'inputs_stream', 'inp', ctx.n(12000, 150000), 'inputs',
                     'every input class valid/value and InputStore[...] on adversarial strings (whitespace incl. Unicode, case, signs, exponents, nan/inf, underscores, Unicode digits, near-miss enum names, trailing newline): real classes vs Lean model',
                     **({'thorough': True} if ctx.tier == 'thorough' else {}))
    probs, checked = oracle_c11()
    ctx.statement['c11-gate'] = {'checked': checked, 'violations': len(probs), 'distinct_nontrivial': checked,
                                 'rule': 'each input class x adversarial text x (file, prompt route) through the real InputStore: result valid, typed, finite; rejected -> InvalidInput; absent -> MissingInput',
                                 'samples': [{'texts': ADVERSARIAL_INPUTS[:8]}]}
    for key, msg in probs:
        ctx.report('gate:' + key, msg, {'kind': 'input-text', 'case': key})
    if not probs:
        if dis:
            ctx.report('correspondence:inputs', 'input model and real classes disagree: ' + str(dis[0])[:300], {'disagreement': dis[0]}, found=False)
        elif broken:
            ctx.report('obligation:' + broken[0], f'proof obligation(s) no longer check: {broken[:5]}', {'broken': broken}, found=False)


def oracle_c12(runs):
    """type / rounding / blank audit: stub definitions through the real Field classes, and all values of real returns"""
    import enum as pyenum
    from habutax import fields as hf, enum as henum
    probs, checked = [], 0

    class FakeForm:
        def name(self):
            return 'f'

    class MyInt(int):
        pass

    class MyStr(str):
        pass

    class MyFloat(float):
        pass

    class IE(pyenum.IntEnum):
        A = 1
    vals = [None, '', '   ', 'x', True, False, 0, 7, -3, 1.005, 2.675, -0.001, 1e20, 0.0005, 0.00049, -0.0004, 1e-5, 0.004, 0.4, -0.5, MyInt(3), MyStr('q'), MyFloat(1.5), IE.A,
            henum.filing_status.Single, henum.taxpayer_or_spouse.spouse, [1], (1, 2), 10 ** 30]
    mk = [('str', lambda fn: hf.StringField('l', fn), str, ''), ('bool', lambda fn: hf.BooleanField('l', fn), bool, False),
          ('int', lambda fn: hf.IntegerField('l', fn), int, 0), ('float2', lambda fn: hf.FloatField('l', fn), float, 0.0),
          ('float0', lambda fn: hf.FloatField('l', fn, places=0), float, 0.0),
          ('float5', lambda fn: hf.FloatField('l', fn, places=5), float, 0.0),
          ('enum', lambda fn: hf.EnumField('l', henum.filing_status, fn), henum.filing_status, None)]
    for name, ctor, ty, empty in mk:
        for v in vals:
            f = ctor(lambda s, i, vv, v=v: v)
            f.__form_init__(FakeForm())
            checked += 1
            blank = v is None or (isinstance(v, str) and v.strip() == '')
            try:
                out = f.value({}, {})
            except TypeError as e:
                if blank or type(v) is ty:
                    probs.append((f'{name}:{v!r}', f'{name} line rejected a correctly typed/blank value {v!r}'))
                elif 'f.l' not in str(e):
                    probs.append((f'{name}:{v!r}', f'{name} line: TypeError does not name the line: {e}'))
                continue
            except Exception as e:  # noqa: BLE001
                probs.append((f'{name}:{v!r}', f'{name} line: value {v!r} escapes as {type(e).__name__}'))
                continue
            if blank:
                if not same_value(out, empty) and not (out is None and empty is None):
                    probs.append((f'{name}:{v!r}', f'{name} line: blank answer stored as {out!r}, empty value is {empty!r}'))
            elif type(v) is not ty:
                probs.append((f'{name}:{v!r}', f'{name} line stored a value of type {type(v).__name__}: {out!r}'))
            elif name.startswith('float'):
                places = int(name[5:])
                if out != round(v, places) or round(out, places) != out:
                    probs.append((f'{name}:{v!r}', f'{name} line: {v!r} stored as {out!r}, not rounded to {places} places'))
    # audit of real returns
    for r in runs:
        if r['exception'] is not None:
            continue
        s = r['solver']
        for n, v in s._v.values.items():
            f = s._field_map[n]
            checked += 1
            if v is None and isinstance(f, hf.EnumField):
                continue
            if type(v) is not f._type:
                probs.append((f'real:{n}', f'{r["year"]} {n}: stored {v!r} of type {type(v).__name__}, line declares {f._type.__name__}'))
            elif isinstance(f, hf.FloatField) and round(v, f._places) != v:
                probs.append((f'real:{n}', f'{r["year"]} {n}: stored {v!r} is not rounded to {f._places} places'))
    return probs, checked


def run_C12(ctx):
    broken = check_obligations(ctx, PROPS['C12']['theorems'])
    dis = run_stream(ctx, 'fields_stream', 'inp', ctx.n(12000, 150000), 'fields',
                     'Field.value / to_string / from_string with stub definitions returning every kind of Python value (bool for int line, int for float line, subclasses, None, blanks, other enums): real classes vs Lean model')
    runs = list(real_runs(ctx, ctx.n(45, 600)))
    # the same kinds of returns with money answers that carry a fraction of a cent: rounding must happen in the
    # LINE (also in the mirror lines of input-only forms), before any dependent reads the amount (seed C12g)
    import scenarios as sc
    for k in range(ctx.n(18, 120)):
        year = (2021, 2022, 2023)[k % 3]
        sd = f'{ctx.seed}/subcent/{k}'
        pol, kind = sc.gen_policy(sd, year)
        pol.subcent = True
        r = sc.run(year, sc.request_for(sd, year, kind), pol)
        r['kind'] = kind
        r['scenario_seed'] = sd
        runs.append(r)
    probs, checked = oracle_c12(runs)
    ctx.statement['c12-typed'] = {'checked': checked, 'violations': len(probs),
                                  'distinct_nontrivial': sum(1 for r in runs if r['exception'] is None),
                                  'rule': 'stub definitions x line types through the real Field.value; plus type/rounding audit of every value stored by real returns; non-trivial = finished real solve',
                                  'samples': [{'year': r['year'], 'values': len(r['solver']._v.values)} for r in runs[:2]]}
    for key, msg in probs:
        ctx.report('typed:' + key, msg, {'kind': 'field-value', 'case': key})
    if not probs:
        if dis:
            ctx.report('correspondence:fields', 'field model and real classes disagree: ' + str(dis[0])[:300], {'disagreement': dis[0]}, found=False)
        elif broken:
            ctx.report('obligation:' + broken[0], f'proof obligation(s) no longer check: {broken[:5]}', {'broken': broken}, found=False)


def load_errata():
    try:
        return json.load(open(os.path.join(VERIF, 'tools', 'c18_label_errata.json')))['errata']
    except FileNotFoundError:
        return []


def is_erratum(w, errata):
    for e in errata:
        if str(w.get('template', '')).endswith(e['template_suffix']) and e['target_contains'] in str(w.get('target', '')) \
                and w.get('line') == e['mapped_line'] and w.get('expected') == e['template_label']:
            return True
    return False


def run_c17_c18(ctx, prop):
    import c17_c18_oracle as orc
    broken = check_obligations(ctx, PROPS[prop]['theorems'])
    gen = ctx.gen_info
    for f in gen.get('failed', []):
        ctx.notes.append('generator failure: ' + str(f)[:500])
    obl = [o for o in gen.get('c17_c18_obligations', {}).get('obligations', []) if o['property'] == prop]
    errata = load_errata()
    failed = {f['id']: f for f in gen.get('c17_c18_failed', []) if f['property'] == prop}
    for o in obl:
        ok = o['holds'] and ctx.build_ok
        ctx.obligations.append({'name': 'Gen.' + o['id'], 'ok': bool(ok), 'check': o['check'], 'counts': o.get('counts')})
    ctx.gen_info = {'summary': gen.get('c17_c18_obligations', {}).get('summary'), 'failed_ids': list(failed)}
    # the real-object oracle (independent of the generator's tables)
    res = orc.run(ctx.seed, ctx.tier)
    mine = [v for v in res['violations'] if v.get('property') == prop]
    ctx.statement[prop.lower() + '-oracle'] = {
        'checked': sum(v for v in res['checked'].values() if isinstance(v, int)), 'violations': len(mine),
        'distinct_nontrivial': sum(v for v in res['checked'].values() if isinstance(v, int)),
        'detail': res['checked'], 'rule': 'the same checks evaluated directly on the real Form objects, parsed templates and real list-forms / list-form-inputs output (parsed back with the real configparser)',
        'samples': res.get('samples', [])[:2]}
    reported = 0
    n_errata = 0
    for fid, f in failed.items():
        ws = [w for w in f.get('witnesses', []) if not is_erratum(w, errata)]
        n_errata += len(f.get('witnesses', [])) - len(ws)
        all_known = bool(ws)
        for w in ws:
            key = f"{fid}:{w.get('line', w.get('what', ''))}"
            if ctx.matches_known(key) is None:
                all_known = False
            ctx.report(key, f"{f['check']} fails: {json.dumps(w, default=str)[:300]}", {'obligation': fid, 'witness': w})
            reported += 1
        if all_known:
            for o in ctx.obligations:
                if o['name'] == 'Gen.' + fid:
                    o['ok'] = ctx.build_ok
                    o['note'] = 'holds on all rows except the rows of a recorded known finding; discharged as <id>_rest (the negation for the full table is proved too)'
        if not ws:
            # all witnesses are errata of the oracle: the `_rest` theorem covers every other row
            for o in ctx.obligations:
                if o['name'] == 'Gen.' + fid:
                    o['ok'] = ctx.build_ok
                    o['note'] = 'holds on all rows except documented template-text errata (tools/c18_label_errata.json); proved as <id>_rest'
    for v in mine:
        w = v.get('witness', {}) if isinstance(v.get('witness'), dict) else {}
        if is_erratum(dict(w, template=w.get('template', v.get('template', ''))), errata):
            continue
        key = f"oracle:{v.get('year')}:{v.get('form')}:{str(v.get('what'))[:40]}"
        if not any(str(v.get('form')) in k for k, *_ in ctx.violations) and not any(str(v.get('form')) in k for k, _ in ctx.known_hits):
            ctx.report(key, f"{v.get('what')}: {json.dumps(v.get('witness'), default=str)[:300]}", {'oracle_violation': v})
            reported += 1
    ctx.notes.append(f'label errata applied to {n_errata} witnesses')
    if not ctx.build_ok and not ctx.violations:     # (known-finding hits do not count as found)
        ctx.report('obligation:build', 'generated obligations no longer build', {'log': ctx.build_log[-2000:]}, found=False)
    elif broken and not ctx.violations:
        ctx.report('obligation:' + broken[0], f'proof obligation(s) no longer check: {broken[:5]}', {'broken': broken}, found=False)


def run_C17(ctx):
    run_c17_c18(ctx, 'C17')


def run_C18(ctx):
    run_c17_c18(ctx, 'C18')



def run_C07(ctx):
    import c07_oracle
    broken = check_obligations(ctx, PROPS['C07']['theorems'])
    gen = ctx.gen_info
    obl = gen.get('c07_obligations', {}).get('obligations', [])
    for o in obl:
        ctx.obligations.append({'name': 'Gen.' + o['id'], 'ok': bool(o['holds'] and ctx.build_ok), 'check': o['check'], 'counts': o.get('counts')})
    failed = gen.get('c07_failed', [])
    ctx.gen_info = {'c07_summary': gen.get('c07_obligations', {}).get('summary'), 'failed_ids': [f.get('id') for f in failed]}
    res = c07_oracle.run(ctx.seed, ctx.tier)
    viol = res['violations']
    ctx.statement['c07-figure-tax'] = {
        'checked': sum(v for v in res['checked'].values() if isinstance(v, int)) if isinstance(res['checked'], dict) else int(res['checked']),
        'violations': len(viol), 'detail': res['checked'],
        'distinct_nontrivial': sum(v for v in res['checked'].values() if isinstance(v, int)) if isinstance(res['checked'], dict) else int(res['checked']),
        'rule': 'the REAL figure_tax(x, status) of each year against an independent exact-Fraction copy of the bracket schedules: every table row (lo, midpoint, hi-0.01) x 5 statuses, all bracket edges +-0/0.005/0.01/1, 100000 +- 0.01, sampled incomes to 1e12, monotonicity on consecutive points, QSS == MFJ (thorough: every whole dollar below 100000)',
        'samples': res.get('samples', [])[:3]}
    seen = set()
    for v in viol:
        key = f"{v.get('year')}:{v.get('kind')}:{v.get('status')}"
        if key in seen:
            continue
        seen.add(key)
        ctx.report('figure_tax:' + key, f"figure_tax {v.get('kind')}: year {v.get('year')} status {v.get('status')} income {v.get('income')}: got {v.get('got')}, statutory {v.get('expected')}", {'kind': 'figure_tax', 'case': v})
    if not viol:
        for f in failed:
            ctx.report('obligation:' + str(f.get('id')), f"table/worksheet obligation fails: {json.dumps(f, default=str)[:400]}", {'obligation': f}, found=False)
        if not failed and (broken or not ctx.build_ok):
            ctx.report('obligation:' + (broken[0] if broken else 'build'), f'proof obligation(s) no longer check: {broken[:5]}', {'broken': broken, 'log': ctx.build_log[-1500:]}, found=False)


def oracle_c13_real(r, policy_asked):
    """demand-exactness of the prompts of one real scenario run + re-run on the written-back file"""
    import os
    import tempfile
    import solver_oracles as so
    import scenarios as sc
    from habutax import inputs as hinputs
    probs = []
    if r['exception'] is not None:
        return probs
    s = r['solver']
    asked = r['asked']
    names = [a[0] for a in asked]
    if len(set(names)) != len(names):
        dup = sorted({n for n in names if names.count(n) > 1})
        probs.append(('asked-twice', f'inputs asked more than once: {dup[:4]}'))
    reads_cache = {}
    for x, nb, ans in asked:
        for n in nb:
            if n not in reads_cache:
                reads_cache[n] = so.reads_of(s, n)
            if n in s._v.values or True:
                vlog, ilog, exc = reads_cache[n]
                if x not in ilog:
                    probs.append(('needed-by-not-reader', f'{x} was asked for on behalf of {n}, whose definition does not read it'))
    # a resumed session: half of the inputs already in the file, the rest typed at the prompt, written back
    probs += resumed_session_check(r)
    # write back and re-run: silent and identical
    fd, path = tempfile.mkstemp(suffix='.habutax', dir='/var/tmp')
    os.close(fd)
    try:
        r['store'].write(path)
        text = open(path).read()
        pol = so.FixedPolicy({})
        from habutax import solver as hsolver, forms as hforms
        store2 = hinputs.InputStore(path)
        asked2 = []

        def prompt2(missing, needed_by):
            asked2.append(missing.name())
            return (None, False)
        s2 = hsolver.Solver(store2, hforms.available_forms[r['year']], prompt=prompt2)
        out = dict(year=r['year'], forms=r['forms'], solver=s2, store=store2, cfg=store2.config, asked=[], exception=None, ok=None)
        try:
            out['ok'] = s2.solve(list(r['forms']))
        except BaseException as e:  # noqa: BLE001
            if isinstance(e, (KeyboardInterrupt, SystemExit)):
                raise
            out['exception'] = e
        answered = {a[0] for a in asked if a[2] is not None}
        again = [x for x in asked2 if x in answered]
        if again:
            probs.append(('rerun-asks-again', f're-run on the written-back file asks again for {again[:4]}'))
        refused_first = any(a[2] is None for a in asked)
        if not refused_first:
            if asked2:
                probs.append(('rerun-not-silent', f're-run asks for {asked2[:4]} although the first run was answered everything'))
            a, b = so.signature(r), so.signature(out)
            if a[:6] != b[:6]:
                probs.append(('rerun-differs', 're-run result differs: ' + so.describe_diff(a, b)))
    finally:
        os.unlink(path)
    return probs


def resumed_session_check(r):
    import os
    import random as _random
    import tempfile
    import solver_oracles as so
    import scenarios as sc
    from habutax import inputs as hinputs, solver as hsolver, forms as hforms
    probs = []
    inputs = sc.inputs_of(r)
    rng = _random.Random('resume/' + str(r.get('scenario_seed')))
    half = {k: v for k, v in inputs.items() if rng.random() < 0.5}
    fd, path = tempfile.mkstemp(suffix='.habutax', dir='/var/tmp')
    try:
        with os.fdopen(fd, 'w') as f:
            f.write(so.ini_text(half, rng))
        store = hinputs.InputStore(path)
        answered = {}

        def prompt(missing, needed_by):
            a = inputs.get(missing.name())
            if a is None:
                return (None, False)
            answered[missing.name()] = a
            return (a, True)
        s1 = hsolver.Solver(store, hforms.available_forms[r['year']], prompt=prompt)
        try:
            try:
                s1.solve(list(r['forms']))
            finally:
                store.write(path)          # what `habutax solve --writeback-input` does in its finally block
        except BaseException as e:  # noqa: BLE001
            if isinstance(e, (KeyboardInterrupt, SystemExit)):
                raise
        store2 = hinputs.InputStore(path)
        asked2 = []

        def prompt2(missing, needed_by):
            asked2.append(missing.name())
            return (None, False)
        s2 = hsolver.Solver(store2, hforms.available_forms[r['year']], prompt=prompt2)
        try:
            s2.solve(list(r['forms']))
        except BaseException as e:  # noqa: BLE001
            if isinstance(e, (KeyboardInterrupt, SystemExit)):
                raise
        again = [x for x in asked2 if x in answered]
        if again:
            probs.append(('resumed-rerun-asks-again', f'after a resumed session with write-back the re-run asks again for {again[:4]}'))
        lost = [k for k in half if k not in store2]
        if lost:
            probs.append(('resumed-lost-input', f'inputs that were in the file before the session are gone: {lost[:4]}'))
    finally:
        os.unlink(path)
    return probs


def run_C13(ctx):
    import solver_oracles as so
    import scenarios as sc
    broken = check_obligations(ctx, PROPS['C13']['theorems'])
    dis, reals, runs = tie_solver(ctx, broken)
    cli_store_check(ctx, ctx.n(500, 5000), 'the written-back file must give the re-run the inputs the first run saw')
    bad, checked, prompts_seen = [], 0, 0
    # generated programs: every prompt is for an input that is absent and read by the lines quoted
    for c, real, solver, log, prompts in reals:
        if not real[0].startswith('verdict abort'):
            checked += 1
            file_keys = {k for k, _ in c.inp}
            seen = set()
            for x, nb, ans in prompts:
                prompts_seen += 1
                if x in file_keys:
                    bad.append(('toy', c.protocol(), f'{x} was asked for although the file supplies it'))
                if x in seen:
                    bad.append(('toy', c.protocol(), f'{x} was asked for twice'))
                seen.add(x)
                if not nb:
                    bad.append(('toy', c.protocol(), f'{x} was asked for on behalf of no line'))
    # shipped forms: mixed file / prompt runs
    nreal = 0
    for r in runs[:ctx.n(30, 400)]:
        if r['exception'] is not None:
            continue
        nreal += 1
        checked += 1
        prompts_seen += len(r['asked'])
        for key, msg in oracle_c13_real(r, None):
            bad.append(('scenario', dict(scenario_replay(r), problem=key), msg))
        # inputs never read are not required: drop them and re-solve (no prompt)
        s = r['solver']
        read = set()
        for n in s._v.values:
            _, ilog, _ = so.reads_of(s, n)
            read.update(ilog)
        inputs = sc_inputs(r)
        needed = {k: v for k, v in inputs.items() if k in read}
        if r['ok'] and len(needed) < len(inputs):
            r2 = so.rerun_with(r, file_inputs=needed)
            if so.signature(r2)[:6] != so.signature(so.rerun_with(r, file_inputs=inputs))[:6]:
                bad.append(('scenario', dict(scenario_replay(r), problem='unread-input-matters'),
                            'removing inputs that no evaluated line read changes the result'))
    ctx.statement['c13-prompts'] = {
        'checked': checked, 'prompts_examined': prompts_seen, 'violations': len(bad), 'distinct_nontrivial': nreal,
        'rule': 'generated programs with prompt scripts and shipped-form scenarios answered by prompt: asked only if absent, once, for lines that read the input; write back with the real InputStore.write, re-read, re-solve: no answered input asked again, silent and identical when nothing was refused; dropping never-read inputs changes nothing; non-trivial = shipped-form scenario',
        'samples': [{'year': r['year'], 'prompts': len(r['asked'])} for r in runs[:2]]}
    for kind, rep, p in bad:
        ctx.report('prompt:' + p[:60], p, {'kind': kind, 'case': rep})
    finish_tie(ctx, broken, dis, found=bool(bad))


def run_C06(ctx):
    import tracker_stream
    import toy
    broken = check_obligations(ctx, PROPS['C06']['theorems'])
    r = tracker_stream.run(ctx.seed, ctx.n(1500, 20000), common.run_driver, exhaustive_len=ctx.n(4, 6))
    ctx.streams['tracker'] = {'cases': r['cases'], 'disagreements': len(r['disagreements']),
                              'distribution': {k: v for k, v in r['distribution'].items() if k in ('ok', 'yield', 'stop', 'drained', 'true', 'false', 'KeyError')},
                              'distinct_nontrivial': r['distinct_nontrivial'], 'exhaustive_up_to_length': ctx.n(4, 6),
                              'rule': 'histories of add_unmet / meet / next() on a live generator / full drain / queries on the real DependencyTracker vs the Lean model (random length <= 40; bounded-exhaustive over a 7-op alphabet); non-trivial = has a registration and a generator step',
                              'samples': r['samples']}
    bad = [('tracker', p['ops'], p['problem']) for p in r['spec_problems']]
    dis, reals, runs = tie_solver(ctx, broken)
    dis = dis + [{'protocol': d['op'], 'diff': [d['model'][:5], d['real'][:5]]} for d in r['disagreements']]
    # work bounds on generated programs (real solver, counters, watchdog)
    checked = 0
    from habutax import solver as hsolver
    for k in range(ctx.n(300, 5000)):
        rng = random.Random(f'{ctx.seed}/c06-toy/{k}')
        c = toy.gen_case(rng, wild=rng.random() < 0.3)
        regs, queued = {}, {}
        orig_add = hsolver.DependencyTracker.add_unmet
        orig_unatt = hsolver.Solver._add_unattempted
        orig_attempt = hsolver.Solver._attempt_field
        orig_meet = hsolver.DependencyTracker.meet
        count = {'n': 0}
        cur, early, loads = {}, [], {'n': 0}
        orig_addform = hsolver.Solver._add_form

        def addform(self, *a, loads=loads, **k):
            loads['n'] += 1
            return orig_addform(self, *a, **k)

        def meet(self, dep, cur=cur, early=early):
            # "released ... after that dependency is met": when a tracker is told a name is met, the
            # solver must already hold the value (line) or the answer (input)
            s = cur.get('solver')
            if s is not None:
                if self is s._input_dependencies and dep not in s._i:
                    early.append(f'waiters of input {dep} were released although it has not been supplied')
                if self is s._field_dependencies and dep not in s._v.values:
                    early.append(f'waiters of line {dep} were released although it has no value')
            return orig_meet(self, dep)

        def add_unmet(self, dep, dependent, regs=regs):
            regs.setdefault(dependent.name(), []).append(dep)
            return orig_add(self, dep, dependent)

        def add_unatt(self, u, queued=queued):
            for f in (u if isinstance(u, list) else [u]):
                queued[f.name()] = queued.get(f.name(), 0) + 1
            return orig_unatt(self, u)

        def attempt(self, field, count=count, cur=cur):
            cur['solver'] = self
            count['n'] += 1
            if count['n'] > 20000:
                raise RuntimeError('watchdog: more than 20000 attempts')
            return orig_attempt(self, field)
        hsolver.DependencyTracker.add_unmet = add_unmet
        hsolver.Solver._add_unattempted = add_unatt
        hsolver.Solver._attempt_field = attempt
        hsolver.DependencyTracker.meet = meet
        hsolver.Solver._add_form = addform
        try:
            try:
                real, solver, log, prompts = c.run_real()
            except RuntimeError as e:
                bad.append(('toy', c.protocol(), str(e)))
                continue
        finally:
            hsolver.DependencyTracker.add_unmet = orig_add
            hsolver.Solver._add_unattempted = orig_unatt
            hsolver.Solver._attempt_field = orig_attempt
            hsolver.DependencyTracker.meet = orig_meet
            hsolver.Solver._add_form = orig_addform
        checked += 1
        for e in sorted(set(early)):
            bad.append(('toy', c.protocol(), e))
        if real[0].startswith('verdict abort assertion'):
            bad.append(('toy', c.protocol(), 'the solver failed its own exit assertion (pending work was never drained): ' + real[0]))
            continue
        if real[0].startswith('verdict abort'):
            continue
        asked = [p[0] for p in prompts]
        if len(set(asked)) != len(asked):
            bad.append(('toy', c.protocol(), f'an input was asked for more than once: {asked}'))
        attempts = {}
        for _, n in log:
            attempts[n] = attempts.get(n, 0) + 1
        for n, a in attempts.items():
            distinct = len(set(regs.get(n, [])))
            copies = max(1, queued.get(n, 1))
            # the proved bound (SolverTermination.attempt_bound): pushes * (1 + distinct waits) + retries, a retry
            # being an evaluation that made the solver load another form's specifications
            if a > copies * (1 + distinct) + loads['n']:
                bad.append(('toy', c.protocol(), f'{n} was evaluated {a} times; it was queued {copies} time(s), waited on {distinct} distinct things and {loads["n"]} form loads happened'))
        # every registered wait on something that got met was released: at the end no tracker holds a met name
        if solver._field_dependencies.has_met() or solver._input_dependencies.has_met():
            bad.append(('toy', c.protocol(), 'a met dependency was never drained'))
        for dep, ws in solver.unmet_field_dependencies().items():
            if dep in solver._v.values:
                bad.append(('toy', c.protocol(), f'lines {ws} still wait on {dep}, which has a value (lost wake-up)'))
        for dep, ws in solver.unmet_input_dependencies().items():
            if dep in solver._i:
                bad.append(('toy', c.protocol(), f'lines {ws} still wait on input {dep}, which has been supplied (lost wake-up)'))
    for rr in runs:
        if rr['exception'] is None:
            s = rr['solver']
            checked += 1
            for dep, ws in s.unmet_field_dependencies().items():
                if dep in s._v.values:
                    bad.append(('scenario', scenario_replay(rr), f'lines {ws} still wait on {dep}, which has a value'))
            names = [a[0] for a in rr['asked']]
            if len(set(names)) != len(names):
                bad.append(('scenario', scenario_replay(rr), 'an input was asked for more than once'))
    ctx.statement['c06-work'] = {
        'checked': checked, 'violations': len(bad), 'distinct_nontrivial': checked,
        'rule': 'real solver on generated programs (cycles, self-reference, unknown names, refusing prompts) with a 20000-attempt watchdog, per-line attempt counters against the proved bound queued x (1 + distinct waits) + form loads, prompt counters, every tracker.meet checked against the stores (no release before the dependency is met), lost wake-up check at exit; real tracker histories against the multiset specification',
        'samples': [{'tracker_history': r['samples'][0][:10]}] if r['samples'] else [{}]}
    for kind, rep, p in bad:
        ctx.report('work:' + p[:60], p, {'kind': kind, 'case': rep})
    finish_tie(ctx, broken, dis, found=bool(bad))



def tie_cli(ctx, n):
    import cli_stream
    r = cli_stream.run(ctx.seed, n, common.run_driver, prefix='cli ')
    r['violations'] = [d for d in r['disagreements'] if d.get('model') == '-']
    r['disagreements'] = [d for d in r['disagreements'] if d.get('model') != '-']
    ctx.streams['cli'] = {
        'cases': r['cases'], 'disagreements': len(r['disagreements']), 'distribution': dict(list(r['distribution'].items())[:50]),
        'distinct_nontrivial': r.get('distinct_nontrivial', r['cases']), 'property_violations': len(r.get('violations', [])),
        'rule': 'real InputStore on real temp files (random initial text, answers, write) vs sessionFile byte for byte; real habutax.solve(args) in-process with scripted input(), interrupted at EVERY prompt index with KeyboardInterrupt / EOFError / RuntimeError / unsupported form / failing line, file on disk vs sessionFile(initial, answers so far), parse-back and re-run; solution files: to_config + meta + write + fill_pdfs-style read vs toConfig/attachMeta/readBack',
        'samples': r.get('samples', [])[:2]}
    return r


def oracle_c14(year, solver):
    """written solution read back through the same year's line definitions (as the PDF filler does)"""
    import configparser
    import io
    from habutax import forms as hforms, form as hform
    probs = []
    solution = solver.solution()
    solution['habutax'] = {'tax_year': year, 'version': '0.2.1'}
    buf = io.StringIO()
    solution.write(buf)
    back = configparser.ConfigParser(interpolation=None)
    back.read_file(io.StringIO(buf.getvalue()))
    if back.getint('habutax', 'tax_year') != year:
        probs.append(('year', f'tax year written {year}, read back {back.get("habutax", "tax_year")}'))
    back.remove_section('habutax')
    fmap = {f.form_name: f for f in hforms.available_forms[year]}
    seen = set()
    for sec in back:
        if sec == 'DEFAULT':
            continue
        cls, inst = hform.name_and_instance(sec)
        form = fmap[cls](instance=inst)
        fields = {f.name(): f for f in form.fields()}
        for key in back[sec]:
            full = f'{sec}.{key}'
            seen.add(full)
            if full not in fields:
                probs.append(('unknown:' + full, f'{full} read back but the form has no such line'))
                continue
            try:
                got = fields[full].from_string(back[sec][key])
            except Exception as e:  # noqa: BLE001
                probs.append(('raises:' + full, f'{full}: reading back {back[sec][key]!r} raises {type(e).__name__}'))
                continue
            want = solver._v.values.get(full)
            ok = same_value(got, want) or (isinstance(want, str) and isinstance(got, str) and got.strip() == want.strip()) \
                or (want is None and got is None) or (hasattr(want, 'name') and hasattr(got, 'name') and got.name == want.name)
            if not ok:
                probs.append(('value:' + full, f'{full}: solved {want!r}, read back {got!r}'))
    missing = [k for k in solver._v.values if k not in seen]
    if missing:
        probs.append(('missing', f'solved lines absent from the written solution: {missing[:4]}'))
    return probs


def oracle_c14_values():
    """every line type x adversarial values through the real to_string / configparser / from_string"""
    import configparser
    import io
    from habutax import fields as hf, enum as henum
    probs, checked = [], 0

    class FakeForm:
        def name(self):
            return 'f'
    floats = [0.0, -0.0, 0.01, -0.01, 1234.56, -98765.43, 1e15, 123456789012.34, 1e-7, 0.005, 2.675, 1.005, 99999999.99, 3e20]
    cases = [('str', hf.StringField('l', lambda s, i, v: None), ['x', 'two words', 'multi\nline', '  padded  ', 'semi;colon', 'hash # inside', '100%', 'a=b', '[x]', '']),
             ('bool', hf.BooleanField('l', lambda s, i, v: None), [True, False]), ('int', hf.IntegerField('l', lambda s, i, v: None), [0, 7, -3, 10 ** 30, 2 ** 53 + 1]),
             ('float2', hf.FloatField('l', lambda s, i, v: None), [round(x, 2) for x in floats]),
             ('float0', hf.FloatField('l', lambda s, i, v: None, places=0), [round(x, 0) for x in floats]),
             ('float5', hf.FloatField('l', lambda s, i, v: None, places=5), [round(x, 5) for x in floats]),
             ('enum', hf.EnumField('l', henum.filing_status, lambda s, i, v: None), list(henum.filing_status) + [None])]
    for name, f, vals in cases:
        f.__form_init__(FakeForm())
        for v in vals:
            checked += 1
            cp = configparser.ConfigParser(interpolation=None)
            try:
                cp['f'] = {}
                cp['f']['l'] = f.to_string(v)
                buf = io.StringIO()
                cp.write(buf)
                cp2 = configparser.ConfigParser(interpolation=None)
                cp2.read_file(io.StringIO(buf.getvalue()))
                got = f.from_string(cp2['f']['l'])
            except Exception as e:  # noqa: BLE001
                probs.append((f'{name}:{v!r}', f'{name} value {v!r} does not survive write/read: {type(e).__name__}: {str(e)[:80]}'))
                continue
            ok = same_value(got, v) or (isinstance(v, str) and got.strip() == v.strip()) or (v is None and got is None) \
                or (hasattr(v, 'name') and got is v)
            if isinstance(v, float) and isinstance(got, float) and str(got) != str(v):     # -0.0 vs 0.0
                ok = ok and (got == 0.0 and v == 0.0)
            if not ok:
                probs.append((f'{name}:{v!r}', f'{name} value {v!r} reads back as {got!r}'))
    return probs, checked


def run_C14(ctx):
    broken = check_obligations(ctx, PROPS['C14']['theorems'])
    r = tie_cli(ctx, ctx.n(900, 9000))
    dis = list(r['disagreements'])
    dis += run_stream(ctx, 'fields_stream', 'inp', ctx.n(6000, 60000), 'fields', 'Field.to_string / from_string / value: real classes vs Lean model')
    dis += run_stream(ctx, 'f64_stream', 'f64', ctx.n(20000, 300000), 'f64', "binary64 arithmetic, round(x, n), '%.nf', float(str), sum: CPython vs the Lean softfloat, bit for bit")
    runs = real_runs(ctx, ctx.n(45, 600))
    bad, checked = [], 0
    for rr in runs:
        if rr['exception'] is None:
            checked += 1
            try:
                for key, msg in oracle_c14(rr['year'], rr['solver']):
                    bad.append((key, msg, scenario_replay(rr)))
            except Exception as e:  # noqa: BLE001
                bad.append(('solution-raises', f'writing / reading the solution raises {type(e).__name__}: {str(e)[:100]}', scenario_replay(rr)))
    vprobs, vchecked = oracle_c14_values()
    for key, msg in vprobs:
        bad.append((key, msg, {'kind': 'value', 'case': key}))
    ctx.statement['c14-readback'] = {
        'checked': checked + vchecked, 'violations': len(bad), 'distinct_nontrivial': checked,
        'rule': 'every finished real solve is written as a solution (to_config + habutax section + write) and read back through the same year line definitions as the PDF filler does; plus every line type x adversarial values (negative, zero, huge, tiny, multi-line text, every enum member and the empty choice) through to_string / configparser / from_string; non-trivial = real solution',
        'samples': [{'year': rr['year'], 'values': len(rr['solver']._v.values)} for rr in runs[:2]]}
    for key, msg, rep in bad:
        ctx.report('readback:' + key, msg, {'kind': 'solution', 'case': rep})
    if not bad:
        if dis:
            rb = [d for d in dis if isinstance(d, dict) and str(d.get('op', '')).startswith('cli readback')]
            if rb:
                ctx.report('readback:solution-file', 'a written solution file is read back by fill_pdfs differently from what was written (hex of the file in the replay): model ' + str(rb[0].get('model'))[:120] + ' / real ' + str(rb[0].get('real'))[:120],
                           {'kind': 'solution-file', 'case': rb[0]})
            else:
                ctx.report('correspondence:cli/fields/f64', 'model and real code disagree: ' + str(dis[0])[:300], {'disagreement': dis[0]}, found=False)
        elif broken:
            ctx.report('obligation:' + broken[0], f'proof obligation(s) no longer check: {broken[:5]}', {'broken': broken}, found=False)


def run_C20(ctx):
    broken = check_obligations(ctx, PROPS['C20']['theorems'])
    r = tie_cli(ctx, ctx.n(1500, 12000))
    viol = r.get('violations', [])
    ctx.statement['c20-sessions'] = {
        'checked': r['cases'], 'violations': len(viol), 'distinct_nontrivial': r.get('distinct_nontrivial', r['cases']),
        'rule': 'real `habutax solve --prompt-missing --writeback-input` sessions in-process, interrupted at every prompt index k by each kind of interruption; afterwards the file must parse, contain every earlier value and every answer given before the interruption, and a re-run must not ask for those again',
        'samples': r.get('samples', [])[:2]}
    for v in viol:
        ctx.report('session:' + str(v)[:70], str(v)[:400], {'kind': 'session', 'case': v})
    if not viol:
        if r['disagreements']:
            ctx.report('correspondence:cli', 'session model and real CLI disagree: ' + str(r['disagreements'][0])[:300], {'disagreement': r['disagreements'][0]}, found=False)
        elif broken:
            ctx.report('obligation:' + broken[0], f'proof obligation(s) no longer check: {broken[:5]}', {'broken': broken}, found=False)



def tie_f64_cents(ctx, n):
    return run_stream(ctx, 'f64_stream', 'f64', n, 'f64',
                      "binary64 arithmetic, round(x, n), '%.nf', float(str), sum, and the CENTS family (cent-valued operands, chains of +-terms, max/min with 0.0, comparisons at equal/adjacent cents; lemma conclusions checked on the CPython result): CPython vs the Lean softfloat, bit for bit")


def run_C15(ctx):
    import tax_oracles as to
    broken = check_obligations(ctx, PROPS['C15']['theorems'])
    runs = real_runs(ctx, ctx.n(60, 900))
    dis = tie_real(ctx, runs)
    dis += [{'diff': str(d)[:400]} for d in tie_f64_cents(ctx, ctx.n(20000, 300000))]
    bad, checked, solved = [], 0, 0
    extra = []
    import scenarios as sc
    for k in range(ctx.n(40, 600)):        # scenarios aimed at refunds / amounts owed / applied-to-next-year
        year = (2021, 2022, 2023)[k % 3]
        sd = f'{ctx.seed}/c15/{k}'
        pol, kind = sc.gen_policy(sd, year, kind=['plain', 'itemize', 'rich', 'deps', 'hsa', 'invest', 'invest'][k % 7])
        pol.fixed['1040.apply_to_estimated_tax'] = ['0', '', '250', '1000.55', '5000', '99999'][(k // 3) % 6]
        pol.fixed['estimated_tax_payments'] = ['0', '1500', '12000.5', '40000'][(k // 18) % 4]
        if not k % 4:
            pol.fixed.setdefault('1040.number_1098', '1')     # NC Schedule A line 1 needs a Form 1098 (int/float TypeError otherwise)
        r = sc.run(year, sc.request_for(sd, year, kind) if k % 4 else ['1040', 'nc_d-400'], pol)
        r['kind'], r['scenario_seed'] = kind, sd
        extra.append(r)
    # 2021 returns with child-tax-credit dependents only solve with CONSISTENT Schedule 8812 answers (children counted on
    # line 4a, principal abode, Letter 6419): give them explicitly, with advance payments below, at and above the credit
    for rep in range(ctx.n(4, 12)):
        sd = f'{ctx.seed}/c15/deps2021/{rep}'
        pol, kind = sc.gen_policy(sd, 2021, kind='deps')
        k = 1 + rep % 3
        pol.fixed.update({'1040.number_dependents': str(k), 'dependent_0_ctc': 'yes', 'dependent_1_ctc': 'yes', 'dependent_2_ctc': 'yes',
                          'dependent_3_ctc': 'yes', 'number_under_18': str(k), 'number_under_6': str(rep % 2), 'principal_abode_us': 'yes',
                          'resident_puerto_rico': 'no', 'number_children_letter': str(k),
                          'advance_ctc_payments': ['0', '900', '1800', '9000'][rep % 4]})
        r = sc.run(2021, ['1040'], pol)
        r['kind'], r['scenario_seed'] = 'deps-2021', sd
        extra.append(r)
    # the NC consumer-use-tax worksheet with records: credit for tax paid elsewhere below, near and above the NC tax
    for year in (2021, 2022, 2023):
        for j, (purch, pct, other) in enumerate([('1000', '.0725', '95'), ('250.40', '.07', '30'), ('18000', '.075', '0'), ('5000', '.0675', '337.5')]):
            sd = f'{ctx.seed}/c15/usetax/{year}/{j}'
            pol, kind = sc.gen_policy(sd, year, kind='plain')
            pol.fixed.update({'1040.number_1098': '1', 'no_consumer_use_tax': 'no', 'full_records': 'yes', 'out_of_state_purchases': purch,
                              'county_tax_pct': pct, 'other_state_sales_tax': other})
            r = sc.run(year, ['1040', 'nc_d-400'], pol)
            r['kind'], r['scenario_seed'] = 'nc-usetax', sd
            extra.append(r)
    # the form-exercising scenario families of the C02 oracle (IRA distributions / Roth conversions with basis: Form 8606;
    # high wages: Form 8959; children with credits: Schedule 8812; NC itemizing; low-income investment returns: Form 8995
    # floors; "everything"): the sign statement is about EVERY line, so every optional form has to be reached
    import c02_oracle
    for year in (2021, 2022, 2023):
        for kind in ('ira', 'highwage', 'deps_rich', 'nc_itemize', 'lowinvest', 'everything'):
            for idx in range(ctx.n(3, 16)):
                pol, forms, on = c02_oracle.mk_scenario(f'{ctx.seed}/c15', year, kind, idx)
                r = sc.run(year, forms, pol)
                r['kind'], r['scenario_seed'] = 'c02:' + kind, f'{ctx.seed}/c15/{year}/{kind}/{idx}'
                extra.append(r)
    # the recorded finding (known_findings.json): a whole after-tax balance converted to a Roth IRA, slightly more than
    # the basis -- Form 8606 line 14 comes out one cent below zero through the rounded ratio of line 10; run in every
    # year so that the finding is shown (or seen to be gone) on every run
    for year in (2021, 2022, 2023):
        pol, forms, on = c02_oracle.mk_scenario(f'{ctx.seed}/c15', year, 'ira', 2)
        pol.fixed.update({'8606:you.distribution_or_roth_conversion': 'yes', '8606:you.nondeductible_contributions': '7000',
                          '8606:you.traditional_basis': '0', '8606:you.nondeductible_contributions_next_year': '0',
                          '8606:you.year_end_value_non_roth': '0', '8606:you.net_converted': '7012', '8606:you.part_2_needed': 'yes',
                          f'8606:you.distributions_{year}': '0'})
        r = sc.run(year, forms, pol)
        r['kind'], r['scenario_seed'] = 'c02:ira-basis-cent', f'{ctx.seed}/c15/{year}/ira-basis-cent'
        extra.append(r)
    for r in runs + extra:
        if r['exception'] is None and r['ok'] and to.nonneg_inputs(r):
            solved += 1
            for key, msg in to.oracle_c15(r):
                bad.append((key, msg, scenario_replay(r)))
    ctx.statement['c15-balance'] = {
        'checked': solved, 'violations': len(bad), 'distinct_nontrivial': solved,
        'rule': 'every solved real return (non-negative input amounts): federal balance identities in exact cents (34-37 = 33-24, not both positive, 35a+36 = 34), NC likewise (26a/28/33/34 vs 19/25), and every float line non-negative except the documented signed helper nc_d-400.refund; scenarios include refunds, amounts owed, apply-to-next-year above and below the overpayment, estimated payments, itemizing, NC',
        'samples': [{'year': r['year'], 'kind': r.get('kind')} for r in (runs + extra)[:2]]}
    # sign analysis: lines of the reviewed baseline that can no longer be proved not-negative (tools/gen_c15_sign.py)
    lost = (ctx.gen_info or {}).get('c15_sign_failed') or []
    ctx.gen_info = dict(ctx.gen_info or {}, c15_sign_failed=[f"{f.get('year')} {f.get('variant')} {f.get('line')}" for f in lost][:40])
    seen_lost = set()
    for f in lost:
        line = str(f.get('line'))
        name = f"Gen.c15_sign_{f.get('year')}_{f.get('variant')}_{line}"
        ctx.obligations.append({'name': name, 'ok': False, 'check': f"was provably not negative on the reviewed tree, no longer is: {str(f.get('reason'))[:200]}"})
        if (f.get('year'), line) in seen_lost:
            continue
        seen_lost.add((f.get('year'), line))
        hit = next(((k, m, rep) for k, m, rep in bad if k.endswith(':' + line)), None)
        what = f"{f.get('year')} {line} was provably never negative and no longer is: {str(f.get('reason'))[:200]}"
        if hit is not None:
            ctx.report('sign:' + str(f.get('year')) + ':' + line, what + '; on a real return: ' + hit[1], {'kind': 'scenario', 'case': hit[2], 'obligation': name})
    for key, msg, rep in bad:
        ctx.report('balance:' + key, msg, {'kind': 'scenario', 'case': rep})
    if lost and not ctx.violations:
        f = lost[0]
        ctx.report(f"sign:{f.get('year')}:{f.get('line')}", f"{len(seen_lost)} line(s) that were provably never negative on the reviewed tree no longer are (first: {f.get('year')} {f.get('line')}: {str(f.get('reason'))[:160]}); the explored returns show no negative amount",
                   {'obligations': [f"{x.get('year')} {x.get('variant')} {x.get('line')}" for x in lost][:40]}, found=False)
    finish_tie(ctx, broken, dis, found=bool(bad))



def report_failed_obligations(ctx, tag, failed, describe):
    """FAILED-OBLIGATION entries of a generator: each is a violation (with the generator's witness as
    the replay) unless it is a recorded known finding, in which case its `_rest` theorem discharges it"""
    n = 0
    for f in failed:
        fid = str(f.get('id'))
        known = ctx.matches_known(fid) is not None
        ctx.report(fid, describe(f), {'obligation': fid, 'witness': f.get('witnesses', f.get('witness', f))})
        n += 1
        for o in ctx.obligations:
            if o['name'] == 'Gen.' + fid and known:
                o['ok'] = ctx.build_ok
                o['note'] = 'fails exactly at a recorded known finding; the negation and the `_rest` theorem over the other points are proved'
    return n


def oracle_c02_nc_child_table():
    """NC Child Deduction Worksheet line 4 ("enter the deduction amount per child from the Child Deduction Table") is
    a LOOK-UP instruction, which the instruction matcher does not certify; the table is transcribed in the citation
    table (tools/c08_statutory.json, nc_child_agi_limit_k / nc_child_amount_k, limits INCLUSIVE: "Up to $Y").  The real
    line is evaluated for every year and filing status at every limit, one dollar either side, 0 and above the table
    (seed C02g: a closed formula with floor division that moves an AGI exactly on a limit into the next band)."""
    import c07_oracle
    from habutax import forms as hforms
    table = json.load(open(os.path.join(VERIF, 'tools', 'c08_statutory.json')))['amounts']
    ent = {e['id']: e for e in table if e['id'].startswith('nc_child_')}
    probs, checked = [], 0

    class M(dict):
        def __getitem__(self, k):
            if k in self.keys():
                return dict.__getitem__(self, k)
            return dict.__getitem__(self, k.split('.', 1)[1])
    for year in (2021, 2022, 2023):
        cls = next((f for f in hforms.available_forms[year] if f.form_name == 'nc_d-400_child_deduction_wkst'), None)
        if cls is None:
            continue
        form = cls()
        line4 = next((f for f in form.fields() if f.base_name() == '4'), None)
        if line4 is None:
            probs.append((f'nc-child-table:{year}:absent', f'{year}: the Child Deduction Worksheet has no line 4', {'year': year}))
            continue
        _, members = c07_oracle.load_year(year)
        for st, member in members.items():
            ks = [k for k in range(1, 10) if str(year) in ent.get(f'nc_child_agi_limit_{k}', {}).get('values', {})
                  and str(year) in ent.get(f'nc_child_amount_{k}', {}).get('values', {})]
            limits = [float(ent[f'nc_child_agi_limit_{k}']['values'][str(year)][st]) for k in ks]
            amounts = [float(ent[f'nc_child_amount_{k}']['values'][str(year)].get(st, ent[f'nc_child_amount_{k}']['values'][str(year)].get('all'))) for k in ks]
            pts = sorted({0.0, 12345.0, limits[-1] + 25000.0} | {l + d for l in limits for d in (-1.0, 0.0, 1.0)})
            for agi in pts:
                want = next((a for l, a in zip(limits, amounts) if agi <= l), 0.0)
                checked += 1
                try:
                    got = line4.value(M({'1040.filing_status': member}), M({'2': agi, 'nc_d-400.6': agi}))
                except BaseException as e:  # noqa: BLE001
                    if isinstance(e, (KeyboardInterrupt, SystemExit)):
                        raise
                    got = f'{type(e).__name__}: {e}'
                if got != want:
                    probs.append((f'nc-child-table:{year}:{st}', f'{year} nc_d-400_child_deduction_wkst.4, {member.name}, federal AGI {agi:.0f}: the Child Deduction Table says {want:.0f} per child, the line gives {got}',
                                  {'year': year, 'status': member.name, 'federal_agi': agi, 'expected': want, 'got': str(got)}))
                    break
    return probs, checked


def run_C02(ctx):
    import c02_oracle
    broken = check_obligations(ctx, PROPS['C02']['theorems'])
    gen = ctx.gen_info
    for f in gen.get('failed', []):
        ctx.notes.append('generator failure: ' + str(f)[:500])
    obl = gen.get('c02_obligations', {})
    # instructions the matcher cannot certify are decided by the oracle only and are NOT counted as proof obligations --
    # but only those of the reviewed baseline: a line that WAS certified and no longer is, is an obligation that broke
    base = json.load(open(os.path.join(os.path.dirname(os.path.dirname(os.path.abspath(__file__))), 'c02_uncovered.json')))
    base_keys = {(int(y), f, str(l)) for y, f, l, _r in base['uncovered']}
    lost, oracle_only = [], []
    for o in obl.get('obligations', []):
        if o.get('status') == 'uncovered':
            if (int(o['year']), o['form'], str(o['line'])) in base_keys:
                oracle_only.append(o['id'])
                continue
            lost.append(o)
        ok = o.get('status') not in ('failed', 'uncovered') and ctx.build_ok
        ctx.obligations.append({'name': 'Gen.' + o['id'], 'ok': bool(ok), 'check': f"{o.get('status')}: {o['year']} {o['form']}.{o['line']} vs {o.get('instruction', {}).get('op')}"})
    failed = gen.get('c02_failed', [])
    ctx.gen_info = {'totals': obl.get('totals'), 'summary': obl.get('summary'), 'failed_ids': [f.get('id') for f in failed],
                    'oracle_only_instructions': len(oracle_only), 'no_longer_certified': [o['id'] for o in lost]}
    res = c02_oracle.run(ctx.seed, ctx.tier)
    ctx.statement['c02-instructions'] = {
        'checked': sum(res['checked'].values()), 'distinct_nontrivial': sum(res['nontrivial'].values()),
        'violations': res['violation_count'], 'by_op': res['checked'], 'scenarios': res['scenarios'],
        'coverage_totals': res['coverage_totals'], 'never_checked': res['never_checked'][:40],
        'table': res['table'],
        'rule': 'every instruction of the table (template accessibility text parsed by a fixed pattern set + cited transcriptions) applied, in exact rational arithmetic, to the values of a REAL solution; the line must be the nearest multiple of its unit; one case = one (solution, line) pair; non-trivial = an operand is non-zero',
        'samples': res.get('samples', [])[:2]}
    okey = lambda v: f"c02_{v['year']}_{v['form'].split(':')[0]}_{v['line']}".replace('-', '_').replace('.', '_')
    by_key = {}
    for v in res['violations']:
        by_key.setdefault(okey(v), v)
    reported = 0
    for f in failed:
        fid = str(f.get('id'))
        w = f['witnesses'][0]
        what = f"{f['year']} {f['form']}.{f['line']}: the code computes {w.get('code_computes')} but the form says {w.get('form_says')} ({w.get('source', '')[:80]})"
        v = by_key.pop(fid, None)
        if v is not None:
            what += f"; on a real solution the line is {v.get('got')} where the instruction gives {v.get('expected')} on the solution's own values {v.get('operands')}"
            rep = {'kind': 'scenario', 'case': dict(v.get('replay', {}), kind='scenario', observe=f"{v['form']}.{v['line']}"), 'obligation': fid, 'witness': w}
        else:
            rep = {'obligation': fid, 'witness': w}
        known = ctx.matches_known(fid) is not None
        ctx.report(fid, what, rep, found=v is not None or known)
        reported += 1
        for o in ctx.obligations:
            if o['name'] == 'Gen.' + fid and known:
                o['ok'] = ctx.build_ok
                o['note'] = 'fails exactly at a recorded known finding; the negation is proved'
    for o in lost:
        fid = str(o['id'])
        what = f"{o['year']} {o['form']}.{o['line']}: the line function can no longer be brought into the shape of the form's instruction ({o['instruction']['op']} {o['instruction']['args']}): {o.get('reason')}"
        v = by_key.pop(fid, None)
        if v is not None:
            what += f"; on a real solution the line is {v.get('got')} where the instruction gives {v.get('expected')} on the solution's own values {v.get('operands')}"
            rep = {'kind': 'scenario', 'case': dict(v.get('replay', {}), kind='scenario', observe=f"{v['form']}.{v['line']}"), 'obligation': fid}
        else:
            rep = {'obligation': fid, 'reason': o.get('reason'), 'instruction': o.get('instruction')}
        ctx.report(fid, what, rep, found=v is not None)
        reported += 1
    for key, v in by_key.items():
        ctx.report(key, f"{v['year']} {v['form']}.{v['line']} = {v.get('got')} but the form's instruction ({v['instruction']['op']} {v['instruction']['args']}) gives {v.get('expected')} on the solution's own values {v.get('operands')}",
                   {'kind': 'scenario', 'case': dict(v.get('replay', {}), kind='scenario', observe=f"{v['form']}.{v['line']}")})
        reported += 1
    tprobs, tchecked = oracle_c02_nc_child_table()
    ctx.statement['c02-nc-child-table'] = {
        'checked': tchecked, 'distinct_nontrivial': tchecked, 'violations': len(tprobs),
        'rule': 'NC Child Deduction Worksheet line 4 (a look-up instruction the matcher does not certify): the real line evaluated per year x filing status at every limit of the Child Deduction Table as transcribed in the citation table, one dollar either side, 0 and above the table',
        'samples': [{'table': 'nc_child_agi_limit_k / nc_child_amount_k of tools/c08_statutory.json'}]}
    for key, what, rep in tprobs:
        ctx.report(key, what, {'kind': 'line-evaluation', 'case': rep})
    if not ctx.build_ok and not ctx.violations:     # (known-finding hits do not count as found)
        ctx.report('obligation:build', 'generated obligations no longer build (the Python mirror of the matcher and the Lean matcher disagree, or the model changed)', {'log': ctx.build_log[-2000:]}, found=False)
    elif broken and not ctx.violations:
        ctx.report('obligation:' + broken[0], f'proof obligation(s) no longer check: {broken[:5]}', {'broken': broken}, found=False)


def run_C08(ctx):
    import c08_oracle
    broken = check_obligations(ctx, PROPS['C08']['theorems'])
    gen = ctx.gen_info
    for f in gen.get('failed', []):
        ctx.notes.append('generator failure: ' + str(f)[:500])
    obl = gen.get('c08_obligations', {})
    for o in obl.get('obligations', []):
        ctx.obligations.append({'name': 'Gen.' + o['id'], 'ok': bool(o.get('holds') and ctx.build_ok), 'check': f"{o['year']} {o['status']} {o['amount']} @ {o['site']}: {o['check']}"[:300], 'counts': {'points': o.get('points')}})
    failed = gen.get('c08_failed', [])
    ctx.gen_info = {'summary': obl.get('summary'), 'failed_ids': [f.get('id') for f in failed],
                    'unverified_amounts': [u['id'] for u in obl.get('unverified_amounts', [])],
                    'uncovered_sites': len(obl.get('uncovered_sites', [])), 'table_entries_without_site': obl.get('table_entries_without_site')}
    res = c08_oracle.run(ctx.seed, ctx.tier)
    ctx.statement['c08-amounts'] = {
        'checked': res['checked'].get('scenarios', 0) + res['checked'].get('template_amounts', 0),
        'distinct_nontrivial': res['checked'].get('triples_observed', 0), 'violations': len(res['violations']),
        'detail': res['checked'], 'not_observed': res['not_observed'][:20], 'skipped_unverified': res['skipped_unverified'],
        'rule': 'one REAL solve per (year, status, amount, site, bound): the observed line at the published amount and one cent / one dollar beyond it must show the published behaviour (value, gate, coefficient); plus every amount printed in a bundled template against the table; one case = one solve or one printed amount; non-trivial = distinct (year, status, amount) triples observed',
        'samples': res.get('samples', [])[:2]}
    by_amount = {}
    for v in res['violations']:
        by_amount.setdefault((v['year'], v['status'], v['amount']), v)
    reported = 0
    for f in failed:
        fid = str(f.get('id'))
        v = by_amount.get((f.get('year'), f.get('status'), f.get('amount')))
        if v is None:
            v = next((x for k, x in list(by_amount.items()) if k[0] == f.get('year') and k[2] == f.get('amount')), None)
        what = f"{f.get('year')} {f.get('status')} {f.get('amount')} at {f.get('site')}: {json.dumps(f.get('witness', f.get('witnesses')), default=str)[:300]}"
        known = ctx.matches_known(fid) is not None
        rep = {'obligation': fid, 'witness': f.get('witness', f.get('witnesses'))}
        if v is not None:
            rep = dict(rep, kind='scenario', case=v['replay'], published=v.get('published'), cite=v.get('cite'))
            what += f"; real solve: {json.dumps(v['problems'], default=str)[:200]}"
        ctx.report(fid, what, rep, found=v is not None or known)
        reported += 1
        for o in ctx.obligations:
            if o['name'] == 'Gen.' + fid and known:
                o['ok'] = ctx.build_ok
                o['note'] = 'fails exactly at a recorded known finding; the negation and the `_rest` theorem are proved'
    for key, v in by_amount.items():
        if any(f.get('year') == key[0] and f.get('amount') == key[2] for f in failed):
            continue
        ctx.report(f'c08_{key[0]}_{key[1]}_{key[2]}:solve', f"{v['what']}: {json.dumps(v['problems'], default=str)[:300]} (published {v.get('published')}, {str(v.get('cite'))[:100]})",
                   {'kind': 'scenario', 'case': v['replay']})
        reported += 1
    # obligations of the reviewed tree that can no longer be STATED (the site using the published amount is gone)
    expected = json.load(open(os.path.join(VERIF, 'tools', 'c08_expected_ids.json')))['ids']
    have = {o['id'] for o in obl.get('obligations', [])}
    gone = [i for i in expected if i not in have] if obl.get('obligations') else []
    ctx.gen_info['no_longer_stated'] = gone[:50]
    for fid in gone:
        ctx.obligations.append({'name': 'Gen.' + fid, 'ok': False, 'check': 'stated on the reviewed tree, cannot be stated on this one (no site uses the amount any more)'})
    for fid in gone[:8]:
        if not reported:
            ctx.report(fid, f'the obligation {fid} of the reviewed tree can no longer be stated: no line uses this published amount at that site any more, and the solves found no wrong amount', {'obligation': fid}, found=False)
            reported += 1
    for d in res['template_checks'].get('disagreements', []):
        ctx.report(f"template:{d['template']}:{d['amount']}:{d['status']}", f"{d['template']} prints {d['printed']} for {d['amount']} ({d['status']}, {d['year']}); published {d['table']}", {'template': d})
        reported += 1
    if not ctx.build_ok and not ctx.violations:     # (known-finding hits do not count as found)
        ctx.report('obligation:build', 'generated obligations no longer build (model and real code disagree on an evaluation, or the model changed)', {'log': ctx.build_log[-2000:]}, found=False)
    elif broken and not ctx.violations:
        ctx.report('obligation:' + broken[0], f'proof obligation(s) no longer check: {broken[:5]}', {'broken': broken}, found=False)


def oracle_c09_limits(ctx):
    import scenarios as sc
    import c07_oracle
    table = json.load(open(os.path.join(VERIF, 'tools', 'c08_statutory.json')))
    entries = table['amounts'] if isinstance(table, dict) and 'amounts' in table else table
    if isinstance(entries, dict):
        entries = next(v for v in entries.values() if isinstance(v, list))
    ent = next(e for e in entries if e.get('id') == 'form1116_foreign_tax_limit')
    probs, checked, nontrivial = [], 0, 0
    for year in (2021, 2022, 2023):
        _, members = c07_oracle.load_year(year)
        for st, member in members.items():
            limit = float(ent['values'][str(year)][st])
            outcome = {}
            for label, tax in (('below', limit - 25.0), ('above', limit + 25.0), ('far-above', 2 * limit - 10.0)):
                sd = f'{ctx.seed}/c09-limits/{year}/{st}'
                pol, kind = sc.gen_policy(sd, year, kind=None)
                pol.p_yes = 0.0
                pol.fixed.update({'1040.filing_status': member.name, '1040.number_1099-int': '1', '1040.number_1099-div': '0',
                                  '1099-int:0.box_6': '%.2f' % tax, 'other_foreign_gross_income': 'no',
                                  '1040.number_dependents': '0', '1040.number_w-2': '1'})
                r = sc.run(year, ['1040'], pol)
                r['kind'], r['scenario_seed'] = 'c09-limit', sd
                outcome[label] = r
                checked += 1
            ok_below = outcome['below']['exception'] is None and outcome['below']['ok']
            nontrivial += 1 if ok_below else 0
            for label in ('above', 'far-above'):
                r = outcome[label]
                if label == 'far-above' and st == 'mfj':
                    pass
                if r['exception'] is None and r['ok'] and ok_below:
                    tax = r['solver']._i['1099-int:0.box_6'] if '1099-int:0.box_6' in r['solver']._i else None
                    probs.append((f'limit:{year}:form1116:{st}', f'{year} {member.name}: foreign tax {tax} is above the Form 1116 election limit {limit:.0f} of this status (IRC 904(j)(2)(B)), yet the return is reported solved',
                                  scenario_replay(r)))
                    break
    return probs, checked, nontrivial


def run_C09(ctx):
    import c09_oracle
    sys.path.insert(0, os.path.join(VERIF, 'tools'))
    import c09_gates
    broken = check_obligations(ctx, PROPS['C09']['theorems'])
    gen = ctx.gen_info
    for f in gen.get('failed', []):
        ctx.notes.append('generator failure: ' + str(f)[:500])
    obl = gen.get('c09_obligations', {})
    counts = {}
    for y, d in sorted(obl.items()):
        if not isinstance(d, dict):
            continue
        for t in d.get('theorems', []):
            ctx.obligations.append({'name': f"Gen.C09_{y}.{t['id']}", 'ok': bool(t.get('status') in ('proved', 'extra') and ctx.build_ok),
                                    'check': f"{y} gate {t.get('gate', '')} line {t.get('class')}.{t.get('line', '')} ({t.get('mode', 'form')}): {t.get('info', '')}"[:200]})
        counts[y] = d.get('gate_status_counts')
    failed = gen.get('c09_failed', [])
    cmp_ = c09_gates.compare()
    ctx.gen_info = {'gate_status_counts': counts, 'failed_ids': [f"{f.get('year')}:{f.get('id')}" for f in failed],
                    'analysis_inconclusive': {y: d.get('analysis_inconclusive') for y, d in obl.items() if isinstance(d, dict)},
                    'survey_vs_reviewed': {y: {k: v for k, v in c.items() if isinstance(v, int)} for y, c in cmp_.items()}}
    res = c09_oracle.run(ctx.seed, ctx.tier)
    ctx.statement['c09-gates'] = {
        'checked': res['checked'], 'distinct_nontrivial': res['checked'], 'violations': len(res['violations']),
        'scenarios': res.get('scenarios'), 'unexercised': res['unexercised'], 'distribution': res.get('distribution'),
        'rule': 'for every reviewed gate (year, input, declaring answer): REAL solves of scenarios in which the gate has its declaring answer, with read-logging accessors; violation = the return SOLVED although an evaluated line read the gate; one case = one (scenario, gate) pair in which the gate was actually read',
        'samples': res.get('samples', [])[:2]}
    by_gate = {(v['year'], v['gate']): v for v in res['violations']}
    reported = 0
    for f in failed:
        fid = f"c09_{f.get('year')}_{f.get('gate', f.get('class'))}"
        v = by_gate.pop((f.get('year'), f.get('gate')), None)
        what = f"{f.get('year')} gate {f.get('gate')}: line {f.get('class')}.{f.get('line')} can return a value although the gate is affirmative ({f.get('witness')})"
        rep = {'obligation': f.get('id'), 'witness': f.get('witness')}
        if v is not None:
            rep = dict(rep, kind='scenario', case=v['replay'])
            what += '; ' + v['what']
        known = ctx.matches_known(fid) is not None
        ctx.report(fid, what, rep, found=v is not None or known)
        reported += 1
    for (y, g), v in by_gate.items():
        ctx.report(v['key'], v['what'], {'kind': 'scenario', 'case': v['replay']})
        reported += 1
    # gates that compare an AMOUNT with a statutory limit (round 7, seed C09g): the limit itself decides whether the
    # unsupported situation is recognised, so it is taken from the citation table of C08 (tools/c08_statutory.json),
    # not from the code: foreign taxes above the Form 1116 election limit of the filer's status must not solve.
    lim_probs, lim_checked, lim_nontrivial = oracle_c09_limits(ctx)
    ctx.statement['c09-statutory-limits'] = {
        'checked': lim_checked, 'distinct_nontrivial': lim_nontrivial, 'violations': len(lim_probs),
        'rule': 'per year x filing status: REAL solves of a wage return with one 1099-INT whose foreign tax (box 6) is just above / just below the Form 1116 limit of the citation table; above must not be reported solved; non-trivial = the just-below twin solved',
        'samples': [{'limits': 'form1116_foreign_tax_limit of tools/c08_statutory.json'}]}
    for key, what, rep in lim_probs:
        ctx.report(key, what, {'kind': 'scenario', 'case': rep})
        reported += 1
    for y, c in cmp_.items():
        for kind in ('gates_not_in_survey', 'gates_not_declared', 'unclassified', 'polarity_mismatch'):
            for g in c.get(kind, []):
                ctx.report(f'c09_{y}_{g}:{kind}', f'{y}: {g}: {kind} (the syntactic survey of guards and the reviewed gate list disagree: a guard was dropped, rewritten, or a new guarded input is unclassified)', {'survey': {kind: g, 'year': y}}, found=False)
                reported += 1
    if not ctx.build_ok and not ctx.violations:     # (known-finding hits do not count as found)
        ctx.report('obligation:build', 'generated obligations no longer build (Python mirror and Lean analysis disagree, or the model changed)', {'log': ctx.build_log[-2000:]}, found=False)
    elif broken and not ctx.violations:
        ctx.report('obligation:' + broken[0], f'proof obligation(s) no longer check: {broken[:5]}', {'broken': broken}, found=False)


def run_C10(ctx):
    import c10_oracle
    broken = check_obligations(ctx, PROPS['C10']['theorems'])
    gen = ctx.gen_info
    for f in gen.get('failed', []):
        ctx.notes.append('generator failure: ' + str(f)[:500])
    obl = gen.get('c10_obligations', {})
    failed = gen.get('c10_failed', [])
    incon = json.load(open(os.path.join(VERIF, 'tools', 'c10_inconclusive.json')))['sites']
    is_incon = lambda f: any(s['year'] == f.get('year') and s['class'] == f.get('class') and s['line'] == f.get('line') and s['kind'] == f.get('kind') for s in incon)
    summary = {}
    for y, d in sorted(obl.items()):
        if not isinstance(d, dict):
            continue
        for t in d.get('theorems', []):
            ctx.obligations.append({'name': f"Gen.C10_{y}.{t['id']}", 'ok': bool(t.get('status') == 'proved' and ctx.build_ok),
                                    'check': f"{y} {t.get('kind')} {t.get('class', '')}: {t.get('patterns', '')} key patterns resolve in the catalogue"})
        # the year theorem and its axioms, from the build log of the generated module
        ax = lean_tools.axioms_from_log(ctx.build_log, f'HabuVerif/Gen/C10_{y}.lean')
        name = f"HabuVerif.Gen.C10_{y}.{d.get('theorem')}"
        extra = [a for a in ax.get(name, ['<no #print axioms line>']) if a not in lean_tools.ALLOWED_AXIOMS]
        ctx.obligations.append({'name': name, 'ok': bool(not extra and ctx.build_ok), 'axioms': ax.get(name),
                                'check': 'Resolves cat<year> (all lines)' if not d.get('bad') else f"ResolvesExcept … {d.get('bad')}"})
        if extra:
            broken.append(name)
        summary[y] = {k: d.get(k) for k in ('lines', 'patterns', 'proved', 'failed', 'bad', 'absent', 'theorem')}
    ctx.gen_info = {'per_year': summary, 'failed_ids': [f"{f.get('year')}:{f.get('id')}" for f in failed],
                    'inconclusive_sites': [f"{s['year']} {s['class']}.{s['line']} ({s['kind']})" for s in incon]}
    res = c10_oracle.run(ctx.seed, ctx.tier)
    ctx.statement['c10-references'] = {
        'checked': res['checked'], 'distinct_nontrivial': res['checked'], 'violations': len(res['violations']),
        'static_cross_check': {y: {k: (len(v) if isinstance(v, list) else v) for k, v in d.items()} for y, d in res.get('static', {}).items()},
        'distribution': res.get('distribution'),
        'rule': '(a) independent static cross-check: string keys passed to v[...]/i[...]/threshold(...) in the Python AST of the form modules, f-strings expanded over the ranges in the source, against the real Form.fields()/inputs()/thresholds; (b) for every failing obligation a search for a real solve that reaches it; (c) random real solves: any abort by RecursionError / the solver\'s AssertionError / AttributeError / NameError / KeyError / ValueError(unpack) is a violation; one case = one reference checked or one solve',
        'samples': res.get('samples', [])[:2]}
    wit = {(w.get('year'), w.get('class'), w.get('line')): w for w in res.get('witnesses', []) if w.get('class')}
    reported = 0
    for f in failed:
        fid = f"c10_{f.get('year')}_{f.get('class')}_{f.get('line')}_{f.get('kind')}"
        w = wit.get((f.get('year'), f.get('class'), f.get('line')), {})
        confirmed = str(w.get('status', '')).startswith('CONFIRMED')
        if is_incon(f):
            if confirmed:
                ctx.report(fid, f"{f.get('year')} {f.get('class')}.{f.get('line')}: {json.dumps(f.get('witness'), default=str)[:200]}; {w.get('status')}",
                           {'kind': 'scenario', 'case': (w.get('search') or {}).get('replay'), 'obligation': f.get('id')})
                reported += 1
            else:
                ctx.notes.append(f"{fid}: analysis-inconclusive site (tools/c10_inconclusive.json), decided by the oracle: {w.get('status', 'no failing input')}")
                for o in ctx.obligations:
                    if o['name'].endswith('.' + str(f.get('id'))) or (f.get('kind') == 'scan' and o['name'] == f"Gen.C10_{f.get('year')}.s_{f.get('class')}"):
                        o['ok'] = ctx.build_ok
                        o['note'] = 'analysis-inconclusive site (reviewed list); the negation of the syntactic check is proved, the property is decided by the oracle here'
            continue
        what = f"{f.get('year')} {f.get('class')}.{f.get('line')} ({f.get('kind')}): {json.dumps(f.get('witness'), default=str)[:300]}"
        rep = {'obligation': f.get('id'), 'witness': f.get('witness')}
        if confirmed and (w.get('search') or {}).get('replay'):
            rep = dict(rep, kind='scenario', case=w['search']['replay'])
            what += '; ' + str(w.get('status'))
        known = ctx.matches_known(fid) is not None
        ctx.report(fid, what, rep, found=confirmed or known)
        reported += 1
    for v in res['violations']:
        key = f"{v['key']}@{v.get('where', '')}"
        rp = v.get('replay')
        ctx.report(key, v['what'], {'kind': 'scenario', 'case': rp} if isinstance(rp, dict) else {'oracle': {k: v[k] for k in v if k != 'replay'}})
        reported += 1
    for y, d in res.get('static', {}).items():
        for u in d.get('static_only', []):
            ctx.report(f'c10_{y}_static_only_{u}', f'{y}: the AST cross-check finds an unresolved reference the Lean analysis does not report: {u}', {'static_only': u}, found=False)
            reported += 1
    if not ctx.build_ok and not ctx.violations:     # (known-finding hits do not count as found)
        ctx.report('obligation:build', 'generated obligations no longer build (Python mirror and Lean analysis disagree, or the model changed)', {'log': ctx.build_log[-2000:]}, found=False)
    elif broken and not ctx.violations:
        ctx.report('obligation:' + broken[0], f'proof obligation(s) no longer check: {broken[:5]}', {'broken': broken}, found=False)


def run_C16(ctx):
    import tax_oracles as to
    import scenarios as sc
    broken = check_obligations(ctx, PROPS['C16']['theorems'])
    runs = []
    for k in range(ctx.n(36, 500)):
        year = (2021, 2022, 2023)[k % 3]
        sd = f'{ctx.seed}/c16/{k}'
        pol, kind = sc.gen_policy(sd, year, kind=['rich', 'itemize', 'plain', 'deps', 'rich', 'hsa'][(k // 3) % 6])
        # make copies of payer forms likely: 2-3 of some kinds
        for f in ('w-2', '1099-int', '1099-div', '1099-r', '1098'):
            if sc.h01(sd, f, 'copies') < 0.45:
                pol.fixed[f'1040.number_{f}'] = str(2 + int(sc.h01(sd, f, 'n') * 2))
        if not k % 5:
            pol.fixed.setdefault('1040.number_1098', '1')
        r = sc.run(year, ['1040'] if k % 5 else ['1040', 'nc_d-400'], pol)
        r['kind'], r['scenario_seed'], r['policy'] = kind, sd, pol
        runs.append(r)
    dis = tie_real(ctx, runs)
    dis += [{'diff': str(d)[:400]} for d in tie_f64_cents(ctx, ctx.n(15000, 200000))]
    # federal + NC returns with children for every year and filing status (NC child deduction bands, credits)
    for year in (2021, 2022, 2023):
        for st in sc.STATUS_MEMBERS[year]:
            for rep in range(ctx.n(1, 4)):
                sd = f'{ctx.seed}/c16/nc/{year}/{st}/{rep}'
                pol, kind = sc.gen_policy(sd, year, kind='deps')
                pol.fixed.update({'1040.filing_status': st, '1040.number_dependents': str(1 + rep % 2), 'dependent_0_ctc': 'yes',
                                  'dependent_1_ctc': 'yes', '1040.number_w-2': '1',
                                  # NC Schedule A line 1 raises TypeError (int in a money line) when there is no Form 1098
                                  '1040.number_1098': '1',
                                  # wages are the only income, so that every step threshold can be reached by moving them
                                  '1040.number_1099-int': '0', '1040.number_1099-div': '0', '1040.number_1099-r': '0',
                                  '1040.number_1099-g': '0'})
                r = sc.run(year, ['1040', 'nc_d-400'], pol)
                r['kind'], r['scenario_seed'], r['policy'] = 'nc-children', sd, pol
                runs.append(r)
    # several copies of every payer form, in unequal numbers, each with federal tax withheld
    for year in (2021, 2022, 2023):
        for j, counts in enumerate([(2, 2, 1, 1), (1, 3, 2, 2), (2, 1, 3, 1)]):
            sd = f'{ctx.seed}/c16/copies/{year}/{j}'
            pol, kind = sc.gen_policy(sd, year, kind='plain')
            pol.fixed.update({'1040.number_w-2': str(counts[0]), '1040.number_1099-int': str(counts[1]), '1040.number_1099-div': str(counts[2]),
                              '1040.number_1099-r': str(counts[3]), 'box_4': ['144.00', '75.50', '12.00'][j], 'box_2': '3100.00'})
            r = sc.run(year, ['1040'], pol)
            r['kind'], r['scenario_seed'], r['policy'] = 'copies', sd, pol
            runs.append(r)
    # high wages: Form 8959 is part of the return, so line 25c is Additional Medicare Tax withholding PLUS the other federal
    # withholding the return asks for; with unemployment compensation forms that carry federal withholding of their own
    import c02_oracle
    for year in (2021, 2022, 2023):
        for idx in range(ctx.n(3, 10)):
            pol, forms, on = c02_oracle.mk_scenario(f'{ctx.seed}/c16', year, 'highwage', idx)
            pol.fixed.update({'1040.other_federal_withholding': ['310.00', '0', '1250.75'][idx % 3], '1040.number_1099-g': str(idx % 3),
                              '1099-g:0.box_4': '120.00', '1099-g:1.box_4': '45.50'})
            r = sc.run(year, ['1040'], pol)
            r['kind'], r['scenario_seed'], r['policy'] = 'highwage', f'{ctx.seed}/c16/{year}/highwage/{idx}', pol
            runs.append(r)
    # itemized returns (Schedule A actually used, state taxes below the cap so that every dollar on line 5a counts) with
    # one copy of EVERY payer form, each with federal tax withheld: a withholding box that leaks into a deduction, or a
    # deduction box that leaks into the payments, moves refund-minus-owed by something other than the dollar withheld
    for year in (2021, 2022, 2023):
        for j in range(ctx.n(2, 6)):
            sd = f'{ctx.seed}/c16/itemwh/{year}/{j}'
            pol, kind = sc.gen_policy(sd, year, kind='itemize')
            pol.fixed.update({'1040.number_w-2': '1', '1040.number_1099-int': '1', '1040.number_1099-div': '1', '1040.number_1099-r': '1',
                              '1040.number_1099-g': '1', '1040.number_1098': '1', '1040_sa.itemize_though_less': 'yes',
                              'box_2': '2400.00', 'box_4': ['150.00', '80.25'][j % 2],
                              'w-2:0.box_17': '900.00', 'w-2:0.box_19': '0', '1099-div:0.box_16_1': '0', '1099-div:0.box_16_2': '0',
                              '1099-int:0.box_17_1': '0', '1099-int:0.box_17_2': '0', '1099-r:0.box_14_1': '0', '1099-r:0.box_14_2': '0',
                              '1099-r:0.box_17_1': '0', '1099-r:0.box_17_2': '0', '1098:0.box_5': '0', '1098:0.box_4': '0',
                              'mortgage_insurance_premiums_special': 'no', 'general_sales_tax': 'no',
                              'state_local_real_estate_taxes': '1200.00', 'state_local_personal_property_taxes': '0',
                              'other_taxes_amount': '0', '1040.number_dependents': '0',
                              '1040.filing_status': ['Single', 'MarriedFilingJointly', 'HeadOfHousehold'][j % 3]})
            r = sc.run(year, ['1040'], pol)
            r['kind'], r['scenario_seed'], r['policy'] = 'itemize-withholding', sd, pol
            runs.append(r)
    # NC returns with N.C. tax withheld on every kind of payer form, jointly owned where the form allows it
    for year in (2021, 2022, 2023):
        for st in ('MarriedFilingJointly', 'Single'):
            sd = f'{ctx.seed}/c16/ncwh/{year}/{st}'
            pol, kind = sc.gen_policy(sd, year, kind='plain')
            own = 'both' if st == 'MarriedFilingJointly' else 'taxpayer'
            pol.fixed.update({'1040.filing_status': st, '1040.number_w-2': '1', '1040.number_1098': '1', '1040.number_1099-int': '1',
                              '1040.number_1099-div': '1', '1040.number_1099-g': '1', '1040.number_1099-r': '1',
                              'box_15': 'NC', 'box_15_1': 'NC', 'box_14_1': 'NC', 'box_10a_1': 'NC', 'box_14_1_state': 'NC',
                              '1099-int:0.belongs_to': own, '1099-div:0.belongs_to': own, '1099-g:0.belongs_to': own,
                              'box_17': '812.00', 'box_17_1': '31.00', 'box_16_1': '44.00', 'box_11_1': '25.00'})
            r = sc.run(year, ['1040', 'nc_d-400'], pol)
            r['kind'], r['scenario_seed'], r['policy'] = 'nc-withholding', sd, pol
            runs.append(r)
    # investors: small wages under large qualified dividends / capital-gain distributions, so that the Qualified
    # Dividends and Capital Gain Tax Worksheet runs with its `min(...)` clamps ACTIVE (dividends exceed taxable income);
    # a dropped clamp taxes a phantom amount that shrinks as wages rise (seed C16g: total tax falls when wages go up)
    for year in (2021, 2022, 2023):
        for j, (st, wage, div) in enumerate([('Single', '0', '60000.00'), ('Single', '12000.00', '60000.00'),
                                             ('MarriedFilingJointly', '4000.00', '95000.00'), ('HeadOfHousehold', '9000.00', '41000.00')]):
            sd = f'{ctx.seed}/c16/investor/{year}/{j}'
            pol, kind = sc.gen_policy(sd, year, kind='plain')
            pol.p_yes, pol.scale = 0.0, 0.0         # no other income: taxable income stays below the dividends
            pol.fixed.update({'1040.filing_status': st, '1040.number_w-2': '1', 'w-2:0.box_1': wage, 'w-2:0.box_2': '0',
                              '1040.number_1099-div': '1', '1099-div:0.box_1a': div, '1099-div:0.box_1b': div,
                              '1099-div:0.box_2a': ['0', '2500.00'][j % 2], '1099-div:0.box_5': '0', '1099-div:0.box_7': '0',
                              '1040.number_1099-int': '0', '1040.number_1099-r': '0', '1040.number_1099-g': '0',
                              '1040.number_1098': '0', '1040.number_dependents': '0'})
            r = sc.run(year, ['1040'], pol)
            r['kind'], r['scenario_seed'], r['policy'] = 'investor', sd, pol
            runs.append(r)
    bad, pairs, solved = [], 0, 0
    for i, r in enumerate(runs):
        if r['exception'] is None and r['ok']:
            solved += 1
            probs, n = to.oracle_c16(r, random.Random(f'{ctx.seed}/c16o/{i}'), ctx.n(2, 6), all_steps=r.get('kind') == 'nc-children')
            pairs += n
            for key, msg, extra in probs:
                bad.append((key, msg, dict(scenario_replay(r), transformation=extra)))
    ctx.statement['c16-metamorphic'] = {
        'checked': pairs, 'base_returns': solved, 'violations': len(bad), 'distinct_nontrivial': pairs,
        'rule': 'for every solved base return: every permutation (budgeted) of the instance numbers of each payer form present 2-3 times (all lines equal, Schedule B listing rows as a multiset); sampled increments of W-2 wages (total tax must not fall), of W-2 withholding (refund-minus-owed moves by exactly the increment, in cents) and of deductible expenses (total tax must not rise); only pairs in which both returns solve are compared; one case = one compared pair',
        'samples': [{'year': r['year'], 'kind': r.get('kind'), 'copies': {f: to.count_of(sc_inputs(r), f) for f in to.PAYER_FORMS}} for r in runs[:2]]}
    for key, msg, rep in bad:
        ctx.report('response:' + key, msg, {'kind': 'scenario', 'case': rep})
    finish_tie(ctx, broken, dis, found=bool(bad))


PROPS = {
    'C01': dict(run=run_C01, theorems=[
        'HabuVerif.C01.solved_sound', 'HabuVerif.C01.failed_complete',
        'HabuVerif.C01.missing_input_not_solved', 'HabuVerif.C01.abort_has_no_state'],
        assumptions=['line definitions are deterministic and side-effect free (strategy trees); checked syntactically by the translator for shipped forms']),
    'C03': dict(run=run_C03, theorems=[
        'HabuVerif.C03.solution_fixed_point', 'HabuVerif.C03.stores_only_grow',
        'HabuVerif.C03.attempt_keeps_values'],
        assumptions=['line definitions are deterministic and side-effect free (strategy trees)']),
    'C04': dict(run=run_C04, theorems=[
        'HabuVerif.C04.solved_contains_closure', 'HabuVerif.C04.solution_is_least',
        'HabuVerif.C04.values_are_demanded', 'HabuVerif.C04.input_only_adds_no_line'],
        assumptions=['line definitions are deterministic strategy trees; Field.form(name) is used only on forms that are loaded (see known findings)']),
    'C05': dict(run=run_C05, theorems=[
        'HabuVerif.C05.schedule_independent', 'HabuVerif.C05.no_error_outcome_in_final',
        'HabuVerif.C05.line_outcome_depends_only_on_read_names', 'HabuVerif.C05.returns_agree_on_line'],
        assumptions=['frame (Proofs/Frame.lean): for the regenerated catalogue, the outcome of any line is a function of the stored values and input answers its syntactic read sets describe -- nothing else in the stores can influence it',
                     'prompt is absent or answers every question as a function of the input name (partial refusal is order-dependent by nature and excluded, as the property says)',
                     'agreement of the abort KIND across schedules is not proved (partial); INI layout independence is proved for written files (Ini lemmas) and tested for hand-laid-out files']),
    'C06': dict(run=run_C06, theorems=['HabuVerif.C06.' + t for t in [
        'history_wf', 'step_releases_one_met_pair', 'step_done_keeps_everything', 'register_adds_one_pair',
        'drain_releases_exactly_the_met_waits', 'has_unmet_false_iff_empty', 'answered_input_is_present',
        'present_input_stays_present', 'attempt_keeps_refused_and_inputs', 'blocked_lines_are_reported']] + ['HabuVerif.' + t for t in [
        'solve_terminates', 'solve_terminates_any_fuel', 'solve_fuel_mono', 'attempt_accounting', 'wait_multiplicity',
        'attempt_bound', 'attempt_bound_additive', 'queued_at_most_once', 'pushes_exact', 'loads_distinct',
        'prompt_at_most_once', 'Universe.ofOccurs']],
        assumptions=['termination is proved for requests living in a finite universe of lines and inputs (Universe: closed under required lines of demanded forms and under what a line can be blocked on; derivable from closure under the read sets, Universe.ofOccurs) - an infinite family of form instances demanded one after the other is outside it',
                     'the additive attempt bound (1 + distinct waits + retries) holds when nothing is requested twice (forms and extra fields duplicate-free, required lists duplicate-free); otherwise the number of times the line was queued multiplies it (attempt_bound), which the real code also does',
                     'Abort.specFuel (more than 64 chained input-only loads inside one attempt; Python: the recursion limit) counts as an abort, i.e. as terminating']),
    'C07': dict(run=run_C07, theorems=['HabuVerif.C07.schedule_monotone_and_bounded', 'HabuVerif.C07.follows_rate_schedule',
        'HabuVerif.C07.non_decreasing', 'HabuVerif.C07.qss_equals_mfj', 'HabuVerif.Gen.checked_2021', 'HabuVerif.Gen.checked_2022',
        'HabuVerif.Gen.checked_2023', 'HabuVerif.Gen.figureTaxQ_eq_spec_2021', 'HabuVerif.Gen.figureTaxQ_eq_spec_2022',
        'HabuVerif.Gen.figureTaxQ_eq_spec_2023', 'HabuVerif.Gen.figure_tax_mono_2023', 'HabuVerif.Gen.figure_tax_marginal_2023'],
        assumptions=['theorems are about the exact-rational reading of the regenerated table/worksheet data; the binary64 evaluation is covered by the F64 model (bit-exact correspondence) and by the oracle on the real figure_tax',
                     'bracket schedules in Spec/Brackets.lean entered from Rev. Proc. 2020-45/2021-45/2022-38']),
    'C13': dict(run=run_C13, theorems=['HabuVerif.C13.' + t for t in [
        'prompt_is_demand_exact', 'inputs_are_file_plus_answers', 'rerun_silent_and_identical', 'unread_input_irrelevant']],
        assumptions=['the written-back file reads back to the same inputs: Ini.write_parse_roundtrip / Cli.rerun_provides (answers without surrounding blanks; padded answers re-read stripped, which every Input.value does anyway)']),
    'C11': dict(run=run_C11, theorems=['HabuVerif.C11.' + t for t in [
        'line_sees_only_valid_typed_finite', 'rejected_text_is_invalid', 'missing_iff_not_supplied',
        'no_conversion_error_escapes', 'nonfinite_is_invalid', 'valid_float_is_finite', 'nan_inf_are_literals',
        'boolean_accepts_exactly', "ssn_accepts", "enum_accepts", 'valid_implies_value']],
        assumptions=['Unicode character classes come from the running interpreter (table regenerated each run; theorems hold for every table)',
                     'the [DEFAULT] section of an input file counts as supplying an input for sections that exist (configparser semantics; see Ini lemmas)']),
    'C12': dict(run=run_C12, theorems=['HabuVerif.C12.' + t for t in [
        'stored_value_typed', 'blank_is_empty_value', 'other_type_rejected', 'bool_rejected_for_integer_line',
        'int_rejected_for_money_line', 'money_is_rounded', 'input_form_line_total']],
        assumptions=['round(x, n) idempotent is a hypothesis of money_is_rounded, discharged for the F64 model in Proofs/F64Lemmas (range stated there)']),
    'C14': dict(run=run_C14, theorems=['HabuVerif.C14.solution_reads_back', 'HabuVerif.C14.bool_reads_back', 'HabuVerif.C14.money_reads_back_partial',
        'HabuVerif.C14.money_reads_back', 'HabuVerif.C14.stored_money_reads_back', 'HabuVerif.C14.catalogue_places_2021',
        'HabuVerif.C14.catalogue_places_2022', 'HabuVerif.C14.catalogue_places_2023', 'HabuVerif.C14.placesOK_spec'],
        assumptions=["money: proved for binary64 and places 0, 2, 5 (all the places any float line uses: catalogue_places_*, regenerated); round/format/float are the integer model of Py/F64.lean + Py/Str.lean, compared bit for bit with CPython by the f64/fields streams",
                     'text values: without surrounding blanks / comment-like continuation lines (SolutionOk); excluded classes behave as recorded in DESIGN.md']),
    'C20': dict(run=run_C20, theorems=['HabuVerif.C20.answers_and_file_kept', 'HabuVerif.C20.file_left_behind_wellformed', 'HabuVerif.C20.rerun_does_not_ask_again'],
        assumptions=['the process is not killed DURING the write itself (the file is opened with truncation): outside the listed interruption kinds and outside the model',
                     'answers with surrounding blanks are stored raw and re-read stripped (every Input.value strips): still provided, same meaning']),
    'C02': dict(run=run_C02, theorems=['HabuVerif.C02.certified_line_computes_instruction', 'HabuVerif.C02.solved_line_is_what_the_form_says',
        'HabuVerif.Spec.line_matches_instruction', 'HabuVerif.Spec.certifies_sound', 'HabuVerif.Spec.evalLine_of_toArith'],
        assumptions=['the instruction table (tools/c02_instructions.py: template accessibility text parsed by a fixed pattern set; tools/c02_transcriptions.json: cited transcriptions of worksheets and NC forms) is the specification and is trusted as entered',
                     'PARTIAL: layer 2 (meaning of a match, in exact cents) is proved for the certified fragment (carry/add/sub/floor/cap/min/max/cond over reads; about 255 of 476 instructions); sum-comprehensions, rate multiplications, guards and NC whole-dollar lines are matched syntactically (kernel-checked) and validated on real solutions by the oracle']),
    'C08': dict(run=run_C08, theorems=['HabuVerif.C08.run_congr', 'HabuVerif.C08.run_agrees', 'HabuVerif.C08.allSome_cons', 'HabuVerif.C08.table_has_standard_deductions'],
        assumptions=['the table of published amounts (tools/c08_statutory.json, mirrored in Spec/Statutory.lean, 68 amounts x years x statuses with citations) was entered independently of the code and is trusted as entered; 5 amounts are listed as unverified and not checked',
                     'the site survey (tools/c08_sites.py) and the reviewed site map (tools/c08_map.json) decide WHERE an amount is expected; 34 sites per year are uncovered (31 of them the NC consumer-use-tax table) and listed in the evidence']),
    'C09': dict(run=run_C09, theorems=['HabuVerif.Gates.' + t for t in [
        'cannotReturn_sound', 'noReturnAfterRead_sound', 'checkLine_never_sound', 'checkLine_afterRead_sound',
        'gate_blocks_form', 'gate_blocks_line', 'gate_read_blocks']],
        assumptions=['the reviewed gate list tools/c09_gates.json (which inputs declare an unsupported situation, and by which answer) is the specification; it is compared on every run with a syntactic survey of all guards of not_implemented() calls in the regenerated programs',
                     'PARTIAL: for 10-12 gates per year the abstract interpretation is inconclusive (value reaches the guard through another line, float limits, another reader legitimately returns); these are decided by the oracle on real solves only; completeness of the reader list per gate is by syntactic scan, not proved']),
    'C10': dict(run=run_C10, theorems=['HabuVerif.C10.checked_year_never_aborts_on_dangling_names', 'HabuVerif.C10.obligations_exclude_dangling_aborts',
        'HabuVerif.C10.good_excludes', 'HabuVerif.solve_abort_good', 'HabuVerif.Dsl.eval_reads_in_refs', 'HabuVerif.Dsl.cat_reads_in_refs',
        'HabuVerif.Dsl.c10_of_obligations', 'HabuVerif.Dsl.yearOK_sound', 'HabuVerif.Dsl.C10Example.typo_not_resolves'],
        assumptions=['the list of deliberately absent forms (tools/c10_absent_forms.json: 1099-oid, 1040_s2, each with the evidence that the solve aborts saying the form is not supported) is reviewed, not derived',
                     'PARTIAL: threshold names, enumeration members, helpers and attribute resolutions are checked by structural scans over the regenerated programs (no failed attribute resolution, no unsupported construct, threshold names are constants of the table) that are NOT connected to a semantic theorem; one site per tree (2023 Form 1040 line 27: threshold name computed from an input) is analysis-inconclusive and decided by the oracle only',
                     'the abort kind specFuel (more than 64 chained input-only loads in one attempt; Python: recursion limit) is a bound of the model, not excluded by the theorem; Field.form(name) on a form that is not loaded (KeyError) is outside Resolves, see known findings']),
    'C15': dict(run=run_C15, theorems=['HabuVerif.C15.' + t for t in [
        'shapes_2021', 'shapes_2022', 'shapes_2023', 'overpayment_and_amount_owed', 'refund_and_applied',
        'solved_return_balances', 'stored_money_is_cent_valued', 'over_owed', 'refund_split']],
        extra_audit={'HabuVerif/Proofs/C15NC.lean': ['HabuVerif.C15.' + t for t in [
            'nc_shapes_2021', 'nc_shapes_2022', 'nc_shapes_2023', 'nc_tax_total', 'nc_payments_total', 'nc_payments_net',
            'nc_overpayment_or_due', 'nc_balance', 'nc_amount_refunded', 'nc_applied_total', 'nc_amount_due_total',
            'nc_refund_line', 'solved_nc_return_balances', 'solved_nc_stored_dollar']],
                     'HabuVerif/Props/C15Sign.lean': ['HabuVerif.C15Sign.' + t for t in [
            'sign_closed_2021', 'sign_closed_2022', 'sign_closed_2023', 'sign_closed_sum_2021', 'sign_closed_sum_2022',
            'sign_closed_sum_2023', 'names_2021', 'names_2022', 'names_2023', 'closed_set_line']] + [
            'HabuVerif.Sign.absBody_sound', 'HabuVerif.Sign.nnLineWith_sound_partial', 'HabuVerif.Sign.nnLine_sound_partial',
            'HabuVerif.Sign.nnLine_sound_partial2', 'HabuVerif.Sign.opFacts_of', 'HabuVerif.Sign.nnLine_sound_partial3',
            'HabuVerif.Sign.restFacts_of', 'HabuVerif.Sign.wrapFact', 'HabuVerif.Sign.call_sound', 'HabuVerif.Sign.maxFact',
            'HabuVerif.Sign.div_fact', 'HabuVerif.Sign.mul_NN', 'HabuVerif.Sign.thresh_sound',
            'HabuVerif.Sign.nnLine_sound_partial4', 'HabuVerif.Sign.intToFloatNN', 'HabuVerif.Sign.nnLine_sound_partial5',
            'HabuVerif.Sign.closed_line_sound', 'HabuVerif.Sign.key_sound', 'HabuVerif.Sign.fstr_sound', 'HabuVerif.Sign.roundFact',
            'HabuVerif.Sign.roundFloatNegFact', 'HabuVerif.Sign.nnLine_sound', 'HabuVerif.Sign.semBridge',
            'HabuVerif.Sign.solved_lines_not_negative', 'HabuVerif.C15Sign.solved_lines_not_negative_2021',
            'HabuVerif.C15Sign.solved_lines_not_negative_2022', 'HabuVerif.C15Sign.solved_lines_not_negative_2023']},
        assumptions=['proved for the federal balance lines (1040 lines 34, 35a, 36, 37) in exact cents (amounts up to 1e13 cents) and for the NC D-400 balance lines (19, 23, 25, 26a, 27, 28, 33, 34, refund) in exact whole dollars (up to 1e13 dollars)',
                     'sign half: a VERIFIED sign analysis (Spec/Sign.lean): per year the greatest set S of float/int lines closed under "not negative given not-negative inputs and not-negative lines of the set" is regenerated and its closedness re-checked by the kernel (391/390/387 of 569/540/540 numeric lines); soundness against the DSL evaluator (nnLine_sound) and the lift to every state the solver returns (solved_lines_not_negative_<year>: for inputs and prompt answers that parse to not-negative values, every stored value of a line of S is a not-negative number) are proved; lines of the reviewed baseline that drop out of S are broken obligations. PARTIAL: the larger sets that additionally trust CPython sum() (about 435 lines) are only re-checked for closedness; lines outside the sets (plain and conditional subtractions, tax-table lookups) are checked on explored returns only']),
    'C16': dict(run=run_C16, theorems=['HabuVerif.C16.' + t for t in [
        'shapes_2021', 'shapes_2022', 'shapes_2023', 'withholding_total', 'renumbering_keeps_withholding',
        'net_is_payments_minus_tax', 'solved_net_is_payments_minus_tax', 'withholding_one_for_one',
        'float_sum_line_total', 'float_sum_line_renumbering', 'float_sum_lines_2021', 'float_sum_lines_2022', 'float_sum_lines_2023',
        'reads_only_frame', 'reads_only_2021', 'reads_only_2022', 'reads_only_2023', 'total_tax_ignores_everything_but_22_23_2023', 'solved_lines_agree', 'solved_total_tax_agrees_2023',
        'L25b.line25b_shape_2021', 'L25b.line25b_shape_2022', 'L25b.line25b_shape_2023', 'L25b.eval_25b', 'L25b.line25b_total',
        'L25b.line25b_renumbering', 'L25b.line25b_one_for_one']],
        assumptions=['PARTIAL: proved in exact cents for Form 1040 lines 25a and 25b (tax withheld on every W-2 / 1099-R / 1099-DIV / 1099-INT / 1099-G copy: total, renumbering, one cent for one cent) and for the float(sum(copies)) lines 1040.2a, 8959.1, 8959.19 (sum over the copies: a function of the multiset of amounts, at most 64 copies of at most 1e9 dollars) and for refund-minus-owed = 25a+25b+25c+26+32-24 in every returned state (amounts up to 1e10 dollars); ONE-STEP independence is proved (reads_only_frame over the regenerated read sets, re-checked by the kernel each run: lines 24, 25d, 26, 32, 33 of each year are functions of the literal names listed in reads_only_<year> and of nothing else in the stores, in particular of no withholding box), and its lift to returned states (solved_lines_agree: ANY two states the solver returns for the year, with the same loaded forms, that agree on the names such a line reads store the same value for it -- the induction step of whole-return independence); that lines 24, 25c, 26, 32 do not depend on the withholding boxes THROUGH the lines they read, the renumbering invariance of the other per-payer totals, and the monotonicity of total tax in wages and deductions are explored by the metamorphic oracle on real returns, not proved']),
    'C17': dict(run=run_C17, theorems=['HabuVerif.C17.' + t for t in [
        'names_unique', 'threshold_lookup_total', 'all_threshold_lookups_total', 'names_clean',
        'every_class_instantiates', 'declared_year_is_directory_year', 'metadata_present']],
        assumptions=['tools/catalogue.py (introspection of the real classes) and the generator are validated against an independent oracle over the real objects, not proved',
                     '2021/2022 forms hard-code status amounts in if/elif chains (no threshold tables): their totality is covered by the translated programs (C08/C10), not here']),
    'C18': dict(run=run_C18, theorems=['HabuVerif.C18.' + t for t in [
        'every_target_exists', 'no_field_driven_twice', 'labelled_line_is_mapped_line', 'length_limits_agree',
        'export_values_are_on_states', 'exclusive_groups_at_most_one_on', 'every_mapped_line_exists',
        'fileable_forms_have_template_and_mappings']],
        assumptions=['tools/pdf_extract.py (own PDF/XFA reader; cross-checked by two extraction routes and by the pdftk listings kept in the form sources) and the label grammar are trusted',
                     'two documented template-text errata are excluded from the label check (tools/c18_label_errata.json)']),
    'C19': dict(run=run_C19, theorems=[
        'HabuVerif.C19.fdf_decodes', 'HabuVerif.C19.carriage_return_is_lossy',
        'HabuVerif.C19.unescaped_does_not_decode', 'HabuVerif.C19.filled_iff_needs_filing',
        'HabuVerif.C19.filled_once', 'HabuVerif.C19.filled_in_order', 'HabuVerif.C19.no_truncation',
        'HabuVerif.C19.no_substitution'],
        assumptions=['pdftk reads FDF strings per ISO 32000 7.3.4.2 (the decoder in the model); text is printable ASCII as the property says (a raw CR is lossy, proved)']),
}


def run_property(ctx):
    PROPS[ctx.pid]['run'](ctx)


def replay(pid, path):
    """Re-run a recorded failing case against /repo."""
    data = json.load(open(path if os.path.isabs(path) else os.path.join(VERIF, path)))
    print(json.dumps({k: data[k] for k in ('property', 'key', 'what')}, indent=1))
    rep = data.get('replay', {})
    case = rep.get('case', rep)
    if isinstance(case, dict) and case.get('kind') == 'scenario':
        import scenarios as sc
        fields = list(case.get('fields') or []) + list(case.get('also_request_lines') or [])
        r = sc.run(case['year'], case['forms'], None, file_inputs=case['inputs'], fields=fields or None)
        print('re-run on /repo:', 'exception ' + repr(r['exception']) if r['exception'] else ('solved' if r['ok'] else 'failed'))
        if r['exception'] is None:
            for p in oracle_c01(r['solver'], r['ok']) + oracle_c03(r['solver']):
                print('  ', p)
        obs = case.get('observe')
        for n in ([obs] if isinstance(obs, str) else list(obs or [])):
            print(f'   {n} = {r["solver"]._v.values.get(n, "<no value>")!r}')
    return 0
