"""Per-property checks: obligations, tie, statement oracle, search, evidence."""
import json
import os
import random
import time
import traceback

import common
import lean_tools
from common import VERIF

EVIDENCE_DIR = os.path.join(VERIF, 'evidence')
REPLAY_DIR = os.path.join(VERIF, 'evidence', 'replays')
KNOWN_FILE = os.path.join(VERIF, 'known_findings.json')

TRUSTED_BASE = [
    'Lean 4.33.0 kernel',
    'axioms: propext, Classical.choice, Quot.sound only (checked with #print axioms on every property theorem)',
    'statement of the theorems in lean/HabuVerif/Props and the hand-written oracles in lean/HabuVerif/Spec',
    'correspondence harness (tools/harness) and translator (tools/translate.py): validated differentially, not proved',
    'CPython 3.12.1 semantics of float/round/format/configparser/re/enum are modelled, not verified',
]


def load_known():
    try:
        return json.load(open(KNOWN_FILE))
    except FileNotFoundError:
        return {'findings': [], 'fixed': []}


class Context:
    def __init__(self, pid, tier, seed):
        self.pid, self.tier, self.seed = pid, tier, seed
        self.obligations = []       # dicts: name, ok, detail
        self.streams = {}           # name -> dict
        self.statement = {}         # oracle name -> dict
        self.violations = []
        self.known_hits = []
        self.notes = []
        self.gen_info = {}
        self.build_ok = True
        self.build_log = ''
        self.level = 'proof'
        self.known = load_known()

    # ---- scaling
    def n(self, quick, thorough):
        return thorough if self.tier == 'thorough' else quick

    # ---- reporting
    def matches_known(self, key):
        for f in self.known.get('findings', []):
            if f.get('property') == self.pid and f.get('key') == key:
                return f
        return None

    def report(self, key, what, replay_obj, found=True):
        """A property failure. `key` identifies the failing input/site (stable across runs) so
        that a listed known finding suppresses exactly that one."""
        k = self.matches_known(key)
        if k is not None and found:
            if key not in [h[0] for h in self.known_hits]:
                self.known_hits.append((key, what))
                print(f'KNOWN-FINDING: property={self.pid} {key}: {what}')
            return
        os.makedirs(REPLAY_DIR, exist_ok=True)
        safe = ''.join(c if c.isalnum() or c in '-_.' else '_' for c in key)[:80]
        path = os.path.join(REPLAY_DIR, f'{self.pid}_{safe}.json')
        with open(path, 'w') as f:
            json.dump({'property': self.pid, 'key': key, 'what': what, 'found_failing_input': found,
                       'replay': replay_obj, 'seed': self.seed, 'tier': self.tier,
                       'rerun': f'/venv/bin/python tools/check.py {self.pid} --replay {os.path.relpath(path, VERIF)}'},
                      f, indent=1, default=str)
        if key in [v[0] for v in self.violations]:
            return
        self.violations.append((key, what, path))
        tail = '' if found else ' no-failing-input-found'
        print(f'VIOLATION property={self.pid} replay={os.path.relpath(path, VERIF)}{tail}')
        print(f'  {what}')

    def finish(self, wall):
        os.makedirs(EVIDENCE_DIR, exist_ok=True)
        n_obl = len(self.obligations)
        n_ok = sum(1 for o in self.obligations if o['ok'])
        cases = sum(s.get('cases', 0) for s in self.streams.values()) + \
            sum(s.get('checked', 0) for s in self.statement.values())
        samples = []
        for o in self.obligations[:6]:
            samples.append({'obligation': o['name'], 'axioms': o.get('axioms'), 'ok': o['ok']})
        for name, s in self.streams.items():
            for x in s.get('samples', [])[:2]:
                samples.append({'stream': name, 'case': x})
        for name, s in self.statement.items():
            for x in s.get('samples', [])[:2]:
                samples.append({'oracle': name, 'case': x})
        cov = {
            'obligations': max(n_obl, 0),
            'discharged': n_ok,
            'checker_cmd': f'cd lean && lake build HabuVerif.Props.{self.pid} && lake env lean HabuVerif/Props/{self.pid}.lean  (#print axioms per theorem; forbidden-token scan)',
            'trusted_base': TRUSTED_BASE,
            'obligation_list': self.obligations,
            'evaluations': cases,
            'distinct_nontrivial': sum(s.get('distinct_nontrivial', 0) for s in list(self.streams.values()) + list(self.statement.values())),
            'rule': 'correspondence streams: one case = one generated input / operation sequence run on the real code and on the model; statement oracles: one case = one real execution checked against the property statement; non-trivial = reaches the behaviour the property is about (per-stream rule in streams.*.rule)',
            'streams': {k: {kk: vv for kk, vv in v.items() if kk != 'samples'} for k, v in self.streams.items()},
            'statement_oracles': {k: {kk: vv for kk, vv in v.items() if kk != 'samples'} for k, v in self.statement.items()},
            'samples': samples or [{'note': 'no cases'}],
            'known_findings_seen': [k for k, _ in self.known_hits],
            'notes': self.notes,
            'generated': {k: v for k, v in self.gen_info.items() if k != 'extra_targets'},
            'exhaustive': False,
        }
        ev = {
            'property_id': self.pid, 'tier': self.tier, 'seed': self.seed, 'level': self.level,
            'coverage': cov,
            'assumptions': TRUSTED_BASE + PROPS[self.pid].get('assumptions', []),
            'wall_s': round(wall, 2), 'violations': len(self.violations),
        }
        with open(os.path.join(EVIDENCE_DIR, f'{self.pid}.json'), 'w') as f:
            json.dump(ev, f, indent=1, default=str)
        print(f'{self.pid} {self.tier}: obligations {n_ok}/{n_obl}, cases {cases}, '
              f'violations {len(self.violations)}, known findings {len(self.known_hits)}, {wall:.1f}s')


# ------------------------------------------------------------------------------ obligations

def check_obligations(ctx, theorems):
    """Returns the list of broken obligation names."""
    broken = []
    hits = lean_tools.forbidden_scan()
    ctx.obligations.append({'name': 'no sorry/axiom/native_decide/... in the development', 'ok': not hits,
                            'detail': hits[:10]})
    if hits:
        broken.append('forbidden-token-scan')
    rel = f'HabuVerif/Props/{ctx.pid}.lean'
    if not ctx.build_ok:
        for t in theorems:
            ctx.obligations.append({'name': t, 'ok': False, 'detail': 'module does not build'})
        ctx.notes.append('lake build failed: ' + ctx.build_log[-1500:])
        return broken + list(theorems)
    ok, ax, out = lean_tools.axioms_of_module(rel)
    for t in theorems:
        if t not in ax:
            ctx.obligations.append({'name': t, 'ok': False, 'detail': 'no #print axioms line (theorem missing or file fails)'})
            broken.append(t)
            continue
        extra = [a for a in ax[t] if a not in lean_tools.ALLOWED_AXIOMS]
        ctx.obligations.append({'name': t, 'ok': not extra, 'axioms': ax[t]})
        if extra:
            broken.append(t)
    if not ok:
        ctx.notes.append('lean reported errors on ' + rel + ': ' + out[-1500:])
    return broken


# ------------------------------------------------------------------------------ streams

def stream_toy(ctx, n, wild=None, label='solve-toy'):
    """Real Solver vs Lean model on generated form programs (attempt order, prompts, final state)."""
    import toy
    cases, proto = [], []
    for k in range(n):
        rng = random.Random(f'{ctx.seed}/{label}/{k}')
        c = toy.gen_case(rng, wild=wild)
        cases.append(c)
        proto += c.protocol()
    out = common.run_driver(proto)
    pos, disagreements, dist, reals = 0, [], {}, []
    for k, c in enumerate(cases):
        model = []
        while pos < len(out):
            line = out[pos]
            pos += 1
            if line == 'done':
                break
            model.append(line)
        model = [toy.canon_model_abort(x) for x in model]
        real, solver, log, prompts = c.run_real()
        reals.append((c, real, solver, log, prompts))
        key = ' '.join(real[0].split(' ')[:3])
        dist[key] = dist.get(key, 0) + 1
        if model != real:
            diff = [(a, b) for a, b in zip(model + ['<none>'] * 12, real + ['<none>'] * 12) if a != b][:3]
            disagreements.append({'case': k, 'protocol': c.protocol(), 'diff': diff})
    nontrivial = sum(1 for c, real, *_ in reals if len([x for x in real if x.startswith('attempts ') and x.count(',') >= 2]) > 0
                     or real[0].startswith('verdict abort'))
    ctx.streams[label] = {
        'cases': n, 'disagreements': len(disagreements), 'distribution': dist,
        'distinct_nontrivial': nontrivial,
        'rule': 'generated catalogue of 1-4 form classes with strategy-tree lines, inputs, prompt script, request and schedule; non-trivial = at least three line attempts or an abort',
        'samples': [{'protocol': cases[0].protocol()[:12], 'real': reals[0][1][:4]}] if cases else [],
    }
    return disagreements, reals


_REAL_CACHE = {}


def real_runs(ctx, n, label='scenarios', years=(2021, 2022, 2023)):
    """Real solves of the shipped forms on generated scenarios (cached per process)."""
    import scenarios as sc
    key = (ctx.seed, n, label, years)
    if key in _REAL_CACHE:
        return _REAL_CACHE[key]
    res = []
    for k in range(n):
        year = years[k % len(years)]
        sd = f'{ctx.seed}/{label}/{k}'
        pol, kind = sc.gen_policy(sd, year)
        forms = sc.request_for(sd, year, kind)
        r = sc.run(year, forms, pol)
        r['kind'] = kind
        r['scenario_seed'] = sd
        res.append(r)
    _REAL_CACHE[key] = res
    return res


def scenario_replay(r):
    import scenarios as sc
    return {'kind': 'scenario', 'year': r['year'], 'forms': r['forms'], 'inputs': sc.inputs_of(r),
            'scenario_seed': r.get('scenario_seed')}


# ------------------------------------------------------------------------------ oracles on real runs

def oracle_c01(solver, ok):
    """statement of C01 on one finished real solve; returns list of problems"""
    probs = []
    unimpl = solver.unimplemented_fields()
    ui = solver.unmet_input_dependencies()
    uf = solver.unmet_field_dependencies()
    missing = [n for n in solver._solving_fields if n not in solver._v.values]
    req_missing = [f.name() for form in solver.forms.values() for f in form.required_fields()
                   if f.name() not in solver._v.values]
    if ok:
        if unimpl or ui or uf:
            probs.append(f'solved, yet diagnostics non-empty: unimpl={unimpl[:3]} inputs={list(ui)[:3]} fields={list(uf)[:3]}')
        if missing:
            probs.append(f'solved, yet demanded lines have no value: {missing[:5]}')
        if req_missing:
            probs.append(f'solved, yet required lines of loaded forms are absent: {req_missing[:5]}')
    else:
        if not (unimpl or ui or uf):
            probs.append('failed, yet all three diagnostics are empty')
        listed = set(unimpl) | {w for ws in ui.values() for w in ws} | {w for ws in uf.values() for w in ws}
        unexplained = [n for n in missing if n not in listed]
        if unexplained:
            probs.append(f'failed, and demanded lines without value are in no diagnostic: {unexplained[:5]}')
    return probs


def same_value(a, b):
    if isinstance(a, float) and isinstance(b, float):
        return a == b or (a != a and b != b)
    return type(a) is type(b) and a == b


def oracle_c03(solver):
    """re-evaluate every stored line on the final stores"""
    from habutax import form as hform
    probs = []
    for name, val in list(solver._v.values.items()):
        field = solver._field_map.get(name)
        if field is None:
            probs.append(f'{name}: stored but unknown to the field map')
            continue
        try:
            again = field.value(hform.FormAccessor(solver._i, field.form()),
                                hform.FormAccessor(solver._v, field.form()))
        except BaseException as e:  # noqa: BLE001
            if isinstance(e, (KeyboardInterrupt, SystemExit)):
                raise
            probs.append(f'{name}: stored {val!r}, re-evaluation raises {type(e).__name__}: {str(e)[:80]}')
            continue
        if not same_value(again, val):
            probs.append(f'{name}: stored {val!r}, its definition yields {again!r} on the final stores')
    return probs


# ------------------------------------------------------------------------------ property runners

def tie_solver(ctx, theorems_broken):
    """shared by the solver-metatheory properties: toy stream + real scenario runs"""
    n_toy = ctx.n(400, 6000)
    dis, reals = stream_toy(ctx, n_toy)
    dis2, reals2 = stream_toy(ctx, ctx.n(150, 1500), wild=True, label='solve-toy-dangling')
    runs = real_runs(ctx, ctx.n(45, 600))
    return dis + dis2, reals + reals2, runs


def run_C01(ctx):
    broken = check_obligations(ctx, PROPS['C01']['theorems'])
    dis, reals, runs = tie_solver(ctx, broken)
    checked, bad, dist = 0, [], {}
    for c, real, solver, log, prompts in reals:
        if real[0] in ('verdict solved', 'verdict failed'):
            checked += 1
            for p in oracle_c01(solver, real[0] == 'verdict solved'):
                bad.append(('toy', c.protocol(), p))
    for r in runs:
        k = 'abort ' + type(r['exception']).__name__ if r['exception'] else ('solved' if r['ok'] else 'failed')
        dist[f"{r['year']} {k}"] = dist.get(f"{r['year']} {k}", 0) + 1
        if r['exception'] is None:
            checked += 1
            for p in oracle_c01(r['solver'], r['ok']):
                bad.append(('scenario', scenario_replay(r), p))
    ctx.statement['c01-verdict'] = {
        'checked': checked, 'violations': len(bad), 'distribution': dist,
        'distinct_nontrivial': sum(1 for r in runs if r['exception'] is None and len(r['solver']._v.values) > 50),
        'rule': 'every finished real solve (generated programs and shipped forms): verdict vs diagnostics vs values; non-trivial real return = more than 50 lines valued',
        'samples': [{'year': r['year'], 'forms': r['forms'], 'kind': r['kind'], 'ok': r['ok'],
                     'lines': len(r['solver']._v.values)} for r in runs[:2]]}
    for kind, rep, p in bad:
        ctx.report('verdict:' + p[:60], p, {'kind': kind, 'case': rep})
    finish_tie(ctx, broken, dis, found=bool(bad))


def finish_tie(ctx, broken, disagreements, found):
    """Broken obligations / correspondence without a failing input found by the oracles."""
    if disagreements:
        d = disagreements[0]
        if not found:
            ctx.report('correspondence:solve-toy', 'the solver model and solver.py disagree: ' + str(d['diff'])[:300],
                       {'kind': 'toy', 'protocol': d['protocol'], 'diff': d['diff'],
                        'broken': 'correspondence stream solve-toy'}, found=False)
    if broken and not found and not disagreements:
        ctx.report('obligation:' + broken[0], f'proof obligation(s) no longer check: {broken[:5]}',
                   {'broken': broken, 'build_log_tail': ctx.build_log[-2000:]}, found=False)


def run_C03(ctx):
    broken = check_obligations(ctx, PROPS['C03']['theorems'])
    dis, reals, runs = tie_solver(ctx, broken)
    checked, bad, nvals = 0, [], 0
    for c, real, solver, log, prompts in reals:
        if real[0] in ('verdict solved', 'verdict failed'):
            checked += 1
            nvals += len(solver._v.values)
            for p in oracle_c03(solver):
                bad.append(('toy', c.protocol(), p))
    for r in runs:
        if r['exception'] is None:
            checked += 1
            nvals += len(r['solver']._v.values)
            for p in oracle_c03(r['solver']):
                bad.append(('scenario', scenario_replay(r), p))
    ctx.statement['c03-fixed-point'] = {
        'checked': checked, 'values_reevaluated': nvals, 'violations': len(bad),
        'distinct_nontrivial': sum(1 for r in runs if r['exception'] is None and len(r['solver']._v.values) > 50),
        'rule': 'every value of every finished real solve is recomputed from its definition on the final stores',
        'samples': [{'year': r['year'], 'kind': r['kind'], 'values': len(r['solver']._v.values)} for r in runs[:2]]}
    for kind, rep, p in bad:
        ctx.report('fixed-point:' + p.split(':')[0], p, {'kind': kind, 'case': rep})
    finish_tie(ctx, broken, dis, found=bool(bad))



def toy_signature(real, solver):
    """order-insensitive part of a toy result"""
    if real[0].startswith('verdict abort'):
        return ('abort',)
    d = {l.split(' ', 1)[0]: (l.split(' ', 1)[1] if ' ' in l else '') for l in real}
    return (real[0], d.get('v', ''), d.get('forms', ''), tuple(sorted(set(solver.unimplemented_fields()))),
            tuple(sorted((k, tuple(sorted(set(ws)))) for k, ws in solver.unmet_input_dependencies().items())),
            tuple(sorted((k, tuple(sorted(set(ws)))) for k, ws in solver.unmet_field_dependencies().items())),
            d.get('inputs', ''))


def run_C04(ctx):
    import solver_oracles as so
    broken = check_obligations(ctx, PROPS['C04']['theorems'])
    dis, reals, runs = tie_solver(ctx, broken)
    checked, bad, solved = 0, [], 0
    for c, real, solver, log, prompts in reals:
        if real[0] == 'verdict solved':
            checked += 1
            for p in so.oracle_c04(solver, True, c.forms):
                bad.append(('toy', c.protocol(), p))
    for r in runs:
        if r['exception'] is None and r['ok']:
            checked += 1
            solved += 1
            for p in so.oracle_c04(r['solver'], True, r['forms']):
                bad.append(('scenario', scenario_replay(r), p))
    ctx.statement['c04-closure'] = {
        'checked': checked, 'violations': len(bad), 'distinct_nontrivial': solved,
        'rule': 'every solved real return: required lines present, every line read by a present line present with its form, and the set of lines/forms equals the closure recomputed from the request with read-recording accessors; non-trivial = solved return of the shipped forms',
        'samples': [{'year': r['year'], 'forms': sorted(r['solver'].forms)[:8]} for r in runs if r['exception'] is None and r['ok']][:2]}
    for kind, rep, p in bad:
        ctx.report('closure:' + p[:70], p, {'kind': kind, 'case': rep})
    finish_tie(ctx, broken, dis, found=bool(bad))


def run_C05(ctx):
    import solver_oracles as so
    import toy
    broken = check_obligations(ctx, PROPS['C05']['theorems'])
    dis, reals, runs = tie_solver(ctx, broken)
    bad, checked, variants = [], 0, 0
    # generated programs under several schedules (line names / ranks decide the order)
    n_toy = ctx.n(150, 2500)
    for k in range(n_toy):
        rng = random.Random(f'{ctx.seed}/c05-toy/{k}')
        c = toy.gen_case(rng, wild=rng.random() < 0.2, form_obs=False,
                         prompt_mode=rng.choice(['none', 'total']))
        base = None
        names = [f'{tc.full(i)}.{b}' for tc in c.classes for i in tc.instances for b, _, _ in tc.fields]
        names += [f'{tc.full(i)}.{b}' for tc in c.classes for i in tc.instances for b in tc.inputs]
        nsched = ctx.n(4, 8)
        for j in range(nsched):
            if j == 0:
                c.sched = None
            else:
                order = names[:]
                rng.shuffle(order)
                c.sched = dict(seed=str(j), ranks={n: i for i, n in enumerate(order)})
            if j == nsched - 1 and len(c.forms) > 1:
                c.forms = list(reversed(c.forms))
            real, tsolver, _, _ = c.run_real()
            sig = toy_signature(real, tsolver)
            variants += 1
            if base is None:
                base = sig
            elif sig != base:
                bad.append(('toy', c.protocol(), f'result depends on the attempt order / request order: {str(base)[:120]} vs {str(sig)[:120]}'))
                break
        checked += 1
    # shipped forms
    nreal = 0
    for r in runs[:ctx.n(25, 300)]:
        if r['exception'] is not None and not isinstance(r['exception'], (NotImplementedError, TypeError, AssertionError)):
            continue
        rng = random.Random(f'{ctx.seed}/c05-real/{r["scenario_seed"]}')
        inputs = sc_inputs(r)
        base_run = so.rerun_with(r, file_inputs=inputs)
        base = so.signature(base_run)
        nreal += 1
        if r['exception'] is None and so.signature(r)[:6] != base[:6]:
            bad.append(('scenario', scenario_replay(r), 'file-vs-prompt: ' + so.describe_diff(so.signature(r), base)))
        tests = []
        for j in range(ctx.n(2, 5)):
            tests.append((f'schedule {j}', lambda j=j: so.rerun_with(r, schedule=so.hash_schedule(f'{ctx.seed}/{j}'), file_inputs=inputs)))
        if len(r['forms']) > 1:
            tests.append(('request order', lambda: so.rerun_with(r, forms=list(reversed(r['forms'])), file_inputs=inputs)))
        tests.append(('file layout', lambda: so.run_from_text(r, so.ini_text(inputs, rng))))
        keys = sorted(inputs)
        half = {k: inputs[k] for k in keys if rng.random() < 0.5}
        split_policy = so.FixedPolicy(inputs)
        tests.append(('file/prompt split', lambda: so.rerun_with(r, file_inputs=half, policy=split_policy)))
        for label, fn in tests:
            variants += 1
            sig = so.signature(fn())
            if label == 'file/prompt split' and split_policy.refused:
                continue        # the split run needed an input the base run never supplied: not the same inputs
            if sig != base:
                bad.append(('scenario', dict(scenario_replay(r), variant=label), f'{label}: ' + so.describe_diff(base, sig)))
        checked += 1
    ctx.statement['c05-independence'] = {
        'checked': checked, 'variants_run': variants, 'violations': len(bad), 'distinct_nontrivial': nreal,
        'rule': 'each case is solved under the natural order and under further schedules (hook), reversed request, re-laid-out input file (shuffled sections/keys, spacing, comments, key case) and a random file/prompt split; all result signatures must be equal; non-trivial = shipped-form scenario',
        'samples': [{'year': r['year'], 'forms': r['forms'], 'inputs': len(sc_inputs(r))} for r in runs[:2]]}
    for kind, rep, p in bad:
        key = 'independence:' + (p.split(':')[0] if kind == 'scenario' else 'toy')
        if 'KeyError' in p:
            key = 'independence:form-lookup-KeyError'
        ctx.report(key + ':' + p[:50], p, {'kind': kind, 'case': rep})
    finish_tie(ctx, broken, dis, found=bool(bad))


def sc_inputs(r):
    import scenarios as sc
    return sc.inputs_of(r)


def tie_ini(ctx, n, label='ini'):
    import ini_stream
    r = ini_stream.run(ctx.seed, n, lambda lines: common.run_driver(['ini ' + l for l in lines]))
    ctx.streams[label] = {
        'cases': r['cases'], 'disagreements': len(r['disagreements']), 'distribution': r['distribution'],
        'distinct_nontrivial': r['cases'] - r['distribution'].get('malformed:MissingSectionHeaderError', 0),
        'rule': 'configparser / InputStore / _create_fdf / PDF string decoding / fill selection: real code vs Lean model, text compared byte for byte; non-trivial = anything but a file rejected for a missing section header',
        'samples': r.get('samples', [])[:2]}
    return r['disagreements']


def run_C19(ctx):
    import c19_oracle as o
    import scenarios as sc
    from habutax import pdf_fields
    broken = check_obligations(ctx, PROPS['C19']['theorems'])
    dis = tie_ini(ctx, ctx.n(2500, 24000))
    bad, fills, forms_filled, checked = [], 0, 0, 0
    nsc = ctx.n(45, 500)
    for k in range(nsc):
        year = (2021, 2022, 2023)[k % 3]
        sd = f'{ctx.seed}/c19/{k}'
        pol, kind = sc.gen_policy(sd, year, kind='hsa' if k % 4 == 0 else None)
        if k % 2 == 0:
            pol.text = o.adversarial_text(sd)
        r = sc.run(year, sc.request_for(sd, year, kind), pol)
        r['scenario_seed'] = sd
        if r['exception'] is not None or not r['ok']:
            continue
        res = o.run_fill(year, r['solver'])
        fills += 1
        forms_filled += len(res['fdfs'])
        for key, msg in o.check_fill(year, r['solver'], res):
            bad.append((key, msg, scenario_replay(r)))
    # direct: length limits and choice lists never truncate / substitute
    rng = random.Random(f'{ctx.seed}/c19-fields')
    class F:  # minimal field object
        def to_string(self, v):
            return str(v)
    for k in range(ctx.n(400, 4000)):
        m = rng.choice([None, 0, 1, 5, 9, 17])
        s = ''.join(rng.choice('ab()\\ 9') for _ in range(rng.randrange(0, 25)))
        checked += 1
        try:
            got = pdf_fields.TextPDFField('t', 'f', max_length=m).value(s, F())
            if got != s or (m is not None and len(s) > m):
                bad.append(('text-truncation', f'TextPDFField(max_length={m}) turned {s!r} into {got!r}', {'max_length': m, 'text': s}))
        except pdf_fields.PDFValueTooLong:
            if m is None or len(s) <= m:
                bad.append(('text-spurious-error', f'TextPDFField(max_length={m}) rejected {s!r}', {'max_length': m, 'text': s}))
        choices = ['a', 'b', 'ab']
        try:
            got = pdf_fields.ChoicePDFField('t', 'f', choices).value(s, F())
            if got != s or s not in choices:
                bad.append(('choice-substitution', f'ChoicePDFField accepted {s!r} as {got!r}', {'text': s}))
        except pdf_fields.PDFInvalidChoiceValue:
            if s in choices:
                bad.append(('choice-spurious-error', f'ChoicePDFField rejected {s!r}', {'text': s}))
    ctx.statement['c19-fill'] = {
        'checked': fills + checked, 'fills': fills, 'forms_filled': forms_filled, 'violations': len(bad),
        'distinct_nontrivial': fills,
        'rule': 'solved real returns (half with adversarial text in every string input) are written as solution files, read back and filled by the real PDFFiller with pdftk replaced by a recorder; every FDF is decoded by an independent PDF-string decoder and compared with the mapped text; forms, multiplicity and order checked; non-trivial = one fill of a solved return',
        'samples': [{'adversarial_texts': o.ADVERSARIAL[:5]}]}
    for key, msg, rep in bad:
        ctx.report(key, msg, {'kind': 'scenario', 'case': rep})
    if dis and not bad:
        ctx.report('correspondence:ini', 'Ini/Pdf model and real code disagree: ' + str(dis[0])[:300], {'disagreement': dis[0]}, found=False)
    elif broken and not bad:
        ctx.report('obligation:' + broken[0], f'proof obligation(s) no longer check: {broken[:5]}', {'broken': broken}, found=False)


PROPS = {
    'C01': dict(run=run_C01, theorems=[
        'HabuVerif.C01.solved_sound', 'HabuVerif.C01.failed_complete',
        'HabuVerif.C01.missing_input_not_solved', 'HabuVerif.C01.abort_has_no_state'],
        assumptions=['line definitions are deterministic and side-effect free (strategy trees); checked syntactically by the translator for shipped forms']),
    'C03': dict(run=run_C03, theorems=[
        'HabuVerif.C03.solution_fixed_point', 'HabuVerif.C03.stores_only_grow',
        'HabuVerif.C03.attempt_keeps_values'],
        assumptions=['line definitions are deterministic and side-effect free (strategy trees)']),
    'C04': dict(run=run_C04, theorems=[
        'HabuVerif.C04.solved_contains_closure', 'HabuVerif.C04.solution_is_least',
        'HabuVerif.C04.values_are_demanded', 'HabuVerif.C04.input_only_adds_no_line'],
        assumptions=['line definitions are deterministic strategy trees; Field.form(name) is used only on forms that are loaded (see known findings)']),
    'C05': dict(run=run_C05, theorems=[
        'HabuVerif.C05.schedule_independent', 'HabuVerif.C05.no_error_outcome_in_final'],
        assumptions=['prompt is absent or answers every question as a function of the input name (partial refusal is order-dependent by nature and excluded, as the property says)',
                     'agreement of the abort KIND across schedules is not proved (partial); INI layout independence is proved for written files (Ini lemmas) and tested for hand-laid-out files']),
    'C19': dict(run=run_C19, theorems=[
        'HabuVerif.C19.fdf_decodes', 'HabuVerif.C19.carriage_return_is_lossy',
        'HabuVerif.C19.unescaped_does_not_decode', 'HabuVerif.C19.filled_iff_needs_filing',
        'HabuVerif.C19.filled_once', 'HabuVerif.C19.filled_in_order', 'HabuVerif.C19.no_truncation',
        'HabuVerif.C19.no_substitution'],
        assumptions=['pdftk reads FDF strings per ISO 32000 7.3.4.2 (the decoder in the model); text is printable ASCII as the property says (a raw CR is lossy, proved)']),
}


def run_property(ctx):
    PROPS[ctx.pid]['run'](ctx)


def replay(pid, path):
    """Re-run a recorded failing case against /repo."""
    data = json.load(open(path if os.path.isabs(path) else os.path.join(VERIF, path)))
    print(json.dumps({k: data[k] for k in ('property', 'key', 'what')}, indent=1))
    rep = data.get('replay', {})
    case = rep.get('case', rep)
    if isinstance(case, dict) and case.get('kind') == 'scenario':
        import scenarios as sc
        r = sc.run(case['year'], case['forms'], None, file_inputs=case['inputs'])
        print('re-run on /repo:', 'exception ' + repr(r['exception']) if r['exception'] else ('solved' if r['ok'] else 'failed'))
        if r['exception'] is None:
            for p in oracle_c01(r['solver'], r['ok']) + oracle_c03(r['solver']):
                print('  ', p)
    return 0
