"""fields stream: habutax Field.value / to_string / from_string and InputForm vs the Lean model.

The line definitions are stubs returning every kind of Python object (the declared type, `bool` for an
integer line, `int` for a money line, `IntEnum` members, `str`/`float`/`int` subclass instances, `None`,
blank strings of every white-space kind, members of another enum class, containers, ...).  The expected
answers come from the REAL `habutax.fields` classes and from a real `habutax.form.InputForm`.

    run(seed, n, run_step) -> dict(cases, disagreements, distribution, samples)
"""
import decimal
import enum as pyenum
import fractions
import random
import struct
import sys
import warnings

try:
    from . import common
    from . import inputs_stream as ins
except ImportError:
    import common
    import inputs_stream as ins

warnings.filterwarnings('ignore', category=SyntaxWarning)
from habutax import fields as hf          # noqa: E402
from habutax import inputs as hi          # noqa: E402
from habutax import enum as henum         # noqa: E402
from habutax import form as hform         # noqa: E402

enc_text, enc_val, enc_exc, enc_enum_body, REG = ins.enc_text, ins.enc_val, ins.enc_exc, ins.enc_enum_body, ins.REG


class StrSub(str):
    pass


class StrSubLoud(str):
    def __repr__(self):
        return 'loud'


class FloatSub(float):
    pass


class IntSub(int):
    pass


class Color(pyenum.IntEnum):
    RED = 1
    GREEN = 2


class Flagish(pyenum.Flag):
    A = 1


PLACES = [0, 1, 2, 2, 2, 3, 5, 8, 12]


def make_field(ft, fn=None):
    fn = fn or (lambda s, i, v: None)
    kind = ft[0]
    if kind == 'str':
        f = hf.StringField('x', fn)
    elif kind == 'bool':
        f = hf.BooleanField('x', fn)
    elif kind == 'int':
        f = hf.IntegerField('x', fn)
    elif kind == 'float':
        f = hf.FloatField('x', fn, places=ft[1])
    else:
        f = hf.EnumField('x', ft[1], fn)
    f.__form_init__(ins.StubForm('tf'))
    return f


def enc_ft(ft):
    if ft[0] == 'float':
        return f'float:{ft[1]}'
    if ft[0] == 'enum':
        return 'enum:' + enc_enum_body(ft[1])
    return ft[0]


def gen_ft(rng):
    k = rng.choice(['str', 'bool', 'int', 'float', 'float', 'enum'])
    if k == 'float':
        return ('float', rng.choice(PLACES))
    if k == 'enum':
        return ('enum', rng.choice(ins.ENUMS))
    return (k,)


def gen_float(rng):
    r = rng.random()
    if r < 0.3:
        return rng.randint(-10 ** 9, 10 ** 9) / 100
    if r < 0.45:
        # exact binary ties and classic decimal near-ties
        return rng.choice([0.125, 0.375, 2.5, 3.5, -2.5, 0.5, 1.5, 2.675, 1.005, 1.115, 0.285, 1e-3, 5e-3, 0.005,
                           0.015, 0.025, 0.045, 1234.5678, 0.49999999999999994, 1e22, 1e23, 123456789012345.67,
                           4503599627370496.5, 4503599627370497.5, 2 ** 52 + 0.5, 2 ** 53 + 2.0, 8.345, 99999.995,
                           0.000005, 1.7976931348623157e308, 2.2250738585072014e-308, 5e-324, 1e-7, 0.3, 0.1 + 0.2,
                           1e16, 655.665, 1.45, 2.55])  * rng.choice([1, -1])
    if r < 0.55:
        return rng.choice([0.0, -0.0, float('inf'), float('-inf'), float('nan'), -float('nan'),
                           struct.unpack('>d', bytes.fromhex('7ff0000000000001'))[0],
                           struct.unpack('>d', bytes.fromhex('fff8000000000123'))[0]])
    if r < 0.8:
        return struct.unpack('>d', rng.getrandbits(64).to_bytes(8, 'big'))[0]
    # something with few decimals plus noise in the last bits
    x = rng.randint(0, 10 ** 7) / 10 ** rng.choice([1, 2, 3, 4])
    b = struct.unpack('>Q', struct.pack('>d', x))[0] + rng.choice([-2, -1, 0, 1, 2])
    return struct.unpack('>d', struct.pack('>Q', max(b, 0)))[0]


def gen_blank(rng):
    return ''.join(rng.choice(ins.WS) for _ in range(rng.choice([0, 0, 1, 2, 5])))


def gen_int(rng):
    return rng.choice([0, 1, -1, 2, 10, -8, 98317, rng.randint(-10 ** 6, 10 ** 6), rng.getrandbits(80),
                       10 ** 4299, 10 ** 4300 - 1, -(10 ** 4300), 10 ** 640])


def gen_object(rng, ft):
    """mostly the declared type, otherwise any other kind of object"""
    r = rng.random()
    k = ft[0]
    if r < 0.5:
        if k == 'str':
            return rng.choice(['John Smith ', '839', 'x', ' padded ', 'Ünï', 'None', 'a\nb', '\x1c.\x1c'])
        if k == 'bool':
            return rng.random() < 0.5
        if k == 'int':
            return gen_int(rng)
        if k == 'float':
            return gen_float(rng)
        return rng.choice(list(ft[1]))
    if r < 0.62:
        return rng.choice([None, gen_blank(rng), gen_blank(rng), StrSub(gen_blank(rng)), StrSubLoud(gen_blank(rng))])
    pool = [True, False, gen_int(rng), gen_float(rng), 'text', '0', '1.5', StrSub('text'), StrSubLoud(' z '),
            FloatSub(1.5), IntSub(3), Color.RED, Flagish.A, hform.Jurisdiction.US, [], (), {}, [1.0], b'', b' ',
            decimal.Decimal('1.50'), fractions.Fraction(1, 2), 1j, object, len, NotImplemented, Ellipsis]
    e = rng.choice(ins.ENUMS)
    pool += [rng.choice(list(e)), henum.filing_status.Single, henum.filing_status_2021.Single,
             henum.taxpayer_or_spouse.spouse, henum.taxpayer_spouse_or_both.spouse]
    return rng.choice(pool)


def gen_fromstr(rng, ft):
    k = ft[0]
    if k == 'bool':
        s = rng.choice(['True', 'False', 'true', 'TRUE', 'tRuE', 'false', 'yes', '1', '', 'Tru', 'True.', 'ＴＲＵＥ',
                        'trüe', 'ΤRUE', 'true\x00', 'T RUE'])
        return ins.pad(rng, s) if rng.random() < 0.4 else s
    if k == 'int':
        s = ins.gen_string(rng, rng.choice(['int', 'int', 'int', 'float', 'random']))
        if rng.random() < 0.03:
            s = ins.gen_long_string(rng)
        return s
    if k == 'float':
        return ins.gen_string(rng, rng.choice(['float', 'float', 'halfway', 'int', 'random']))
    if k == 'enum':
        if rng.random() < 0.15:
            return ''
        s = ins.gen_enum_string(rng, ft[1])
        return s
    return ins.gen_string(rng, rng.choice(['random', 'enum', 'bool', 'float']))


def tostr_domain(rng, ft):
    k = ft[0]
    if k == 'float':
        return gen_float(rng)
    if k == 'enum':
        return rng.choice(list(ft[1]) + [None])
    r = rng.random()
    if r < 0.75:
        if k == 'str':
            return rng.choice(['John Smith ', '', '839', ' x ', 'Ünï', '\n'])
        if k == 'bool':
            return rng.random() < 0.5
        return gen_int(rng)
    return rng.choice([None, True, False, gen_int(rng), 'abc'])


class TForm(hform.InputForm):
    form_name = 'tf'
    tax_year = 2023
    description = 'test'
    long_description = 'test'

    def __init__(self, inputs):
        super().__init__(__class__, inputs)


def fresh_input(proto):
    """a new Input object of the same class/parameters (forms take ownership of their inputs)"""
    t = type(proto)
    if t is hi.EnumInput:
        return hi.EnumInput(proto.base_name(), proto.enum, allow_empty=proto.allow_empty)
    if t is hi.RegexInput:
        return hi.RegexInput(proto.base_name(), proto._regex_str)
    return t(proto.base_name())


def real_fofinput(proto):
    try:
        form = TForm([fresh_input(proto)])
    except Exception as e:  # noqa: BLE001
        return enc_exc(e), None, None
    f = form.fields()[0]
    t = type(f)
    if t is hf.StringField:
        r = 'str'
    elif t is hf.BooleanField:
        r = 'bool'
    elif t is hf.IntegerField:
        r = 'int'
    elif t is hf.FloatField:
        r = f'float:{f._places}'
    elif t is hf.EnumField:
        r = f'enum:{REG.ident(f.enum())}'
    else:
        r = f'<{t.__name__}>'
    return r, form, f


def build(seed, n):
    col = ins.Collector()
    protos = ins.make_inputs()
    k = 0
    while len(col.ops) < n:
        rng = random.Random(f'{seed}/fields/{k}')
        k += 1
        r = rng.random()
        if r < 0.40:
            ft = gen_ft(rng)
            obj = gen_object(rng, ft)
            f = make_field(ft, lambda s, i, v, obj=obj: obj)
            ok, res = ins.real_call(f.value, {}, {})
            col.add('fvalue.' + ft[0], f'fvalue {enc_ft(ft)} {enc_val(obj)}', enc_val(res) if ok else enc_exc(res))
        elif r < 0.55:
            ft = gen_ft(rng)
            obj = tostr_domain(rng, ft)
            f = make_field(ft)
            ok, res = ins.real_call(f.to_string, obj)
            col.add('ftostr.' + ft[0], f'ftostr {enc_ft(ft)} {enc_val(obj)}', enc_text(res) if ok else enc_exc(res))
            if ok and not ins.has_surrogate(res):
                # and read it back (the solution file round trip, minus the INI layer)
                ok2, back = ins.real_call(f.from_string, res)
                col.add('fromstr(tostr).' + ft[0], f'ffromstr {enc_ft(ft)} {enc_text(res)}',
                        enc_val(back) if ok2 else enc_exc(back))
        elif r < 0.78:
            ft = gen_ft(rng)
            s = gen_fromstr(rng, ft)
            if ins.has_surrogate(s):
                continue
            f = make_field(ft)
            ok, res = ins.real_call(f.from_string, s)
            col.add('ffromstr.' + ft[0], f'ffromstr {enc_ft(ft)} {enc_text(s)}', enc_val(res) if ok else enc_exc(res))
        elif r < 0.86:
            x = gen_float(rng)
            p = rng.choice(PLACES + [15, 17, 20])
            ok, res = ins.real_call(round, x, p)
            col.add('fround', f'fround {ins.float_bits(x)} {p}', ins.float_bits(res) if ok else enc_exc(res))
            col.add('ffmt', f'ffmt {ins.float_bits(x)} {p}', enc_text(f'{x:.{p}f}'))
        else:
            proto = ins.pick_inputs(rng, protos, 1)[0]
            spec = ins.enc_spec(proto)
            res, form, f = real_fofinput(proto)
            col.add('fofinput', f'fofinput {spec}', res)
            # the whole path of an input-only form: text -> Input.value -> line definition -> Field.value
            s = ins.gen_string(rng, rng.choice(ins.natural_kinds(proto)), proto)
            if ins.has_surrogate(s):
                continue
            if form is None:
                real = res
            else:
                inp = form.inputs()[0]
                ok, v = ins.real_call(inp.value, s)
                if not ok:
                    real = enc_exc(v)
                else:
                    ok2, fv = ins.real_call(f.value, {inp.base_name(): v}, {})
                    real = enc_val(fv) if ok2 else enc_exc(fv)
            col.add('ifvalue.' + type(proto).__name__, f'ifvalue {spec} {enc_text(s)}', real)
    return col


def branch_of(kind, real):
    if real.startswith('raise'):
        return kind + ':' + real
    if kind.startswith('fvalue') or kind.startswith('ffromstr') or kind.startswith('ifvalue') or kind.startswith('fromstr('):
        return kind + ':' + real.split(':')[0]
    return kind


def run(seed, n, run_step):
    col = build(seed, n)
    out = run_step(col.ops)
    disagreements, distribution, samples = [], {}, {}
    if len(out) != len(col.ops):
        disagreements.append({'op': '<stream>', 'model': f'{len(out)} answers', 'real': f'{len(col.ops)} operations'})
    for op, real, kind, model in zip(col.ops, col.real, col.kinds, out):
        b = branch_of(kind, real)
        distribution[b] = distribution.get(b, 0) + 1
        if b not in samples:
            samples[b] = {'op': op if len(op) < 300 else op[:300] + '…', 'real': real[:200]}
        if model != real:
            disagreements.append({'op': op if len(op) < 2000 else op[:2000] + '…', 'model': model[:500], 'real': real[:500]})
    return {'cases': len(col.ops), 'disagreements': disagreements, 'distribution': distribution,
            'samples': list(samples.values())[:40]}


if __name__ == '__main__':
    import json
    import subprocess
    exe = sys.argv[3] if len(sys.argv) > 3 else common.DRIVER

    def run_step(lines):
        p = subprocess.run([exe], input=('\n'.join(lines) + '\n').encode(), stdout=subprocess.PIPE, check=True)
        return p.stdout.decode().split('\n')[:-1]
    res = run(int(sys.argv[1]) if len(sys.argv) > 1 else 0, int(sys.argv[2]) if len(sys.argv) > 2 else 2000, run_step)
    print(json.dumps({'cases': res['cases'], 'disagreements': res['disagreements'][:10],
                      'n_disagreements': len(res['disagreements']), 'distribution': res['distribution']},
                     indent=1, ensure_ascii=True))
