"""C02 statement oracle: every computed line of a REAL solution equals what the official form instructs for it.

    run(seed, tier, runs=None) -> {"violations": [...], "violation_count": n, "checked": {op: n}, "nontrivial": {op: n},
                                   "branches": {...}, "coverage": {year: {form: {...}}}, "never_checked": [...],
                                   "operand_never_produced": [...], "scenarios": {...}, "table": {...}, "samples": [...]}

The instruction table is rebuilt on every run by tools/c02_instructions.py (accessibility text of the bundled templates
+ the committed, cited transcriptions); it never looks at the habutax line functions.  Scenarios drive the real solver
(tools/harness/scenarios.py) through all three years, all filing statuses, itemizing, several payers, dependents, HSA,
IRA / Form 8606, high wages (Forms 8959, the 6251 worksheet), qualified dividends, section 199A dividends (Form 8995)
and the North Carolina return with its schedules.  For every line of the solution that has an instruction whose operand
lines were all produced, the instruction is applied to the solution's own values with exact rational arithmetic:

  * a value of a FloatField with `places` p is read as the multiple of 10^-p it is the nearest double of (a value that is
    not within 1e-6 units of a grid point is reported as `off_grid`); IntegerFields are exact; a blank operand is 0;
  * the line must be A NEAREST multiple of its own unit to the exact result of the instruction (for sums, differences,
    minima, carries between lines of the same unit that is plain equality; `mulrate`, `mul` and carries from cent lines
    into whole-dollar NC lines may round either way at an exact tie);
  * `ratiocap1` ("rounded to at least three places"): within 0.0005;
  * a carry marked `when: source_filed` binds only when the source form is loaded and `needs_filing(values)` holds.

A violation carries the scenario's inputs (replay: run the real solver on exactly these inputs).  Nothing is printed.
"""
import os
import random
import sys
import warnings
from fractions import Fraction

try:
    import common                                   # sets sys.path for habutax, HABUTAX_VERIF, dont_write_bytecode
    VERIF = common.VERIF
except ImportError:                                  # pragma: no cover
    sys.dont_write_bytecode = True
    VERIF = os.path.dirname(os.path.dirname(os.path.dirname(os.path.abspath(__file__))))
    _repo = os.environ.get('HABUTAX_REPO', '/repo')
    if _repo not in sys.path:
        sys.path.insert(0, _repo)

TOOLS = os.path.join(VERIF, 'tools')
if TOOLS not in sys.path:
    sys.path.insert(0, TOOLS)

import scenarios                                     # noqa: E402

YEARS = (2021, 2022, 2023)
CAP_PER_LINE = 3
KINDS = ['plain', 'itemize', 'rich', 'big', 'mfj', 'deps', 'hsa', 'nc_full', 'nc_itemize', 'ira', 'highwage', 'invest',
         'lowinvest', 'deps_rich', 'everything']


# ------------------------------------------------------------------------------------------------------------------
# scenarios
# ------------------------------------------------------------------------------------------------------------------
_static_cache = {}


def code_can_read(year, form_cls, line, operand_full):
    """does the translated program of `form_cls.line` mention, on ANY path, a key that can denote `operand_full`?  (the
    read-set patterns of tools/gen_c10.py, i.e. of Dsl/Refs.lean.)  If it cannot, a missing operand is not a branch
    that was not taken but a term the code never uses."""
    import re as _re
    tools = os.path.dirname(os.path.dirname(os.path.abspath(__file__)))
    if tools not in sys.path:
        sys.path.insert(0, tools)
    import c09_gates
    import gen_c10
    key = (year, form_cls, line)
    if key not in _static_cache:
        pats = None
        try:
            ir = c09_gates.year_ir(year)
            for c in ir['classes']:
                if c['name'] == form_cls:
                    for l in c['lines']:
                        if l['name'] == line:
                            pats = gen_c10.refs_of_line(l)[0]
        except Exception:  # noqa: BLE001
            pats = None
        _static_cache[key] = pats
    pats = _static_cache[key]
    if pats is None:
        return True                       # unknown: assume it can
    oform, oline = operand_full.rsplit('.', 1)
    cands = {operand_full} | ({oline} if oform.split(':')[0] == form_cls else set())
    for pat in pats:
        rx = ''
        for p in pat:
            if p[0] == 'lit':
                rx += _re.escape(p[1])
            elif p[0] == 'nat':
                rx += r'\d+'
            elif p[0] == 'oneOf':
                rx += '(?:' + '|'.join(_re.escape(x) for x in p[1]) + ')'
            else:
                rx += '.*'
        if any(_re.fullmatch(rx, c) for c in cands):
            return True
    return False


def mk_scenario(seed, year, kind, index):
    """(policy, forms, schedules_on) for one scenario; all randomness from the seed string.  `schedules_on`: forms that the
    scenario's answers make part of the return (their guard inputs are answered yes), so that their total lines may be
    requested explicitly (`Solver.solve(forms, field_names)`)."""
    rng = random.Random(f'{seed}/c02/{year}/{kind}/{index}')
    statuses = scenarios.STATUS_MEMBERS[year]
    status = statuses[index % len(statuses)]
    forms = ['1040']
    fixed = {}
    p_yes = 0.0
    scale = 1.0
    if kind in ('plain', 'itemize', 'rich', 'big', 'mfj', 'deps', 'hsa', 'lowinvest'):
        # lowinvest: little earned income, mostly qualified dividends / capital-gain distributions and section 199A
        # dividends -- the corner where "subtract ...; if zero or less, enter -0-" lines (Form 8995 line 13, the
        # qualified-dividends worksheet) actually reach their floor
        pol, _ = scenarios.gen_policy(f'{seed}/c02/{year}/{kind}/{index}', year, 'invest' if kind == 'lowinvest' else kind)
        if kind not in ('mfj', 'hsa'):
            pol.fixed['1040.filing_status'] = status
        if kind == 'itemize':
            pol.fixed['1040_sa.itemize_though_less'] = rng.choice(['yes', 'no'])
            if year == 2021:
                # 2021 only: mortgage insurance premiums (Form 1098 box 5, Schedule A line 8d), deductible in full up to an
                # income of 100,000 (50,000 married filing separately)
                pol.fixed.update({'box_5': rng.choice(['0', '1850.00', '640.25']), 'mortgage_insurance_premiums_special': 'no'})
                if index % 2 == 0:
                    pol.fixed.update({'1040.number_w-2': '1', 'w-2:0.box_1': rng.choice(['38000', '47900.50']),
                                      '1040.number_1099-int': '0', '1040.number_1099-div': '0', '1040.number_1099-r': '0',
                                      '1040.number_1099-g': '0'})
        if rng.random() < 0.3:
            forms.append('nc_d-400')
            pol.fixed.setdefault('1040.number_1098', str(rng.choice([1, 2])))
            if pol.fixed['1040.filing_status'] in ('QualifyingWidowWidower', 'QualifyingSurvivingSpouse'):
                pol.fixed['1040.filing_status'] = 'Single'
        return pol, forms, []
    fixed['1040.filing_status'] = status

    def money(lo, hi, cents=True):
        x = rng.uniform(lo, hi)
        return '%.2f' % x if cents and rng.random() < 0.7 else str(int(x))

    if kind in ('nc_full', 'nc_itemize', 'everything'):
        forms.append('nc_d-400')
        if status in ('QualifyingWidowWidower', 'QualifyingSurvivingSpouse'):
            fixed['1040.filing_status'] = rng.choice(['Single', 'MarriedFilingJointly', 'HeadOfHousehold'])
        fixed.update({'1040.number_1098': str(rng.choice([1, 2])), 'additions_to_agi': 'yes', 'deductions_from_agi': 'yes',
                      'bonus_depreciation': rng.choice(['yes', 'no']),
                      'section_179_expense': rng.choice(['yes', 'no']),
                      'try_itemizing': 'yes' if kind != 'nc_full' or rng.random() < 0.5 else 'no',
                      'no_consumer_use_tax': rng.choice(['yes', 'no']), 'full_records': rng.choice(['yes', 'no']),
                      'county_tax_pct': rng.choice(['0.0675', '0.07', '0.0475']),
                      'out_of_state_purchases': money(0, 4000), 'other_state_sales_tax': money(0, 150),
                      'estimated_tax': money(0, 3000), 'interest_on_underpayment': money(0, 50),
                      'nc_residents': 'yes'})
        for w in range(3):
            fixed[f'w-2:{w}.box_15'] = 'NC'
        if kind == 'nc_itemize' or kind == 'everything':
            fixed.update({'1040.itemize': 'yes', 'medical_dental_expenses': money(0, 30000),
                          'state_local_real_estate_taxes': money(0, 15000), 'charitable_cash_check': money(0, 20000)})
            for w in range(3):
                fixed[f'1098:{w}.box_1'] = money(2000, 30000)
    if kind in ('ira', 'everything'):
        n = rng.choice([1, 2])
        fixed.update({'1040.number_1099-r': str(n), 'ira_exception2_you': 'yes', 'ira_exception1_you': 'no',
                      'ira_exception3_you': 'no', 'ira_exception4_you': 'no', 'pensions_annuities_adjustments': 'no'})
        for k in range(n):
            fixed[f'1099-r:{k}.box_7_ira_sep_simple'] = 'yes' if k == 0 or rng.random() < 0.5 else 'no'
            fixed[f'1099-r:{k}.belongs_to'] = 'taxpayer'
            fixed[f'1099-r:{k}.box_1'] = money(500, 40000)
            fixed[f'1099-r:{k}.box_2a'] = money(0, 400)
            fixed[f'1099-r:{k}.box_2b_taxable_not_determined'] = 'no'
        dist = rng.random() < 0.8
        fixed.update({'8606:you.part_1_needed': 'yes', '8606:you.distribution_or_roth_conversion': 'yes' if dist else 'no',
                      '8606:you.nondeductible_contributions': money(0, 7000), '8606:you.traditional_basis': money(0, 30000),
                      '8606:you.nondeductible_contributions_next_year': money(0, 3000) if rng.random() < 0.7 else '0',
                      '8606:you.year_end_value_non_roth': money(1000, 200000), '8606:you.net_converted': money(0, 20000),
                      '8606:you.qualified_disaster_distributions': 'no',
                      '8606:you.part_2_needed': rng.choice(['yes', 'no']), '8606:you.converted_cost_basis': money(0, 5000),
                      '8606:you.part_3_needed': rng.choice(['yes', 'no']),
                      '8606:you.total_nonqualified_distributions': money(0, 9000), '8606:you.qualified_homebuyer': money(0, 12000),
                      '8606:you.roth_ira_contributions_basis': money(0, 20000)})
        fixed[f'8606:you.distributions_{year}'] = money(0, 30000)
        if kind == 'ira' and index % 3 == 2:
            # the "backdoor Roth" corner: the whole (mostly after-tax) balance is converted, nothing is left at year end,
            # so the basis ratio of line 10 is (close to) 1 and the taxable parts are (close to) zero
            c = rng.choice([6000, 6500.5, 7000])
            fixed.update({'8606:you.distribution_or_roth_conversion': 'yes', '8606:you.nondeductible_contributions': str(c),
                          '8606:you.traditional_basis': rng.choice(['0', '1200']), '8606:you.nondeductible_contributions_next_year': '0',
                          '8606:you.year_end_value_non_roth': rng.choice(['0', '0', '3.17']),
                          '8606:you.net_converted': str(c + rng.choice([0, 0.5, 12])), '8606:you.part_2_needed': 'yes'})
            fixed[f'8606:you.distributions_{year}'] = rng.choice(['0', '250', '900.40'])
    if kind in ('highwage', 'everything'):
        scale = rng.choice([5.0, 9.0, 14.0, 30.0]) if kind == 'highwage' else rng.choice([1.0, 9.0])
        fixed.update({'rrta_compensation': 'no', 'self_employment_income': 'no', 'other_medicare_income': 'no'})
        for w in range(3):
            fixed[f'w-2:{w}.box_6'] = money(0, 9000)
    if kind in ('invest', 'everything'):
        ni, nd = rng.choice([1, 2, 3]), rng.choice([1, 2])
        fixed.update({'1040.number_1099-int': str(ni), '1040.number_1099-div': str(nd), '1040.number_1099-oid': '0',
                      'qualified_dividends_incorrect': 'no', 'ordinary_dividends_incorrect': 'no',
                      'other_than_199a': 'no', 'schedule_d': 'no', 'form_2555': 'no'})
        for k in range(ni):
            fixed[f'1099-int:{k}.box_1'] = money(0, 2500)
            fixed[f'1099-int:{k}.box_3'] = money(0, 300)
            fixed[f'1099-int:{k}.box_6'] = '0'
        for k in range(nd):
            a = rng.uniform(200, 9000)
            fixed[f'1099-div:{k}.box_1a'] = '%.2f' % a
            fixed[f'1099-div:{k}.box_1b'] = '%.2f' % (a * rng.uniform(0, 1))
            fixed[f'1099-div:{k}.box_2a'] = money(0, 3000)
            fixed[f'1099-div:{k}.box_5'] = money(0, 900) if rng.random() < 0.7 else '0'
            fixed[f'1099-div:{k}.box_7'] = '0'
    if kind in ('deps_rich', 'everything'):
        nd = rng.choice([1, 2, 3])
        fixed.update({'1040.number_dependents': str(nd), 'need_schedule_3_part_i': 'no',
                      'credit_limit_ws_b_maybe_needed': 'no', 'pr_income_forms_2555_4563': 'no'})
        scale = max(scale, rng.choice([1.0, 3.0, 5.0]))
        if rng.random() < 0.5:
            fixed['1040.number_1099-int'] = '1'
            fixed['1099-int:0.box_6'] = money(5, 250)      # foreign tax -> Schedule 3 -> Credit Limit Worksheet A line 2
    if kind == 'everything':
        fixed.update({'1040.schedule_1_additional_income': 'yes', 'unemployment_income': money(0, 9000),
                      'alimony_received': money(0, 3000), 'need_other_income': 'yes', 'other_income_amount': money(0, 900),
                      '1040.schedule_1_income_adjustments': 'yes', 'educator_expenses': money(0, 250),
                      'alimony_paid': money(0, 2000), 'traditional_ira_deduction': money(0, 3000),
                      'need_other_adjustments': 'yes', 'other_adjustments_amount': money(0, 700),
                      'hsa_contribution_you': 'no', 'hsa_contribution_spouse': 'no'})
    pol = scenarios.Policy(f'{seed}/c02/{year}/{kind}/{index}', year, fixed=fixed, p_yes=p_yes, scale=scale)
    on = ['nc_d-400_ss'] if 'nc_d-400' in forms else []
    if kind in ('highwage', 'everything'):
        on.append('8959')
    if kind in ('deps_rich', 'everything') and year != 2021:
        # (2021: Part III line 37 of the real code raises TypeError -- int where a float is required -- as soon as it is asked for)
        on.append('1040_s8812')
    return pol, forms, on


# ------------------------------------------------------------------------------------------------------------------
# running the real solver (scenarios.run plus: explicitly requested lines, and a record of which lines each line read)
# ------------------------------------------------------------------------------------------------------------------
def run_real(year, forms, policy, extra_fields=(), file_inputs=None, max_prompts=4000):
    import configparser
    from habutax import solver as hsolver, inputs as hinputs, forms as hforms, values as hvalues

    class RecordingStore(hvalues.ValueStore):
        def __init__(self):
            super().__init__()
            self.current = None
            self.reads = {}

        def __getitem__(self, key):
            if self.current is not None:
                self.reads.setdefault(self.current, set()).add(key)
            return super().__getitem__(key)

    cfg = configparser.ConfigParser(interpolation=None)
    for k, v in (file_inputs or {}).items():
        sec, opt = k.split('.')
        if not cfg.has_section(sec):
            cfg.add_section(sec)
        cfg.set(sec, opt, v)
    store = hinputs.InputStore(cfg)
    asked = []

    def prompt(missing, needed_by):
        if len(asked) >= max_prompts:
            return (None, False)
        ans = policy.answer(missing)
        if ans is None:
            return (None, False)
        if not missing.valid(ans):
            ans = '' if missing.valid('') else '0'
        asked.append(missing.name())
        return (ans, True)

    s = hsolver.Solver(store, hforms.available_forms[year], prompt=prompt)
    rec = RecordingStore()
    s._v = rec
    inner = s._attempt_field

    def attempt(field):
        prev = rec.current
        rec.current = field.name()
        try:
            return inner(field)
        finally:
            rec.current = prev
    s._attempt_field = attempt
    out = dict(year=year, forms=list(forms), solver=s, cfg=cfg, exception=None, ok=None, reads=rec.reads,
               requested_lines=sorted(extra_fields))
    try:
        extra = []
        if extra_fields:
            # the forms of the requested lines must be loaded before `solve` looks the lines up
            for f in sorted({n.split('.')[0] for n in extra_fields}):
                if f not in forms:
                    forms = list(forms) + [f]
            for fm in forms:
                s._add_form(fm)
            extra = [n for n in extra_fields if n in s._field_map]
            out['ok'] = s.solve([], extra)
        else:
            out['ok'] = s.solve(list(forms))
    except BaseException as e:   # noqa: BLE001
        if isinstance(e, (KeyboardInterrupt, SystemExit)):
            raise
        out['exception'] = e
    return out


# ------------------------------------------------------------------------------------------------------------------
# exact reading of values
# ------------------------------------------------------------------------------------------------------------------
class OffGrid(Exception):
    pass


def exact(v, places):
    """the grid value a line holds, as a Fraction"""
    if isinstance(v, bool):
        raise OffGrid('boolean')
    if isinstance(v, int):
        return Fraction(v)
    if isinstance(v, float):
        if v != v or v in (float('inf'), float('-inf')):
            raise OffGrid('not finite')
        if places is None:
            return Fraction(v)
        scale = 10 ** places
        q = Fraction(v) * scale
        n = round(q)
        if abs(q - n) > Fraction(1, 10 ** 6):
            raise OffGrid(f'{v!r} is not a multiple of 10^-{places}')
        return Fraction(n, scale)
    raise OffGrid(f'{type(v).__name__} value')


def fmt(q):
    if q is None:
        return None
    if q.denominator == 1:
        return str(q.numerator)
    f = float(q)
    return repr(round(f, 6))


class Sol(object):
    """one solution with the field table of its year"""

    def __init__(self, year, values, forms_tbl, status):
        self.year = year
        self.values = values
        self.forms = forms_tbl
        self.status = status

    def field(self, full):
        form_inst, line = full.split('.', 1)
        form = form_inst.split(':')[0]
        fr = self.forms.get(form)
        return None if fr is None else fr['fields'].get(line)

    def get(self, full):
        """exact value of a produced line, None when it was not produced"""
        if full not in self.values:
            return None
        fld = self.field(full)
        places = fld['places'] if fld and fld['kind'] == 'FloatField' else None
        return exact(self.values[full], places)


def qualify(ref_, form_inst):
    return ref_ if '.' in ref_ else f'{form_inst}.{ref_}'


class Missing(Exception):
    def __init__(self, name):
        self.name = name


def operand(x, sol, form_inst, used):
    if isinstance(x, dict):
        if 'const' in x:
            return Fraction(x['const'])
        d = x['const_by_status']
        return Fraction(d.get(sol.status, d['default']))
    full = qualify(x, form_inst)
    v = sol.get(full)
    if v is None:
        raise Missing(full)
    used[full] = v
    return v


def apply_instr(op, args, sol, form_inst, used, branch):
    """exact result (Fraction) of the instruction; raises Missing"""
    def val(x):
        return operand(x, sol, form_inst, used)
    if op in ('add', 'addfloor0', 'addcap0'):
        s = sum((val(a) for a in args), Fraction(0))
        if op == 'addfloor0':
            branch.append('floor' if s <= 0 else 'positive')
            return max(Fraction(0), s)
        if op == 'addcap0':
            branch.append('cap' if s >= 0 else 'negative')
            return min(Fraction(0), s)
        return s
    if op == 'sub':
        return val(args[0]) - val(args[1])
    if op == 'subfloor0':
        d = val(args[0]) - val(args[1])
        branch.append('floor' if d <= 0 else 'positive')
        return max(Fraction(0), d)
    if op in ('mulrate', 'mulratefloor0'):
        r = val(args[0]) * Fraction(args[1])
        if op == 'mulratefloor0':
            branch.append('floor' if r <= 0 else 'positive')
            return max(Fraction(0), r)
        return r
    if op == 'mulratecap':
        r = val(args[0]) * Fraction(args[1])
        c = val(args[2])
        branch.append('cap' if c < r else 'product')
        return min(r, c)
    if op == 'mul':
        return val(args[0]) * val(args[1])
    if op == 'amount':
        return val(args[0])
    if op == 'subroundup':
        d = val(args[0]) - val(args[1])
        unit = Fraction(args[2])
        branch.append('floor' if d <= 0 else ('multiple' if d % unit == 0 else 'raised'))
        if d <= 0:
            return Fraction(0)
        return -((-d) // unit) * unit
    if op == 'ratiocap1':
        a, b = val(args[0]), val(args[1])
        if b == 0:
            raise Missing('division by zero in the instruction')
        r = a / b
        branch.append('cap' if r >= 1 else 'ratio')
        return min(Fraction(1), r)
    if op == 'smaller':
        a, b = val(args[0]), val(args[1])
        branch.append('first' if a <= b else 'second')
        return min(a, b)
    if op == 'larger':
        a, b = val(args[0]), val(args[1])
        branch.append('first' if a >= b else 'second')
        return max(a, b)
    if op == 'carry':
        return val(args[0])
    if op == 'blank':
        return Fraction(0)
    if op == 'cond':
        c = args[0]
        a, b = val(c['a']), val(c['b'])
        holds = {'gt': a > b, 'ge': a >= b, 'lt': a < b, 'le': a <= b}[c['cmp']]
        branch.append('then' if holds else 'else')
        sub = args[1] if holds else args[2]
        return apply_instr(sub['op'], sub.get('args', []), sol, form_inst, used, branch)
    raise ValueError(f'unknown op {op}')


EXACT_OPS = ('add', 'addfloor0', 'addcap0', 'sub', 'subfloor0', 'subroundup', 'amount', 'smaller', 'larger', 'carry', 'cond', 'blank')


# ------------------------------------------------------------------------------------------------------------------
def load_table():
    import c02_instructions
    import catalogue as _cat
    import json
    with warnings.catch_warnings():
        warnings.simplefilter('ignore')
        cat = json.loads(json.dumps(_cat.build(with_cli=False)))
    table = c02_instructions.build(cat, None)
    forms_tbl = {int(Y): c02_instructions.year_forms(cat['years'][Y]) for Y in c02_instructions.YEARS if Y in cat['years']}
    return table, forms_tbl


class Tally(object):
    def __init__(self, table):
        self.by_form = {}
        for r in table['instructions']:
            self.by_form.setdefault((r['year'], r['form']), []).append(r)
        self.violations, self.vcount, self.cap = [], 0, {}
        self.checked, self.nontrivial, self.strong, self.branches = {}, {}, {}, {}
        self.produced, self.computed = {}, {}      # (year, form) -> {line: n}
        self.ran = {}                              # (year, form, line) -> [checks, nontrivial checks]
        self.missing = {}                          # (year, form, line) -> {operand: n}
        self.unread = {}                           # (year, form, line) -> {operand: [checks, times read]}
        self.off_grid, self.samples = [], []


def inputs_of(res):
    cfg = res['cfg']
    return {f'{sec}.{opt}': cfg.get(sec, opt) for sec in cfg.sections() for opt in cfg[sec]}


def check_solution(T, year, kind, idx, forms, res, sol, only=None, forced=()):
    """apply every applicable instruction to the lines of one solution.  `only`: restrict to these full line names
    (second pass).  Returns {full line name: [missing operands]} for the checks that could not run."""
    solver = res['solver']
    values = sol.values
    reads = res['reads']
    pending = {}
    replay = None
    for full in list(values):
        if only is not None and full not in only:
            continue
        form_inst, line = full.split('.', 1)
        form = form_inst.split(':')[0]
        fld = sol.field(full)
        if fld is None or fld['kind'] not in ('FloatField', 'IntegerField'):
            continue
        if only is None:
            pl = T.produced.setdefault((year, form), {})
            pl[line] = pl.get(line, 0) + 1
            if reads.get(full):
                cl = T.computed.setdefault((year, form), {})
                cl[line] = cl.get(line, 0) + 1
        for ins in (i for i in T.by_form.get((year, form), []) if i['line'] == line):
            key = (year, form, line)
            T.ran.setdefault(key, [0, 0])
            if ins.get('when') == 'source_filed':
                sform = ins['args'][0].split('.')[0]
                fobj = getattr(solver, 'forms', {}).get(sform)
                try:
                    if fobj is None or not fobj.needs_filing(solver._v):
                        continue
                except Exception:
                    continue
            used, branch = {}, []
            try:
                got = sol.get(full)
                want = apply_instr(ins['op'], ins['args'], sol, form_inst, used, branch)
            except Missing as m:
                if only is None and '.' in m.name and not ins.get('when'):
                    pending.setdefault(full, []).append(m.name)
                d = T.missing.setdefault(key, {})
                d[m.name] = d.get(m.name, 0) + 1
                continue
            except OffGrid as e:
                T.off_grid.append({'year': year, 'line': full, 'problem': str(e)})
                continue
            op = ins['op']
            T.checked[op] = T.checked.get(op, 0) + 1
            T.ran[key][0] += 1
            nz = [n for n, v in used.items() if v != 0]
            if nz:
                T.nontrivial[op] = T.nontrivial.get(op, 0) + 1
                T.ran[key][1] += 1
            if len(nz) >= 2:
                T.strong[op] = T.strong.get(op, 0) + 1
            for b in branch:
                T.branches[f'{op}:{b}'] = T.branches.get(f'{op}:{b}', 0) + 1
            rd = reads.get(full, set())
            for n in used:
                u = T.unread.setdefault(key, {}).setdefault(n.split('.', 1)[1] if n.startswith(form_inst + '.') else n, [0, 0])
                u[0] += 1
                u[1] += 1 if n in rd else 0
            places = fld['places'] if fld['kind'] == 'FloatField' else 0
            unit = Fraction(1, 10 ** (places or 0))
            tol = Fraction(5, 10000) if op == 'ratiocap1' else unit / 2
            if abs(got - want) <= tol:
                if nz and len(T.samples) < 45 and key not in {(x['year'], x['form'], x['line']) for x in T.samples}:
                    T.samples.append({'year': year, 'form': form, 'line': line, 'op': op,
                                      'operands': {n: fmt(v) for n, v in used.items()},
                                      'expected': fmt(want), 'got': fmt(got), 'kind': kind})
                continue
            T.vcount += 1
            T.cap[key] = T.cap.get(key, 0) + 1
            if T.cap[key] > CAP_PER_LINE:
                continue
            if replay is None:
                replay = {'year': year, 'forms': forms, 'inputs': inputs_of(res)}
                if res.get('requested_lines'):
                    replay['also_request_lines'] = res['requested_lines']
                if forced:
                    replay['also_request_lines'] = sorted(forced)
            T.violations.append({'year': year, 'form': form_inst, 'line': line,
                                 'instruction': {'op': op, 'args': ins['args'], 'source': ins['source'],
                                                 'text': ins.get('text', '')[:200]},
                                 'operands': {n: fmt(v) for n, v in used.items()}, 'branch': branch,
                                 'operands_forced': sorted(n for n in used if n in forced),
                                 'expected': fmt(want), 'got': fmt(got), 'scenario': f'{kind}/{idx}',
                                 'replay': replay})
    return pending


def run(seed, tier, runs=None):
    table, forms_tbl = load_table()
    T = Tally(table)
    if runs is None:
        runs = {'quick': 4, 'thorough': 24}.get(tier, 4)       # scenarios per (year, kind)
    scen = {'run': 0, 'complete': 0, 'incomplete': 0, 'exception': {}, 'by_kind': {}, 'second_pass': 0}
    for year in YEARS:
        for kind in KINDS:
            # kinds whose forms print an amount per filing status (Form 8959) run once per status at least
            for idx in range(max(runs, 5) if kind in ('highwage', 'everything') else runs):
                pol, forms, on = mk_scenario(seed, year, kind, idx)
                # lines with an instruction on schedules the scenario switched on are requested explicitly
                extra = sorted(f"{r['form']}.{r['line']}" for f in on for r in T.by_form.get((year, f), []))
                with warnings.catch_warnings():
                    warnings.simplefilter('ignore')
                    res = run_real(year, forms, pol, extra_fields=extra)
                scen['run'] += 1
                scen['by_kind'][kind] = scen['by_kind'].get(kind, 0) + 1
                if res['exception'] is not None:
                    k = scenarios.exc_kind(res['exception'])
                    scen['exception'][k] = scen['exception'].get(k, 0) + 1
                elif res['ok']:
                    scen['complete'] += 1
                else:
                    scen['incomplete'] += 1
                values = dict(res['solver']._v.values)
                st = values.get('1040.filing_status')
                sol = Sol(year, values, forms_tbl[year], getattr(st, 'name', None))
                pending = check_solution(T, year, kind, idx, forms, res, sol)
                loaded = set(getattr(res['solver'], 'forms', {}) or {})
                pending = {k: ns for k, ns in pending.items() if all(n.split('.')[0] in loaded for n in ns)}
                # an operand the code reads on SOME path is absent because that path was not taken (the form's own skip
                # logic): forcing it would evaluate a line the form says to skip.  Only operands the code can never read
                # are forced - then the instruction and the code differ whatever the branch
                pending = {k: [n for n in ns if not code_can_read(year, k.rsplit('.', 1)[0].split(':')[0], k.rsplit('.', 1)[1], n)]
                           for k, ns in pending.items()}
                pending = {k: ns for k, ns in pending.items() if ns}
                if pending:
                    # an operand of an instruction is a line the solution does not contain (the code of the line never
                    # asked for it) although its form is loaded: solve again on the SAME inputs, additionally requesting
                    # those lines
                    want = sorted({n for ns in pending.values() for n in ns})
                    with warnings.catch_warnings():
                        warnings.simplefilter('ignore')
                        res2 = run_real(year, forms, pol, extra_fields=sorted(set(extra) | set(want)),
                                        file_inputs=inputs_of(res))
                    scen['second_pass'] += 1
                    values2 = dict(res2['solver']._v.values)
                    # only when the extra lines needed NO further input (the extended solution is a function of the very
                    # same inputs) and the lines of the first solution keep their values
                    # (enumeration members are compared by their text: some enumerations are created per form instantiation)
                    undisturbed = all(values2.get(k) == v or repr(values2.get(k)) == repr(v) for k, v in values.items() if k in values2)
                    if inputs_of(res2) == inputs_of(res) and undisturbed:
                        scen['second_pass_used'] = scen.get('second_pass_used', 0) + 1
                        sol2 = Sol(year, values2, forms_tbl[year], sol.status)
                        check_solution(T, year, kind, idx, forms, res2, sol2, only=set(pending), forced=set(want))
                    elif res2['exception'] is None and undisturbed:
                        # the forced lines asked for further inputs (boxes only they read).  The extended run is a real
                        # solution in its own right; it is used for the lines whose missing operands all belong to the
                        # line's OWN form (a sum that silently dropped a term of its form) - an operand on another form
                        # may belong to a schedule that is not part of the return, where its value is meaningless
                        same_form = {k for k, ns in pending.items() if all(n.rsplit('.', 1)[0] == k.rsplit('.', 1)[0] for n in ns)}
                        if same_form:
                            scen['second_pass_used_new_inputs'] = scen.get('second_pass_used_new_inputs', 0) + 1
                            sol2 = Sol(year, values2, forms_tbl[year], sol.status)
                            check_solution(T, year, kind, idx, forms, res2, sol2, only=same_form,
                                           forced={n for k in same_form for n in pending[k]})
    by_form = T.by_form
    coverage = {}
    for (year, form), lines in sorted(T.produced.items()):
        have = {i['line'] for i in by_form.get((year, form), [])}
        comp = T.computed.get((year, form), {})
        cov = coverage.setdefault(str(year), {})
        cov[form] = {'amount_lines_produced': len(lines), 'with_instruction': len([l for l in lines if l in have]),
                     'computed_from_other_lines': len(comp),
                     'computed_with_instruction': len([l for l in comp if l in have]),
                     'computed_without_instruction': sorted(l for l in comp if l not in have)}
    totals = {}
    for Y, d in coverage.items():
        totals[Y] = {k: sum(x[k] for x in d.values()) for k in
                     ('amount_lines_produced', 'with_instruction', 'computed_from_other_lines', 'computed_with_instruction')}
    never, trivial_only = [], []
    for r in table['instructions']:
        n, nt = T.ran.get((r['year'], r['form'], r['line']), [0, 0])
        if n == 0:
            never.append(f"{r['year']} {r['form']}.{r['line']}")
        elif nt == 0:
            trivial_only.append(f"{r['year']} {r['form']}.{r['line']}")
    op_missing = []
    for (year, form, line), d in sorted(T.missing.items()):
        if T.ran.get((year, form, line), [0, 0])[0] == 0:
            op_missing.append({'year': year, 'form': form, 'line': line, 'operands_not_produced': d,
                               'line_produced': T.produced.get((year, form), {}).get(line, 0)})
    unread = []
    for (year, form, line), d in sorted(T.unread.items()):
        for opnd, (n, r) in sorted(d.items()):
            if n >= 1 and r == 0:
                unread.append({'year': year, 'form': form, 'line': line, 'operand': opnd, 'checks': n})
    return {
        'violations': T.violations, 'violation_count': T.vcount,
        'violating_lines': sorted({f"{v['year']} {v['form'].split(':')[0]}.{v['line']}" for v in T.violations}),
        'checked': T.checked, 'nontrivial': T.nontrivial, 'two_or_more_nonzero_operands': T.strong,
        'branches': T.branches, 'coverage': coverage, 'coverage_totals': totals,
        'never_checked': sorted(set(never)), 'only_trivial_checks': sorted(set(trivial_only)),
        'operand_never_produced': op_missing, 'operand_never_read_by_the_line': unread, 'off_grid': T.off_grid[:20],
        'scenarios': scen,
        'table': {'instructions': table['stats']['instructions'], 'ops': table['stats']['ops'],
                  'unparsed': table['stats']['unparsed'], 'per_form': table['stats']['per_form'],
                  'conflicts': table['conflicts'], 'transcription_problems': table['transcription_problems'],
                  'label_exceptions': len(table['label_exceptions'])},
        'samples': T.samples,
    }


if __name__ == '__main__':                           # pragma: no cover
    import json
    out = run(int(os.environ.get('VERIF_SEED', '0')), os.environ.get('VERIF_TIER', 'quick'))
    json.dump(out, sys.stdout, indent=1, sort_keys=True, default=str)
