"""C09 statement oracle: declaring an unsupported situation never yields a solved return.

    run(seed, tier) -> dict(violations, checked, unexercised, samples, ...)

For every gate of the reviewed list (tools/c09_gates.json; instances expanded) REAL solves are run in which the gate
input is answered with its DECLARING answer (`value`), the answers that belong to the declaration (`requires`) and
the answers that make the guarding line demanded (`setup`) are fixed, and everything else is benign (first
scenario) or random (further scenarios).  The store accessors are wrapped so that every successful read is logged
with the line that was being evaluated and whether that evaluation ended in a value.

    violation  =  the solve ended `solved`
               /\\ the gate input holds a declaring answer (and the `requires` answers)
               /\\ the gate was READ by an evaluation that ended in a value
                  (`read_lines`: only reads by these guarding lines count -- inputs that implemented lines read as
                   well, e.g. counts;  `via`: the guarding line read the VALUE of the pass-through line)

Every scenario is checked against ALL gates of its year, not only the one it was built for.  A gate whose declaring
answer was never read in any scenario is `unexercised`; for those every setup of the list is tried in turn before
giving up.  All randomness derives from the seed string.  Nothing is printed.
"""
import contextlib
import random
import re
import sys
import os

from common import REPO, VERIF  # noqa: F401  (sets sys.path, env)

TOOLS = os.path.join(VERIF, 'tools')
if TOOLS not in sys.path:
    sys.path.insert(0, TOOLS)

YEARS = (2021, 2022, 2023)


# ------------------------------------------------------------------------------------------ read logging
class ReadLog:
    """reads[(line full name)] = list of attempts; an attempt = dict(outcome, inputs=set, values=set)"""

    def __init__(self):
        self.attempts = []
        self.current = None

    def reads_by_value_attempts(self):
        """{input or line name: set of reader line names} over evaluations that ended in a value"""
        out = {}
        for a in self.attempts:
            if a['outcome'] != 'val':
                continue
            for kind in ('inputs', 'values'):
                for n in a[kind]:
                    out.setdefault((kind, n), set()).add(a['line'])
        return out

    def reads_any(self):
        out = {}
        for a in self.attempts:
            for kind in ('inputs', 'values'):
                for n in a[kind]:
                    out.setdefault((kind, n), set()).add(a['line'])
        return out


@contextlib.contextmanager
def logging_reads(log):
    from habutax import solver as hsolver, inputs as hinputs, values as hvalues, fields as hfields
    orig_attempt = hsolver.Solver._attempt_field
    orig_iget = hinputs.InputStore.__getitem__
    orig_vget = hvalues.ValueStore.__getitem__
    orig_vset = hvalues.ValueStore.__setitem__

    def attempt(self, field):
        outer = log.current
        rec = {'line': field.name(), 'outcome': None, 'inputs': set(), 'values': set()}
        log.current = rec
        before_unimpl = len(self._unimplemented_fields)
        try:
            return orig_attempt(self, field)
        finally:
            # a retry after MissingInputSpecification is a nested call with its own record
            if rec['outcome'] is None:
                rec['outcome'] = 'unimpl' if len(self._unimplemented_fields) > before_unimpl else 'dep'
            log.attempts.append(rec)
            log.current = outer

    def vset(self, key, value):
        # `self._v[field.name()] = field.value(...)`: reached only when the evaluation returned a value
        if log.current is not None and log.current['line'] == key:
            log.current['outcome'] = 'val'
        return orig_vset(self, key, value)

    def iget(self, key):
        v = orig_iget(self, key)
        if log.current is not None:
            log.current['inputs'].add(key)
        return v

    def vget(self, key):
        v = orig_vget(self, key)
        if log.current is not None:
            log.current['values'].add(key)
        return v

    hsolver.Solver._attempt_field = attempt
    hinputs.InputStore.__getitem__ = iget
    hvalues.ValueStore.__getitem__ = vget
    hvalues.ValueStore.__setitem__ = vset
    try:
        yield log
    finally:
        hsolver.Solver._attempt_field = orig_attempt
        hinputs.InputStore.__getitem__ = orig_iget
        hvalues.ValueStore.__getitem__ = orig_vget
        hvalues.ValueStore.__setitem__ = orig_vset


# ------------------------------------------------------------------------------------------ gates
def expand_gates(year, reviewed):
    """[(full input name, gate entry)]"""
    import c09_gates
    import gen_c09
    out = []
    for gid, g in sorted(c09_gates.reviewed_gates(year, reviewed).items()):
        for full in gen_c09.gate_full_names(g):
            out.append((full, g))
    return out


def declares(gate, text, input_obj):
    """is `text` (the stored answer) a declaring answer of the gate?"""
    if text is None or input_obj is None:
        return False
    try:
        if not input_obj.valid(text):
            return False
        v = input_obj.value(text)
    except Exception:  # noqa: BLE001
        return False
    d = gate['declares']
    if d == 'yes':
        return v is True
    if d == 'no':
        return v is False
    m = re.fullmatch(r'> (-?[0-9.]+)', d)
    if m and isinstance(v, (int, float)) and not isinstance(v, bool):
        return v > float(m.group(1))
    return False


def base_line(name):
    """'8889:you.3' -> '8889.3'"""
    form, key = name.split('.', 1)
    return form.split(':')[0] + '.' + key


def instance_of(full):
    form = full.split('.', 1)[0]
    return form.split(':', 1)[1] if ':' in form else None


def gate_read(full, gate, reads):
    """reader lines (of evaluations in `reads`) that count as consulting the gate"""
    if gate.get('via'):
        vform, vkey = gate['via'].split('.', 1)
        inst = instance_of(full)
        vname = (f'{vform}:{inst}' if inst is not None else vform) + '.' + vkey
        rs = reads.get(('values', vname), set())
    else:
        rs = reads.get(('inputs', full), set())
    if gate.get('read_lines'):
        rs = {r for r in rs if base_line(r) in gate['read_lines']}
    return rs


def requires_met(full, gate, inputs, input_map):
    for k, want in (gate.get('requires') or {}).items():
        form, key = k.split('.', 1)
        inst = instance_of(full)
        name = k
        if inst is not None and ':' not in form and form == full.split(':')[0]:
            name = f'{form}:{inst}.{key}'
        have = inputs.get(name)
        obj = input_map.get(name)
        if have is None or obj is None:
            return False
        try:
            if obj.value(have) != obj.value(want):
                return False
        except Exception:  # noqa: BLE001
            return False
    return True


# ------------------------------------------------------------------------------------------ scenarios
def build_policy(sc, seed, year, full, gate, setup, benign):
    rng = random.Random(f'{seed}/policy')
    fixed = {}
    forms = ['1040']
    for k, v in setup.items():
        if k == '_forms':
            forms = list(v)
        elif k == '_fields':
            pass
        else:
            fixed[k] = v
    if '1040.filing_status' not in fixed:
        fixed['1040.filing_status'] = rng.choice(sc.STATUS_MEMBERS[year])
    if benign and '1040.number_dependents' not in fixed:
        fixed['1040.number_dependents'] = '0'       # a benign return: nothing but the gate stands in the way
    if gate is not None:
        for k, v in (gate.get('requires') or {}).items():
            fixed[k] = v
        fixed[full] = gate['value']
        # a gate on copy k of a payer form: k + 2 copies (at most 3) so that the declaring copy is NOT the last one
        # whenever possible, and the other copies answer the gate negatively / with nothing to declare
        inst = instance_of(full)
        if inst is not None and inst.isdigit():
            form = full.split(':')[0]
            fixed.setdefault(f'1040.number_{form}', str(min(3, int(inst) + 2)))
        if gate['input'].startswith('nc_d-400') and 'nc_d-400' not in forms:
            forms.append('nc_d-400')
    pol = sc.Policy(seed, year, fixed=fixed, p_yes=0.0 if benign else 0.01, max_count=2 if benign else 3,
                    scale=1.0 if benign else rng.choice([0.3, 1.0, 1.0, 3.0]))
    return pol, forms


def run_one(sc, year, forms, pol, fields=()):
    """one real solve with read logging; `fields` are requested like `habutax solve --field` would (for guarding
    lines that nothing else demands)"""
    from habutax import solver as hsolver
    log = ReadLog()
    orig_solve = hsolver.Solver.solve
    if fields:
        def solve(self, form_names, field_names=[]):
            return orig_solve(self, form_names, list(field_names) + list(fields))
        hsolver.Solver.solve = solve
    try:
        with logging_reads(log):
            r = sc.run(year, forms, pol)
    finally:
        hsolver.Solver.solve = orig_solve
    r['log'] = log
    r['fields'] = list(fields)
    return r


def replay_of(sc, r, sd, full):
    return {'kind': 'scenario', 'year': r['year'], 'forms': r['forms'], 'fields': r.get('fields', []),
            'inputs': sc.inputs_of(r), 'scenario_seed': sd, 'gate': full}


def run(seed, tier, years=YEARS, only=None):
    import scenarios as sc
    import c09_gates
    reviewed = c09_gates.load_reviewed()
    setups = reviewed['setups']
    n_random = 1 if tier == 'quick' else 5
    violations, samples = [], []
    seen_keys = set()
    stats = {}
    dist = {'solved': 0, 'failed': 0, 'exception': 0}
    exc_kinds = {}
    checked = 0
    scenarios_run = 0
    for year in years:
        gates = expand_gates(year, reviewed)
        if only:
            gates = [(f, g) for f, g in gates if f in only or g['input'] in only]
        st = {full: {'scenarios': 0, 'read_declaring': 0, 'read_by_value': 0, 'blocked': 0, 'solved_with_gate': 0, 'aborted': {}}
              for full, _g in gates}
        stats[str(year)] = st
        all_gates = expand_gates(year, reviewed)

        def one(sd, full, gate, setup_name, benign):
            nonlocal checked, scenarios_run
            setup = setups.get(setup_name, {}) if setup_name else {}
            pol, forms = build_policy(sc, sd, year, full, gate, setup, benign)
            fields = list(setup.get('_fields', [])) if setup else []
            r = run_one(sc, year, forms, pol, fields)
            scenarios_run += 1
            if r['exception'] is not None:
                dist['exception'] += 1
                k = type(r['exception']).__name__
                exc_kinds[k] = exc_kinds.get(k, 0) + 1
                msg = f'{k}: {str(r["exception"])[:90]}'
                st[full]['aborted'][msg] = st[full]['aborted'].get(msg, 0) + 1
            elif r['ok']:
                dist['solved'] += 1
            else:
                dist['failed'] += 1
            inputs = sc.inputs_of(r)
            imap = r['solver']._input_map
            any_reads = r['log'].reads_any()
            val_reads = r['log'].reads_by_value_attempts()
            st[full]['scenarios'] += 1
            for f2, g2 in all_gates:
                if not declares(g2, inputs.get(f2), imap.get(f2)) or not requires_met(f2, g2, inputs, imap):
                    continue
                rd_any = gate_read(f2, g2, any_reads)
                if not rd_any:
                    continue
                checked += 1
                if f2 in st:
                    st[f2]['read_declaring'] += 1
                    if r['exception'] is None and not r['ok']:
                        st[f2]['blocked'] += 1
                rd_val = gate_read(f2, g2, val_reads)
                if rd_val and f2 in st:
                    st[f2]['read_by_value'] += 1
                if r['exception'] is None and r['ok'] and rd_val:
                    if f2 in st:
                        st[f2]['solved_with_gate'] += 1
                    key = f'c09_{year}_{f2}'
                    if key not in seen_keys:
                        seen_keys.add(key)
                        violations.append({
                            'key': key, 'year': year, 'gate': f2, 'declares': g2['declares'], 'answer': inputs.get(f2),
                            'read_by': sorted(rd_val), 'reason': g2['reason'],
                            'what': f'{year}: {f2} = {inputs.get(f2)!r} declares an unsupported situation '
                                    f'({g2["reason"]}), it was read by {", ".join(sorted(rd_val))} and the return SOLVED',
                            'replay': replay_of(sc, r, sd, f2)})
            if len(samples) < 6 and gate is not None:
                samples.append({'year': year, 'gate': full, 'answer': gate['value'], 'setup': setup_name, 'forms': forms,
                                'verdict': 'exception ' + type(r['exception']).__name__ if r['exception'] is not None
                                else ('solved' if r['ok'] else 'failed'),
                                'unimplemented': list(r['solver']._unimplemented_fields)[:4],
                                'read_by': sorted(gate_read(full, gate, any_reads))[:4]})

        for full, gate in gates:
            names = list(gate.get('setup') or [None])
            if None not in names and not gate.get('setup'):
                names = [None]
            k = 0
            for sname in names:
                one(f'{seed}/c09/{year}/{full}/{k}', full, gate, sname, True)
                k += 1
                for _ in range(n_random):
                    one(f'{seed}/c09/{year}/{full}/{k}', full, gate, sname, False)
                    k += 1
            # try harder: a gate that was never read with its declaring answer gets every setup of the list
            if st[full]['read_declaring'] == 0:
                for sname in sorted(setups):
                    if sname in names:
                        continue
                    one(f'{seed}/c09/{year}/{full}/{k}', full, gate, sname, True)
                    k += 1
                    if st[full]['read_declaring'] > 0:
                        break
    unexercised = sorted(f'{y}:{full}' for y, st in stats.items() for full, s in st.items() if s['read_declaring'] == 0)
    return {'violations': violations, 'checked': checked, 'scenarios': scenarios_run, 'unexercised': unexercised,
            'samples': samples, 'distribution': dict(dist, exceptions=exc_kinds),
            'gates': {y: len(st) for y, st in stats.items()}, 'per_gate': stats}


if __name__ == '__main__':
    import json
    res = run(int(os.environ.get('VERIF_SEED', '0')), os.environ.get('VERIF_TIER', 'quick'))
    res.pop('per_gate')
    json.dump(res, sys.stdout, indent=1, default=str)
