"""`real` correspondence stream: whole solves of the SHIPPED forms, real Solver vs. Lean solver model.

`compare(results)` takes finished runs of `scenarios.run(...)`, extracts the concrete input file of
each (`scenarios.inputs_of`), replays it through the real solver with NO prompt under the natural
schedule (logging every attempted line) and through the Lean model with the translated catalogue
`Gen.cat<year>`, and compares: verdict or exception class (+ the line / input / form it belongs
to), every solved value (floats by IEEE bits, enums by member, strings exactly), the set of loaded
forms, the unimplemented list, both unmet-dependency maps and the sequence of attempted lines.
It also checks (informational, `replay_differs`) that the replay reproduces the values of the
original prompted run.

`run(seed, n, run_step)` generates `n` scenarios with the scenario generator and compares them.
"""
import configparser
import enum as pyenum
import os
import random
import struct
import sys
import traceback

HERE = os.path.dirname(os.path.abspath(__file__))
if HERE not in sys.path:
    sys.path.insert(0, HERE)

from common import REPO  # noqa: E402,F401  (sets sys.path / env)
import scenarios  # noqa: E402

YEARS = (2021, 2022, 2023)


# ------------------------------------------------------------------------------------ canonical text

def show_val(v):
    if v is None:
        return 'None'
    if isinstance(v, bool):
        return 'True' if v else 'False'
    if isinstance(v, pyenum.Enum):
        return 'e:' + v.name
    if isinstance(v, int):
        return 'i:%d' % v
    if isinstance(v, float):
        bits = struct.unpack('>Q', struct.pack('>d', v))[0]
        if v != v:
            bits = 0x7ff8000000000000
        return 'f:%016x' % bits
    if isinstance(v, str):
        return 's:' + v.encode('utf-8').hex()
    if isinstance(v, tuple):
        return 't[' + ','.join(show_val(x) for x in v) + ']'
    if isinstance(v, list):
        return 'l[' + ','.join(show_val(x) for x in v) + ']'
    if isinstance(v, dict):
        return 'd[' + ','.join(show_val(x) for x in v.keys()) + '|' + ','.join(show_val(x) for x in v.values()) + ']'
    return 'other:' + type(v).__name__


EXC_NAMES = {'UnboundLocalError': 'NameError'}


def classify_exception(e, attempts):
    """the comparable abort line for an exception that escaped Solver.solve"""
    from habutax import inputs as hinputs
    name = type(e).__name__
    name = EXC_NAMES.get(name, name)
    tb = e.__traceback__
    frames = []
    while tb is not None:
        frames.append(tb.tb_frame)
        tb = tb.tb_next
    if isinstance(e, RecursionError):
        return 'verdict abort RecursionError'
    if isinstance(e, hinputs.InvalidInput):
        return f'verdict abort InvalidInput input={e.input_name}'
    in_line = any(f.f_code.co_name == 'value' and f.f_code.co_filename.endswith('fields.py') for f in frames)
    if in_line:
        return f'verdict abort {name} line={attempts[-1] if attempts else "?"}'
    if isinstance(e, NotImplementedError):
        msg = str(e)
        return 'verdict abort NotImplementedError form=' + msg[len('Form '):-len(' is not supported.')]
    last = frames[-1] if frames else None
    src = traceback.extract_tb(e.__traceback__)[-1].line or ''
    if isinstance(e, AssertionError):
        if '_field_map' in src:
            ctx = e.__context__          # raised while handling the UnmetDependency
            dep = getattr(ctx, 'dependency', '?')
            return f'verdict abort AssertionError noSuchField={dep}'
        if 'valid(value)' in src:
            return 'verdict abort AssertionError invalidAnswer=?'
        if last is not None and last.f_code.co_name == '__init__':
            slf = last.f_locals.get('self')
            return f'verdict abort AssertionError ctor={getattr(type(slf), "form_name", "?")}'
        return f'verdict abort AssertionError other={src}'
    if isinstance(e, ValueError) and 'split' in src:
        return 'verdict abort ValueError badName'
    if isinstance(e, KeyError) and '_field_map[field_name]' in src:
        return f'verdict abort KeyError field={e.args[0]}'
    return f'verdict abort {name} other={src}'


# ------------------------------------------------------------------------------------ the two sides

def replay_real(year, forms, inputs):
    """real solver, no prompt, natural schedule, on a complete input file; returns result lines"""
    from habutax import solver as hsolver, inputs as hinputs, forms as hforms
    cfg = configparser.ConfigParser(interpolation=None)
    for k, v in inputs.items():
        sec, opt = k.split('.')
        if not cfg.has_section(sec):
            cfg.add_section(sec)
        cfg.set(sec, opt, v)
    store = hinputs.InputStore(cfg)
    attempts = []
    orig = hsolver.Solver._attempt_field

    def logged(self, field):
        attempts.append(field.name())
        return orig(self, field)
    hsolver._verif_schedule = None
    s = hsolver.Solver(store, hforms.available_forms[year], prompt=None)
    hsolver.Solver._attempt_field = logged
    try:
        try:
            ok = s.solve(list(forms))
        finally:
            hsolver.Solver._attempt_field = orig
    except BaseException as e:  # noqa: BLE001
        if isinstance(e, (KeyboardInterrupt, SystemExit)):
            raise
        return [classify_exception(e, attempts)], s
    lines = [f'verdict {"solved" if ok else "failed"}',
             'v ' + ';'.join(sorted(f'{k}={show_val(v)}' for k, v in s._v.values.items())),
             'forms ' + ','.join(sorted(s.forms.keys())),
             'unimpl ' + ','.join(s.unimplemented_fields()),
             'unmetI ' + ';'.join(f'{d}:{",".join(ws)}' for d, ws in s.unmet_input_dependencies().items()),
             'unmetF ' + ';'.join(f'{d}:{",".join(ws)}' for d, ws in s.unmet_field_dependencies().items()),
             'attempts ' + ','.join(attempts)]
    return lines, s


def protocol(year, forms, inputs):
    out = [f'real-begin {year}']
    for k in inputs:
        out.append(f'inph {k} {inputs[k].encode("utf-8").hex()}')
    out.append('solve ' + ','.join(forms))
    out.append('end')
    return out


def split_model_output(lines, ncases):
    """per case: the lines up to `done`"""
    out, cur = [], []
    for l in lines:
        if l == 'done':
            out.append(cur)
            cur = []
        else:
            cur.append(l)
    if cur:
        out.append(cur)
    while len(out) < ncases:
        out.append(['<no output>'])
    return out


def default_run_step(lines):
    from common import run_driver
    return run_driver(lines, timeout=3600)


def compare(results, run_step=None, info=None):
    """list of disagreements (dicts with op / model / real) between the Lean model and the real
    solver on the concrete inputs of the given finished scenario runs"""
    run_step = run_step or default_run_step
    cases, proto = [], []
    for r in results:
        inputs = scenarios.inputs_of(r)
        real, s = replay_real(r['year'], r['forms'], inputs)
        cases.append((r, inputs, real))
        proto += protocol(r['year'], r['forms'], inputs)
    model_out = split_model_output(run_step(proto), len(cases)) if cases else []
    bad = []
    dist = info if info is not None else {}
    for k, ((r, inputs, real), model) in enumerate(zip(cases, model_out)):
        verdict = ' '.join(real[0].split(' ')[:3]) if real[0].startswith('verdict abort') else real[0]
        dist[verdict] = dist.get(verdict, 0) + 1
        if model != real:
            diffs = []
            for a, b in zip(model + ['<none>'] * (len(real) - len(model)), real + ['<none>'] * (len(model) - len(real))):
                if a != b:
                    diffs.append((a, b))
            first = diffs[0] if diffs else ('', '')
            bad.append({'op': f'solve {r["year"]} {",".join(r["forms"])} [{len(inputs)} inputs] case {k}',
                        'model': summarize_diff(first[0], first[1])[0],
                        'real': summarize_diff(first[0], first[1])[1],
                        'inputs': inputs})
        # informational: does the replay reproduce the original (prompted) run?
        if r.get('exception') is None and real[0] in ('verdict solved', 'verdict failed'):
            orig_v = 'v ' + ';'.join(sorted(f'{k2}={show_val(v)}' for k2, v in r['solver']._v.values.items()))
            if orig_v != real[1] or (real[0] == 'verdict solved') != bool(r['ok']):
                dist['replay_differs'] = dist.get('replay_differs', 0) + 1
    return bad


def summarize_diff(a, b, width=400):
    """for long `v`/`attempts` lines show the first differing item"""
    if a[:2] == b[:2] and (';' in a or ',' in a):
        sep = ';' if a.startswith(('v ', 'unmet')) else ','
        xa, xb = a.split(' ', 1)[-1].split(sep), b.split(' ', 1)[-1].split(sep)
        for i, (p, q) in enumerate(zip(xa + ['<end>'] * (len(xb) - len(xa)), xb + ['<end>'] * (len(xa) - len(xb)))):
            if p != q:
                return (f'{a.split(" ")[0]}[{i}] {p}'[:width], f'{b.split(" ")[0]}[{i}] {q}'[:width])
    return a[:width], b[:width]


# ------------------------------------------------------------------------------------ stream entry

def gen_results(seed, n, kinds=None):
    results, meta = [], []
    for k in range(n):
        year = YEARS[k % len(YEARS)]
        sseed = f'{seed}/real/{k}'
        policy, kind = scenarios.gen_policy(sseed, year, kind=(kinds[k % len(kinds)] if kinds else None))
        forms = scenarios.request_for(sseed, year, kind)
        r = scenarios.run(year, forms, policy)
        results.append(r)
        meta.append((year, kind, forms))
    return results, meta


def run(seed, n, run_step=None, batch=25):
    """COMMON.md stream interface"""
    dist, bad, samples = {}, [], []
    kinds = {}
    done = 0
    k0 = 0
    while k0 < n:
        m = min(batch, n - k0)
        results, meta = [], []
        for k in range(k0, k0 + m):
            year = YEARS[k % len(YEARS)]
            sseed = f'{seed}/real/{k}'
            policy, kind = scenarios.gen_policy(sseed, year)
            forms = scenarios.request_for(sseed, year, kind)
            results.append(scenarios.run(year, forms, policy))
            kinds[f'{year}/{kind}'] = kinds.get(f'{year}/{kind}', 0) + 1
        bad += compare(results, run_step, info=dist)
        if not samples and results:
            r = results[0]
            samples.append({'year': r['year'], 'forms': r['forms'], 'inputs': len(scenarios.inputs_of(r)),
                            'values': len(r['solver']._v.values)})
        done += m
        k0 += m
    return {'cases': done, 'disagreements': bad, 'distribution': {'outcome': dist, 'scenario': kinds},
            'samples': samples}


# ------------------------------------------------------------------------------------ input-text cases

VARIANTS = {
    'BooleanInput': ['YES', 'Yes', 'on', 'OFF', 'y', 'N', ' true ', 'maybe', '', '\uff59\uff45\uff53', 'False', '1', '0',
                     '\u00a0no\u2003', 'T', 'oN', '\u212a'],
    'IntegerInput': ['007', '+3', '-0', '1_0', '1__0', '_1', '\u0663', '\uff13', '1.0', '0x10', '', ' ', '1e3', '\uff19\uff19',
                     ' 2 ', '\t1\n', '\u00a02', '2\u3000', '--1', '1 0', '\u0967\u0968', '3_', '1_000'],
    'FloatInput': ['1e3', '.5', '5.', '1_000.5', 'inf', 'nan', '-inf', '1e999', '\u0661\u0662.\u0665', 'Infinity', '+1.5e-3',
                   '1,000', '1e', '--1', '1.7976931348623159e308', '4.9e-324', '0x1p3', ' 12.50 ', '\u00a07.25', '1_0.5',
                   '1e+3', '1E3', '-0.0', '.', '1._5', '\uff11.\uff15', '2.675', '0.1', '1e-400', '12.345678901234567890'],
    'SSNInput': ['123-45-6789', '123456789', '12-345-6789', '\uff11\uff12\uff13\uff14\uff15\uff16\uff17\uff18\uff19', '123-45-678',
                 '1234567890', ' 123-45-6789 ', '---123456789', '12345678a', '\u0661\u0662\u0663456789'],
    'RegexInput': ['011000015', '011000015\n', '991000015', '01100001', '\uff10\uff11\uff11000015', 'ACCT-12345', 'a' * 17, 'a' * 18,
                   'AC CT', '', 'x_y', '321000015', '331000015', '12-34'],
    'StringInput': ['caf\u00e9', ' padded ', '\u00a0nbsp\u00a0', '', 'a.b', 'x:y', 'tab\there', '\u2003em', 'MiXeD', "O'Brien"],
    'EnumInput': ['', ' ', 'single', 'Single', ' Single ', 'None', 'NC', 'nc', ' NC', 'taxpayer', 'Taxpayer', 'spouse\u00a0', 'XX'],
}


def perturb(result, rng, k=None):
    """a copy of the run's input file with a few texts replaced by variants for the input's class"""
    inputs = dict(scenarios.inputs_of(result))
    imap = result['solver']._input_map
    by_cls = {}
    for n in inputs:
        if n in imap:
            by_cls.setdefault(type(imap[n]).__name__, []).append(n)
    changed = []
    picked = []
    for _ in range(k or rng.choice([1, 1, 2, 3])):       # every input class equally often
        cls = rng.choice(sorted(by_cls))
        n = rng.choice(by_cls[cls])
        if n not in picked:
            picked.append(n)
    for n in picked:
        cls = type(imap[n]).__name__
        inputs[n] = rng.choice(VARIANTS.get(cls, VARIANTS['StringInput']))
        changed.append((n, cls, inputs[n]))
    return inputs, changed


def run_inputs(seed, n, run_step=None, batch=30):
    """input-text cases: solved scenarios replayed with some input texts replaced by whitespace /
    case / sign / underscore / Unicode-digit / non-finite / near-miss variants; both sides must
    agree on `InvalidInput` (and the input it names) or on every value"""
    run_step = run_step or default_run_step
    dist, bad, samples = {}, [], []
    kinds = {}
    done, k0 = 0, 0
    while done < n:
        rng = random.Random(f'{seed}/inputs/{k0}')
        year = YEARS[k0 % len(YEARS)]
        sseed = f'{seed}/inputs-base/{k0}'
        policy, kind = scenarios.gen_policy(sseed, year, kind=rng.choice(['plain', 'rich', 'itemize', 'deps']))
        base = scenarios.run(year, scenarios.request_for(sseed, year, kind), policy)
        k0 += 1
        if base.get('exception') is not None:
            continue
        cases, proto = [], []
        for _ in range(min(batch, n - done)):
            inputs, changed = perturb(base, rng)
            real, _s = replay_real(base['year'], base['forms'], inputs)
            cases.append((inputs, changed, real))
            proto += protocol(base['year'], base['forms'], inputs)
            for _n, cls, _t in changed:
                kinds[cls] = kinds.get(cls, 0) + 1
        model_out = split_model_output(run_step(proto), len(cases))
        for (inputs, changed, real), model in zip(cases, model_out):
            done += 1
            verdict = ' '.join(real[0].split(' ')[:3]) if real[0].startswith('verdict abort') else real[0]
            dist[verdict] = dist.get(verdict, 0) + 1
            if model != real:
                diffs = [(a, b) for a, b in zip(model + ['<none>'] * len(real), real + ['<none>'] * len(model)) if a != b]
                a, b = summarize_diff(*diffs[0])
                bad.append({'op': f'inputs {base["year"]} changed={changed!r}', 'model': a, 'real': b})
            elif len(samples) < 3:
                samples.append({'changed': repr(changed), 'answer': real[0]})
    return {'cases': done, 'disagreements': bad, 'distribution': {'outcome': dist, 'changed_kind': kinds},
            'samples': samples}


if __name__ == '__main__':
    import json
    n = int(sys.argv[1]) if len(sys.argv) > 1 else 30
    seed = int(sys.argv[2]) if len(sys.argv) > 2 else 0
    res = run(seed, n)
    print(json.dumps({k: v for k, v in res.items() if k != 'disagreements'}, indent=1))
    print('disagreements', len(res['disagreements']))
    for d in res['disagreements'][:5]:
        print(d['op'])
        print('  MODEL', d['model'])
        print('  REAL ', d['real'])
