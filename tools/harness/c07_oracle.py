"""C07 statement oracle: the REAL `figure_tax(x, status)` of every tax year against an independent copy of the
statutory rate schedule.

    run(seed, tier) -> {"violations": [...], "violation_counts": {...}, "undefined_ranges": [...],
                        "checked": {...}, "samples": [...], "spec_cross_check": {...}}

The oracle does NOT read `TAX_TABLE` / `TAX_WORKSHEET_VALUES` to decide what is right.  It holds

  * the bracket ends of DESIGN.md Appendix B (Rev. Proc. 2020-45 / 2021-45 / 2022-38 s. 3.01), typed in here once more
    (a third transcription next to Spec/Brackets.lean; `spec_cross_check` reports whether the two agree);
  * the lay-out of the IRS Tax Table: rows [0,5) [5,15) [15,25), then $25 rows up to 3000, then $50 rows up to 100000,
    the entry being the tax at the row midpoint rounded half-up to whole dollars;
  * from 100000 on: the exact bracket formula.

All expected values are exact `Fraction`s of the very float that is passed to the code.

Comparison.  Table region: the result must equal the entry of the row.  Worksheet region: |real - exact| <= 0.005 and
`round(real, 2)` must be a cent value within half a cent of the exact tax (the cent comparison is the closeness test
again at cent resolution; at an exact half-cent tie either neighbour is accepted).

Points (per year x 5 statuses).  quick: every row of the IRS lay-out and of the code's own table at lo, midpoint,
hi - 0.01; every bracket edge e and e +- 0.005, +- 0.01, +- 1; 100000 and 100000 +- 0.01; 0; 10^12; 2,000 sampled
incomes up to 10^12 (log-uniform, whole cents).  thorough adds every whole dollar of [0, 100000).
On the sorted list of all points of one (year, status): the tax must be non-decreasing (`not_monotone`) and grow by
at most 0.37 per dollar plus one table step, 19.50 (`marginal`); QSS must equal MFJ bit for bit (`qss_ne_mfj`).

violation = {year, status, income, got, expected, kind in {undefined, wrong, not_monotone, qss_ne_mfj, marginal}}
(the list is capped per (year, kind, status); `violation_counts` has the full numbers, `undefined_ranges` the maximal runs
of consecutive evaluated points at which the code raised).
"""
import importlib
import os
import random
import re
import sys
import warnings
from bisect import bisect_right
from fractions import Fraction

try:
    import common                        # sets sys.path for habutax, HABUTAX_VERIF, dont_write_bytecode
    VERIF = common.VERIF
except ImportError:                      # run from elsewhere
    sys.dont_write_bytecode = True
    VERIF = os.path.dirname(os.path.dirname(os.path.dirname(os.path.abspath(__file__))))
    _repo = os.environ.get('HABUTAX_REPO', '/repo')
    if _repo not in sys.path:
        sys.path.insert(0, _repo)

YEARS = (2021, 2022, 2023)
COLS = ('single', 'mfj', 'mfs', 'hoh')
STATUSES = ('single', 'mfj', 'mfs', 'hoh', 'qss')
SPEC_COL = {'single': 'single', 'mfj': 'mfj', 'mfs': 'mfs', 'hoh': 'hoh', 'qss': 'mfj'}
MEMBER = {'single': ('Single',), 'mfj': ('MarriedFilingJointly',), 'mfs': ('MarriedFilingSeparately',),
          'hoh': ('HeadOfHousehold',), 'qss': ('QualifyingSurvivingSpouse', 'QualifyingWidowWidower')}

RATES = tuple(Fraction(p, 100) for p in (10, 12, 22, 24, 32, 35, 37))
# DESIGN.md Appendix B: upper ends of the first six brackets
BRACKET_ENDS = {
    (2021, 'single'): (9950, 40525, 86375, 164925, 209425, 523600),
    (2021, 'mfj'): (19900, 81050, 172750, 329850, 418850, 628300),
    (2021, 'mfs'): (9950, 40525, 86375, 164925, 209425, 314150),
    (2021, 'hoh'): (14200, 54200, 86350, 164900, 209400, 523600),
    (2022, 'single'): (10275, 41775, 89075, 170050, 215950, 539900),
    (2022, 'mfj'): (20550, 83550, 178150, 340100, 431900, 647850),
    (2022, 'mfs'): (10275, 41775, 89075, 170050, 215950, 323925),
    (2022, 'hoh'): (14650, 55900, 89050, 170050, 215950, 539900),
    (2023, 'single'): (11000, 44725, 95375, 182100, 231250, 578125),
    (2023, 'mfj'): (22000, 89450, 190750, 364200, 462500, 693750),
    (2023, 'mfs'): (11000, 44725, 95375, 182100, 231250, 346875),
    (2023, 'hoh'): (15700, 59850, 95350, 182100, 231250, 578100),
}
TABLE_TOP = 100000
MAX_INCOME = 10 ** 12
TOP_RATE = Fraction(37, 100)
TABLE_STEP = TOP_RATE * 50 + 1          # 19.50
CAP = 10                                # violations kept per (year, kind, status)


# ---- the specification ---------------------------------------------------------------------------
def bracket_tax(year, col, x):
    """exact statutory tax on `x` (a Fraction >= 0)"""
    tax, prev = Fraction(0), Fraction(0)
    for end, rate in zip(BRACKET_ENDS[(year, col)], RATES):
        if x <= end:
            return tax + rate * (x - prev)
        tax += rate * (end - prev)
        prev = Fraction(end)
    return tax + RATES[6] * (x - prev)


def irs_rows():
    rows = [(0, 5), (5, 15), (15, 25)]
    lo = 25
    while lo < 3000:
        rows.append((lo, lo + 25))
        lo += 25
    while lo < TABLE_TOP:
        rows.append((lo, lo + 50))
        lo += 50
    return rows


IRS_ROWS = irs_rows()
IRS_LOS = [r[0] for r in IRS_ROWS]


def irs_row_of(x):
    """the row [lo, hi) of the IRS lay-out that contains 0 <= x < 100000"""
    return IRS_ROWS[bisect_right(IRS_LOS, x) - 1]


def round_half_up(q):
    return (2 * q.numerator + q.denominator) // (2 * q.denominator)


_cell_cache = {}


def table_cell(year, col, lo, hi):
    k = (year, col, lo)
    v = _cell_cache.get(k)
    if v is None:
        v = _cell_cache[k] = round_half_up(bracket_tax(year, col, Fraction(lo + hi, 2)))
    return v


def expected(year, status, xf):
    """('table', int) | ('formula', Fraction) for the float `xf` in [0, 10^12]"""
    col = SPEC_COL[status]
    if xf < TABLE_TOP:
        lo, hi = irs_row_of(xf)
        return 'table', table_cell(year, col, lo, hi)
    return 'formula', bracket_tax(year, col, Fraction(xf))


# ---- the code under test ---------------------------------------------------------------------------
def load_year(year):
    with warnings.catch_warnings():
        warnings.simplefilter('ignore')
        mod = importlib.import_module(f'habutax.forms.ty{year}.f1040_figure_tax')
        import habutax.enum as henum
    fs = henum.filing_status_2021 if (year == 2021 and hasattr(henum, 'filing_status_2021')) else henum.filing_status
    members = {}
    for st, names in MEMBER.items():
        for nm in names:
            if hasattr(fs, nm):
                members[st] = getattr(fs, nm)
                break
    return mod, members


def call(mod, member, xf):
    try:
        return 'ok', mod.figure_tax(xf, member)
    except AssertionError:
        return 'AssertionError', None
    except Exception as e:              # noqa: BLE001  (whatever it is, it is not a tax)
        return type(e).__name__, None


def cross_check_lean():
    path = os.path.join(VERIF, 'lean', 'HabuVerif', 'Spec', 'Brackets.lean')
    try:
        text = open(path, encoding='utf-8').read()
    except OSError:
        return {'file': path, 'found': False}
    got = {}
    for m in re.finditer(r'\|\s*\.y(\d{4}),\s*\.(\w+)\s*=>\s*\[([0-9,\s]+)\]', text):
        got[(int(m.group(1)), m.group(2))] = tuple(int(t) for t in m.group(3).split(','))
    diff = sorted(f'{k[0]}/{k[1]}' for k in set(got) | set(BRACKET_ENDS) if got.get(k) != BRACKET_ENDS.get(k))
    return {'file': path, 'found': True, 'schedules': len(got), 'agree': not diff, 'differences': diff}


# ---- points ------------------------------------------------------------------------------------------
def points_for(year, mod, seed, tier):
    pts = {0.0, float(MAX_INCOME), float(TABLE_TOP), TABLE_TOP - 0.01, TABLE_TOP + 0.01}
    code_rows = []
    try:
        code_rows = [(r[0], r[1]) for r in mod.TAX_TABLE if isinstance(r[0], (int, float)) and isinstance(r[1], (int, float))]
    except Exception:                   # noqa: BLE001
        pass
    for lo, hi in IRS_ROWS + code_rows:
        if 0 <= lo < hi <= MAX_INCOME:
            pts |= {float(lo), (lo + hi) / 2, round(hi - 0.01, 2)}
    n_edges = 0
    for col in COLS:
        for e in BRACKET_ENDS[(year, col)]:
            n_edges += 1
            for d in (0, 0.005, -0.005, 0.01, -0.01, 1, -1):
                pts.add(round(e + d, 3))
    rng = random.Random(f'{seed}/c07/{year}/incomes')
    n_samples = 2000
    for _ in range(n_samples):
        u = rng.random()
        if u < 0.25:
            cents = rng.randrange(0, TABLE_TOP * 100)
        elif u < 0.6:
            cents = rng.randrange(TABLE_TOP * 100, 1000000 * 100)
        else:
            cents = int(10 ** rng.uniform(7, 14))
        pts.add(min(cents, MAX_INCOME * 100) / 100)
    n_dollars = 0
    if tier == 'thorough':
        n_dollars = TABLE_TOP
        pts |= {float(d) for d in range(TABLE_TOP)}
    pts = sorted(p for p in pts if 0 <= p <= MAX_INCOME)
    return pts, dict(irs_rows=len(IRS_ROWS), code_rows=len(code_rows), bracket_edges=n_edges, sampled=n_samples, whole_dollars=n_dollars)


# ---- the run -------------------------------------------------------------------------------------------
def run(seed, tier):
    violations, counts, undefined_ranges, samples = [], {}, [], []
    kept = {}
    checked = {'calls': 0, 'points': 0, 'table_region': 0, 'worksheet_region': 0, 'monotone_pairs': 0,
               'marginal_pairs': 0, 'qss_pairs': 0, 'per_year': {}}

    def violate(year, status, income, got, exp, kind, **extra):
        counts[f'{year}/{kind}'] = counts.get(f'{year}/{kind}', 0) + 1
        counts[kind] = counts.get(kind, 0) + 1
        k = (year, kind, status)
        kept[k] = kept.get(k, 0) + 1
        if kept[k] <= CAP:
            v = dict(year=year, status=status, income=income, got=got, expected=exp, kind=kind)
            v.update(extra)
            violations.append(v)

    srng = random.Random(f'{seed}/c07/samples')
    for year in YEARS:
        mod, members = load_year(year)
        pts, pinfo = points_for(year, mod, seed, tier)
        checked['per_year'][str(year)] = dict(pinfo, points=len(pts))
        checked['points'] += len(pts)
        sample_idx = set(srng.sample(range(len(pts)), min(4, len(pts))))
        results = {}
        for st in STATUSES:
            if st not in members:
                violate(year, st, None, 'no such enumeration member', None, 'undefined')
                continue
            member = members[st]
            res = []
            prev = None                 # (income, value) of the last defined point
            run_start = run_end = None
            for i, xf in enumerate(pts):
                kind, val = call(mod, member, xf)
                checked['calls'] += 1
                res.append((kind, val))
                region, exp = expected(year, st, xf)
                checked['table_region' if region == 'table' else 'worksheet_region'] += 1
                exp_out = exp if region == 'table' else float(exp)
                if kind != 'ok':
                    violate(year, st, xf, kind, exp_out, 'undefined')
                    if run_start is None:
                        run_start = xf
                    run_end = xf
                    continue
                if run_start is not None:
                    undefined_ranges.append(dict(year=year, status=st, first=run_start, last=run_end))
                    run_start = None
                if isinstance(val, bool) or not isinstance(val, (int, float)) or val != val:
                    violate(year, st, xf, repr(val), exp_out, 'wrong')
                    continue
                if region == 'table':
                    if val != exp:
                        lo, hi = irs_row_of(xf)
                        violate(year, st, xf, val, exp, 'wrong', row=[lo, hi])
                else:
                    exact_val = Fraction(val)
                    cents = Fraction(round(val, 2))
                    if abs(exact_val - exp) > Fraction(5, 1000):
                        violate(year, st, xf, val, exp_out, 'wrong')
                    elif abs(cents - exp) > Fraction(5, 1000) + Fraction(2, 10000):
                        violate(year, st, xf, val, exp_out, 'wrong', detail='differs after rounding to cents')
                if prev is not None:
                    px, pv = prev
                    checked['monotone_pairs'] += 1
                    if val < pv:
                        violate(year, st, xf, val, pv, 'not_monotone', previous_income=px)
                    checked['marginal_pairs'] += 1
                    if (val - pv > 0.37 * (xf - px) + 19.0) and \
                            Fraction(val) - Fraction(pv) > TOP_RATE * (Fraction(xf) - Fraction(px)) + TABLE_STEP + Fraction(1, 100):
                        violate(year, st, xf, val, float(Fraction(pv) + TOP_RATE * (Fraction(xf) - Fraction(px)) + TABLE_STEP),
                                'marginal', previous_income=px, previous_tax=pv)
                prev = (xf, val)
                if i in sample_idx and len(samples) < 40:
                    samples.append(dict(year=year, status=st, income=xf, got=val, expected=exp_out, region=region))
            if run_start is not None:
                undefined_ranges.append(dict(year=year, status=st, first=run_start, last=run_end))
            results[st] = res
        # history pass: the tax is a function of (amount, status) ONLY.  The sweep above keeps the status fixed while the
        # amount moves; here the amount is fixed while the status moves (and each amount is asked twice), so that
        # anything remembered from the previous call — a last-row memo keyed by the amount alone (seed C07g), a cached
        # column — shows up as a disagreement with the first pass, replayable as the two-call sequence.
        hrng = random.Random(f'{seed}/c07/history/{year}')
        idxs = list(range(len(pts)))
        if tier != 'thorough' and len(idxs) > 4000:
            idxs = sorted(hrng.sample(idxs, 4000))
        sts = [st for st in STATUSES if st in results]
        last_call = None
        for i in idxs:
            order = sts[:]
            hrng.shuffle(order)
            for st in order + order[:1]:
                kind, val = call(mod, members[st], pts[i])
                checked['calls'] += 1
                checked['history_calls'] = checked.get('history_calls', 0) + 1
                first = results[st][i]
                same = (kind, val) == first or (kind == 'ok' and first[0] == 'ok' and val != val and first[1] != first[1])
                if not same and kind == first[0] and kind != 'ok':
                    same = True
                if not same:
                    violate(year, st, pts[i], val if kind == 'ok' else kind, first[1] if first[0] == 'ok' else first[0],
                            'history_dependent', previous_call=last_call,
                            detail='the same (amount, status) gave a different answer after a different previous call')
                last_call = dict(income=pts[i], status=st)
        if 'qss' in results and 'mfj' in results:
            for xf, a, b in zip(pts, results['qss'], results['mfj']):
                checked['qss_pairs'] += 1
                if a != b and not (a[1] != a[1] and b[1] != b[1]):
                    violate(year, 'qss', xf, a[1] if a[0] == 'ok' else a[0], b[1] if b[0] == 'ok' else b[0], 'qss_ne_mfj')
    return {'violations': violations, 'violation_counts': counts, 'violations_capped_at': CAP,
            'undefined_ranges': undefined_ranges, 'checked': checked, 'samples': samples,
            'spec_cross_check': cross_check_lean(), 'tier': tier, 'seed': seed}


if __name__ == '__main__':
    import json
    out = run(int(os.environ.get('VERIF_SEED', '0')), sys.argv[1] if len(sys.argv) > 1 else 'quick')
    out['violations'] = out['violations'][:12]
    print(json.dumps(out, indent=1, default=str))
