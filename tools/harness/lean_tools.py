"""Building the Lean development and checking proof obligations."""
import fcntl
import os
import re
import subprocess
import time

from common import LEAN_DIR, VERIF

ALLOWED_AXIOMS = {'propext', 'Classical.choice', 'Quot.sound'}
FORBIDDEN = re.compile(r'\bsorry\b|\badmit\b|^\s*axiom\s|native_decide|bv_decide|implemented_by|\bunsafe\s|maxHeartbeats\s+0|\bpartial\s+def', re.M)


class ToolTrouble(Exception):
    pass


def _run(cmd, cwd, timeout):
    try:
        p = subprocess.run(cmd, cwd=cwd, stdout=subprocess.PIPE, stderr=subprocess.STDOUT, timeout=timeout)
    except subprocess.TimeoutExpired:
        raise ToolTrouble(f'timeout after {timeout}s: {" ".join(cmd)}')
    return p.returncode, p.stdout.decode('utf-8', 'replace')


class _Lock:
    def __enter__(self):
        os.makedirs(os.path.join(LEAN_DIR, '.lake'), exist_ok=True)
        self.f = open(os.path.join(LEAN_DIR, '.lake', 'verif.lock'), 'w')
        fcntl.flock(self.f, fcntl.LOCK_EX)
        return self

    def __exit__(self, *a):
        fcntl.flock(self.f, fcntl.LOCK_UN)
        self.f.close()


def strip_comments(text):
    # block comments (possibly nested) then line comments
    out, depth, i = [], 0, 0
    while i < len(text):
        if text.startswith('/-', i):
            depth += 1
            i += 2
        elif text.startswith('-/', i) and depth > 0:
            depth -= 1
            i += 2
        elif depth > 0:
            if text[i] == '\n':
                out.append('\n')
            i += 1
        else:
            out.append(text[i])
            i += 1
    text = ''.join(out)
    return '\n'.join(line.split('--')[0] for line in text.split('\n'))


def forbidden_scan():
    """sorry / axiom / native_decide ... anywhere in the development (comments excluded; the
    driver's IO loop is the one allowed `partial def`)."""
    hits = []
    for root, dirs, files in os.walk(LEAN_DIR):
        dirs[:] = [d for d in dirs if d != '.lake']
        for fn in files:
            if not fn.endswith('.lean'):
                continue
            path = os.path.join(root, fn)
            text = strip_comments(open(path, encoding='utf-8').read())
            for m in FORBIDDEN.finditer(text):
                tok = m.group(0).strip()
                if tok.startswith('partial') and fn == 'Driver.lean':
                    continue
                line = text.count('\n', 0, m.start()) + 1
                hits.append(f'{os.path.relpath(path, VERIF)}:{line}: {tok}')
    return hits


def build(targets, timeout=3000):
    """lake build the given targets; returns (ok, log)."""
    with _Lock():
        code, out = _run(['lake', 'build'] + targets, LEAN_DIR, timeout)
    return code == 0, out


AX_RE = re.compile(r"'([^']+)' depends on axioms: \[([^\]]*)\]")
NOAX_RE = re.compile(r"'([^']+)' does not depend on any axioms")


def axioms_from_log(log, relpath):
    """`#print axioms` messages that `lake build` printed (or replayed from its cache, which is keyed by the
    content of the module and of everything it imports) for the given Props file"""
    res = {}
    text = log.replace('\n  ', ' ')
    for line in text.split('\n'):
        if relpath not in line:
            continue
        m = AX_RE.search(line)
        if m:
            res[m.group(1)] = [a.strip() for a in m.group(2).split(',') if a.strip()]
            continue
        m = NOAX_RE.search(line)
        if m:
            res[m.group(1)] = []
    return res


def axioms_of_module(relpath, timeout=1800):
    """Re-elaborate one Props file and collect its `#print axioms` lines."""
    code, out = _run(['lake', 'env', 'lean', relpath], LEAN_DIR, timeout)
    res = {}
    for m in AX_RE.finditer(out.replace('\n  ', ' ')):
        res[m.group(1)] = [a.strip() for a in m.group(2).split(',') if a.strip()]
    for m in NOAX_RE.finditer(out):
        res[m.group(1)] = []
    return code == 0, res, out


def prepare(ctx):
    """Regenerate the generated part of the model from /repo's working tree, build the driver and
    the property's theorem module."""
    t0 = time.time()
    import generate
    ctx.gen_info = generate.generate_for(ctx.pid)
    targets = ['driver', f'HabuVerif.Props.{ctx.pid}'] + ctx.gen_info.get('extra_targets', [])
    ok, log = build(targets)
    ctx.build_ok = ok
    ctx.build_log = log
    if not os.path.exists(os.path.join(LEAN_DIR, '.lake', 'build', 'bin', 'driver')):
        # without the driver no correspondence can run: that is tool trouble unless the model itself is broken
        ok2, log2 = build(['driver'])
        if not ok2:
            raise ToolTrouble('the model driver does not build:\n' + log2[-3000:])
    # thorough tier: the toolchain's independent re-checker replays the property module's declarations from the
    # compiled .olean (a second opinion on what the elaborator's kernel accepted); a rejection breaks the obligations
    if ok and getattr(ctx, 'tier', 'quick') == 'thorough' and os.environ.get('VERIF_NO_LEANCHECKER') != '1':
        t1 = time.time()
        try:
            mods = [f'HabuVerif.Props.{ctx.pid}'] + [t for t in ctx.gen_info.get('extra_targets', []) if t.startswith('HabuVerif.Props.')]
            code, out = _run(['lake', 'env', 'leanchecker'] + mods, LEAN_DIR, 1800)
        except Exception as e:  # noqa: BLE001
            code, out = 2, f'leanchecker could not run: {e}'
        bad = code != 0 or 'uncaught exception' in out or 'error' in out.lower()
        ctx.leanchecker = {'module': ' '.join(mods), 'ok': not bad, 'seconds': round(time.time() - t1, 1)}
        if bad:
            ctx.build_ok = False
            ctx.build_log = (log + '\nleanchecker: ' + out[-2000:])
    ctx.prepare_s = time.time() - t0
