"""C17 / C18 statement oracle over the REAL objects.

C17: iterate `habutax.forms.available_forms`, instantiate every class for each allowed instance, check the class
attributes, the input / line names, call the REAL `Form.threshold` for every (status-keyed table, filing status of
that year) pair, run the REAL `list-forms` / `list-form-inputs` commands and parse their output back with the REAL
`configparser` (through `habutax.inputs.InputStore`, i.e. the way an input file is read).

C18: compare every entry of the REAL `Form.pdf_fields()` with the field tree parsed from the bundled template
(tools/pdf_extract.py): target exists, no field driven twice, mapping class fits the widget, length limits, button
export values, choice options, line labels, mapped lines exist; evaluate the REAL `PDFField.value` of every button
for every value of its driving line and check that at most one box of a group is on.

    run(seed, tier) -> {"violations": [...], "checked": {...}, "samples": [...], "templates": {...}}

A violation is a dict with: property, year, form, what, witness.  The checks are exhaustive in both tiers (the
catalogue is finite); `seed` only selects the samples, `tier == "thorough"` adds the filled-in parse-back.
This module is both the failing-input search behind the Lean obligations of tools/gen_c17_c18.py (same checks,
independent code, real objects instead of the JSON mirror) and a statement check on every run.
"""
import configparser
import contextlib
import enum as _pyenum
import io
import os
import random
import re
import sys
import tempfile
import warnings

try:
    from common import REPO  # noqa: F401
except ImportError:  # imported from elsewhere
    sys.path.insert(0, os.path.dirname(os.path.abspath(__file__)))
    from common import REPO  # noqa: F401

TOOLS = os.path.dirname(os.path.dirname(os.path.abspath(__file__)))
if TOOLS not in sys.path:
    sys.path.insert(0, TOOLS)

import pdf_extract  # noqa: E402

RESERVED = ('habutax', 'DEFAULT')


def _import():
    with warnings.catch_warnings():
        warnings.simplefilter('ignore')
        import habutax
        import habutax.forms
        import habutax.form
        import habutax.inputs
        import habutax.fields
        import habutax.values
        import habutax.pdf_fields
    return habutax


def _instances(cls, hform):
    vi = getattr(cls, 'valid_instances', None)
    if vi:
        return list(vi)
    if isinstance(cls, type) and issubclass(cls, hform.InputForm):
        return ['0']
    return [None]


def _cli(habutax, argv):
    buf = io.StringIO()
    old = sys.argv
    code, err = None, None
    try:
        sys.argv = ['habutax'] + argv
        with contextlib.redirect_stdout(buf):
            try:
                habutax.main()
            except SystemExit as ex:
                code = ex.code
            except Exception as ex:  # noqa: BLE001
                err = f'{type(ex).__name__}: {ex}'
    finally:
        sys.argv = old
    return buf.getvalue(), code, err


class Oracle(object):
    def __init__(self, seed, tier):
        self.seed = seed
        self.tier = tier
        self.rng = random.Random(f'{seed}/c17c18')
        self.violations = []
        self.checked = {}
        self.samples = []
        self.h = _import()
        self.templates = {}

    def v(self, prop, year, form, what, **witness):
        self.violations.append({'property': prop, 'year': year, 'form': form, 'what': what, 'witness': witness})

    def count(self, key, n=1):
        self.checked[key] = self.checked.get(key, 0) + n

    # ------------------------------------------------------------------------------------------
    def build_year(self, year):
        """instantiate everything once: [(cls, instance, form or None, error)]"""
        h = self.h
        out = []
        for cls in h.forms.available_forms[year]:
            for inst in _instances(cls, h.form):
                try:
                    with warnings.catch_warnings():
                        warnings.simplefilter('ignore')
                        f = cls(instance=inst)
                    out.append((cls, inst, f, None))
                except Exception as ex:  # noqa: BLE001
                    out.append((cls, inst, None, f'{type(ex).__name__}: {ex}'))
        return out

    # ------------------------------------------------------------------------------------------
    def c17_year(self, year, built):
        h = self.h
        classes = h.forms.available_forms[year]
        names = []
        for cls in classes:
            nm = getattr(cls, 'form_name', None)
            self.count('c17.classes')
            names.append(nm)
            ty = getattr(cls, 'tax_year', None)
            if ty != year or isinstance(ty, bool) or not isinstance(ty, int):
                self.v('C17', year, nm, 'tax_year differs from the year of the catalogue', cls=cls.__name__,
                       module=cls.__module__, expected=year, found=ty)
            mod_year = None
            for part in (cls.__module__ or '').split('.'):
                if re.fullmatch(r'ty\d{4}', part):
                    mod_year = int(part[2:])
            if mod_year != year:
                self.v('C17', year, nm, 'class is defined in the directory of another year', cls=cls.__name__,
                       module=cls.__module__, expected=year, found=mod_year)
            if not isinstance(nm, str) or not nm:
                self.v('C17', year, nm, 'form_name missing', cls=cls.__name__)
            elif nm in RESERVED:
                self.v('C17', year, nm, 'form_name is a reserved section name', cls=cls.__name__)
            for attr in ('description', 'long_description'):
                val = getattr(cls, attr, None)
                if not isinstance(val, str) or not val.strip():
                    self.v('C17', year, nm, f'{attr} missing', cls=cls.__name__, found=val)
            jur = getattr(cls, 'jurisdiction', None)
            if not isinstance(jur, h.form.Jurisdiction):
                self.v('C17', year, nm, 'jurisdiction missing', cls=cls.__name__, found=repr(jur))
        for nm in sorted({n for n in names if names.count(n) > 1}, key=str):
            self.v('C17', year, nm, 'form_name is not unique', classes=[c.__name__ for c in classes if getattr(c, 'form_name', None) == nm])

        status_enum = None
        for cls, inst, f, err in built:
            nm = getattr(cls, 'form_name', None)
            self.count('c17.instances')
            if f is None:
                self.v('C17', year, nm, 'form cannot be instantiated', cls=cls.__name__, instance=inst, error=err)
                continue
            if nm == '1040' and status_enum is None:
                for i in f.inputs():
                    if i.base_name() == 'filing_status' and isinstance(i, h.inputs.EnumInput):
                        status_enum = vars(i)['enum']
            # fileable -> sequence number
            fileable = self.fileable(f)
            if fileable and not isinstance(getattr(cls, 'sequence_no', None), (int, float)):
                self.v('C17', year, f.name(), 'fileable form has no sequence_no', cls=cls.__name__)
            for kind, objs in (('input', f.inputs()), ('line', f.fields())):
                bases = [o.base_name() for o in objs]
                self.count(f'c17.{kind}_names', len(bases))
                for b in sorted({b for b in bases if bases.count(b) > 1}):
                    self.v('C17', year, f.name(), f'duplicate {kind} name', name=b, count=bases.count(b))
                for b in bases:
                    if not isinstance(b, str) or b == '':
                        self.v('C17', year, f.name(), f'{kind} name is empty or not a string', name=repr(b))
                        continue
                    if b != b.lower():
                        self.v('C17', year, f.name(), f'{kind} name is not lower-case', name=b)
                    if '.' in b:
                        self.v('C17', year, f.name(), f'{kind} name contains a dot', name=b)
                    if not b.isascii():
                        self.v('C17', year, f.name(), f'{kind} name is not ASCII', name=b)
        if status_enum is None:
            self.v('C17', year, '1040', 'the 1040 has no filing_status enum input')
            return
        members = list(status_enum.__members__.values())
        if len(members) != 5:
            self.v('C17', year, '1040', 'filing status enum does not have five members', found=[m.name for m in members])
        # thresholds
        for cls, inst, f, err in built:
            if f is None:
                continue
            for tname, t in getattr(f, '_thresholds', {}).items():
                if not isinstance(t, dict):
                    self.count('c17.scalar_thresholds')
                    continue
                flat = []
                for k in t:
                    flat.extend(k if isinstance(k, tuple) else (k,))
                is_status = any(isinstance(m, _pyenum.Enum) and type(m).__name__ == status_enum.__name__ for m in flat)
                if not is_status:
                    self.count('c17.tables_not_status_keyed')
                    continue
                self.count('c17.status_tables')
                for s in members:
                    self.count('c17.table_status_pairs')
                    # the code's own matching predicate, counted over all keys
                    hits = []
                    for k in t:
                        try:
                            if isinstance(k, type(s)):
                                if k == s:
                                    hits.append(k)
                            elif s in k:
                                hits.append(k)
                        except TypeError as ex:
                            self.v('C17', year, f.name(), 'threshold key cannot be matched against a status',
                                   table=tname, status=s.name, key=repr(k), error=str(ex))
                    # and the real method
                    try:
                        val = f.threshold(tname, s)
                        ok = True
                    except (AssertionError, TypeError) as ex:
                        val, ok = f'{type(ex).__name__}: {ex}', False
                    if len(hits) != 1 or not ok:
                        self.v('C17', year, f.name(), 'status-keyed threshold does not yield exactly one value',
                               table=tname, status=s.name, matching_keys=len(hits), expected=1, real_result=repr(val),
                               key_enums=sorted({f'{type(m).__module__}.{type(m).__name__}#{id(type(m)) == id(status_enum)}' for m in flat if isinstance(m, _pyenum.Enum)}))
                    elif t[hits[0]] != val and not (t[hits[0]] is val):
                        self.v('C17', year, f.name(), 'Form.threshold returned a value of another key',
                               table=tname, status=s.name, expected=repr(t[hits[0]]), found=repr(val))

    def fileable(self, f):
        try:
            r = f.needs_filing(self.h.values.ValueStore())
            return bool(r)
        except Exception:  # noqa: BLE001   (depends on values: can be true)
            return True

    # ------------------------------------------------------------------------------------------
    def c17_cli(self, year, built):
        h = self.h
        out, code, err = _cli(h, ['list-forms', '--year', str(year)])
        self.count('c17.list_forms_runs')
        classes = h.forms.available_forms[year]
        if err or code not in (None, 0):
            self.v('C17', year, None, 'list-forms failed', exit=code, error=err)
        else:
            lines = out.split('\n')
            rows = [ln for ln in lines[3:] if ln.strip()]
            listed = [ln.split(' | ')[0].strip() for ln in rows]
            want = [c.form_name for c in classes]
            if lines[0] != 'Form list:' or listed != want:
                self.v('C17', year, None, 'list-forms does not list exactly the catalogue', expected=want, found=listed)
            for c, ln in zip(classes, rows):
                cols = ln.split(' | ', 2)
                exp_desc = f'{c.description}: {c.long_description}'
                if len(cols) != 3 or cols[1].strip() != c.jurisdiction.name or cols[2] != exp_desc:
                    self.v('C17', year, c.form_name, 'list-forms row differs from the class attributes', row=ln)
        with tempfile.TemporaryDirectory() as tmp:
            for cls, inst, f, ferr in built:
                if f is None:
                    continue
                self.count('c17.list_form_inputs_runs')
                name = f.name()
                out, code, err = _cli(h, ['list-form-inputs', '--year', str(year), name])
                if err or code not in (None, 0):
                    self.v('C17', year, name, 'list-form-inputs failed', exit=code, error=err, stdout=out[:200])
                    continue
                inputs = [i.base_name() for i in f.inputs()]
                # (1) as printed: one section, no options
                path = os.path.join(tmp, 'as_printed.ini')
                with open(path, 'w') as fh:
                    fh.write(out)
                try:
                    store = h.inputs.InputStore(path)
                    secs = store.config.sections()
                    opts = {s: list(store.config[s].keys()) for s in secs}
                except configparser.Error as ex:
                    self.v('C17', year, name, 'list-form-inputs output does not parse as an input file',
                           error=f'{type(ex).__name__}: {ex}'.replace('\n', ' ')[:300])
                    continue
                if secs != [name] or opts.get(name) != []:
                    self.v('C17', year, name, 'list-form-inputs output is not one section without options',
                           sections=secs, options=opts)
                # (2) un-comment the `#name =` lines (comment text lines start with "# ")
                lines = out.split('\n')
                unc = [ln[1:] if (ln.startswith('#') and not ln.startswith('# ') and ln != '#') else ln for ln in lines]
                named = [ln[1:] for ln in lines if ln.startswith('#') and not ln.startswith('# ') and ln != '#']
                fill = {}
                if self.tier == 'thorough':
                    unc2 = []
                    for ln in unc:
                        m = re.fullmatch(r'(\S.*) =', ln)
                        if m and ('#' + ln) in lines:
                            val = 'v%d' % self.rng.randrange(10 ** 6)
                            fill[m.group(1).lower()] = val
                            unc2.append(f'{ln} {val}')
                        else:
                            unc2.append(ln)
                    unc = unc2
                with open(path, 'w') as fh:
                    fh.write('\n'.join(unc))
                try:
                    store = h.inputs.InputStore(path)
                    secs = store.config.sections()
                    got = list(store.config[name].keys()) if name in secs else None
                except configparser.Error as ex:
                    self.v('C17', year, name, 'un-commented list-form-inputs output does not parse as an input file',
                           error=f'{type(ex).__name__}: {ex}'.replace('\n', ' ')[:300])
                    continue
                want = sorted(i.lower() for i in inputs)
                if secs != [name] or got is None or sorted(got) != want or len(got) != len(inputs):
                    self.v('C17', year, name, 'un-commented list-form-inputs output does not name exactly the inputs',
                           sections=secs, missing=sorted(set(want) - set(got or [])), extra=sorted(set(got or []) - set(want)),
                           printed=named[:5])
                    continue
                for i in f.inputs():
                    self.count('c17.parse_back_inputs')
                    if not store.provides(i):
                        self.v('C17', year, name, 'input of the form is not provided by the parsed-back file', input=i.base_name())
                    elif fill:
                        raw = store.config.get(name, i.base_name())
                        if raw != fill.get(i.base_name().lower()):
                            self.v('C17', year, name, 'value written into the template does not read back',
                                   input=i.base_name(), expected=fill.get(i.base_name().lower()), found=raw)
                if len(self.samples) < 3:
                    self.samples.append({'kind': 'list-form-inputs', 'year': year, 'form': name, 'head': out[:160]})

    # ------------------------------------------------------------------------------------------
    def template(self, path, year, form):
        if path not in self.templates:
            try:
                self.templates[path] = pdf_extract.extract(path)
            except Exception as ex:  # noqa: BLE001
                self.templates[path] = {'error': f'{type(ex).__name__}: {ex}', 'fields': [], 'disagreements': []}
            t = self.templates[path]
            self.count('c18.templates')
            if t.get('error'):
                self.v('C18', year, form, 'template cannot be parsed', template=path, error=t['error'])
            for d in t.get('disagreements', []):
                self.v('C18', year, form, 'template extraction routes disagree (extractor check, not a habutax defect)',
                       template=path, detail=d)
        return self.templates[path]

    def c18_year(self, year, built):
        h = self.h
        hp = h.pdf_fields
        field_map = {}
        for cls, inst, f, err in built:
            if f is not None:
                for fl in f.fields():
                    field_map.setdefault(fl.name(), fl)
        for cls, inst, f, err in built:
            if f is None:
                continue
            name = f.name()
            pf = f.pdf_fields()
            path = f.pdf_file()
            if self.fileable(f):
                self.count('c18.fileable_forms')
                if not path or not os.path.isfile(path):
                    self.v('C18', year, name, 'fileable form has no template', pdf_file=path)
                if len(pf) == 0:
                    self.v('C18', year, name, 'fileable form has no mappings')
            if not pf and not path:
                continue
            if path and not os.path.isfile(path):
                self.v('C18', year, name, 'template file does not exist', pdf_file=path)
                continue
            if not path:
                self.v('C18', year, name, 'form has mappings but no template', mappings=len(pf))
                continue
            if os.path.basename(os.path.dirname(path)) != f'ty{year}':
                self.v('C18', year, name, 'template is taken from the directory of another year', pdf_file=path)
            tpl = self.template(path, year, name)
            tf = {}
            for x in tpl['fields']:
                tf.setdefault(x['name'], x)
            rel = os.path.relpath(path, REPO)
            targets = [p.pdf_field_name for p in pf]
            for t in sorted({t for t in targets if targets.count(t) > 1}):
                self.v('C18', year, name, 'template field is driven by more than one mapping', target=t,
                       lines=[p.field_name for p in pf if p.pdf_field_name == t], template=rel)
            groups = {}
            for p in pf:
                self.count('c18.mappings')
                x = tf.get(p.pdf_field_name)
                line = p.field_name
                full = line if '.' in line else f'{name}.{line}'
                fobj = field_map.get(full)
                if fobj is None:
                    self.v('C18', year, name, 'mapped line does not exist', target=p.pdf_field_name, line=line, resolved=full)
                if x is None:
                    self.v('C18', year, name, 'mapping targets a field that is not in the template',
                           target=p.pdf_field_name, line=line, template=rel)
                    continue
                want = {hp.TextPDFField: 'Tx', hp.ButtonPDFField: 'Btn', hp.ChoicePDFField: 'Ch',
                        hp.OptionlessButtonPDFField: 'Btn'}.get(type(p))
                push = x.get('button_kind') == 'push'
                if want is None or x['type'] != want or (type(p) is hp.ButtonPDFField and push) or \
                        (type(p) is hp.OptionlessButtonPDFField and not push):
                    self.v('C18', year, name, 'mapping class does not fit the widget type', target=p.pdf_field_name,
                           line=line, mapping=type(p).__name__, widget=x['type'], button_kind=x.get('button_kind'))
                if type(p) is hp.TextPDFField and x['type'] == 'Tx' and x['max_len'] is not None:
                    self.count('c18.length_limited_widgets')
                    ml = p.max_length
                    if ml is None or ml > x['max_len']:
                        self.v('C18', year, name, 'template limits the length but the mapping declares no or a larger limit',
                               target=p.pdf_field_name, line=line, expected=x['max_len'], found=ml)
                    elif ml == x['max_len']:
                        self.count('c18.length_limits_equal')
                    else:
                        self.count('c18.length_limits_stricter')
                if type(p) is hp.ButtonPDFField and x['type'] == 'Btn':
                    self.count('c18.buttons')
                    if p._true_value not in (x.get('on_states') or []):
                        self.v('C18', year, name, 'button true value is not an on-state of the widget',
                               target=p.pdf_field_name, line=line, expected=x.get('on_states'), found=p._true_value)
                if type(p) is hp.ChoicePDFField and x['type'] == 'Ch':
                    self.count('c18.choice_fields')
                    opts = [o[0] if isinstance(o, list) else o for o in x.get('options', [])]
                    extra = [c for c in p._choices if c not in opts]
                    if extra:
                        self.v('C18', year, name, 'choice is not an option of the widget', target=p.pdf_field_name,
                               line=line, expected=opts, found=extra)
                ll = pdf_extract.line_label_of_name(line)
                if x.get('label') is not None and ll is not None:
                    self.count('c18.labelled_pairs')
                    if x['label'] != ll:
                        self.v('C18', year, name, 'template line label differs from the mapped line',
                               target=p.pdf_field_name, line=line, expected=x['label'], found=ll,
                               text=(x.get('access_text') or '')[:160], template=rel)
                elif x.get('label') is None:
                    self.count('c18.template_unlabelled')
                else:
                    self.count('c18.line_name_unlabelled')
                # button matrix with the REAL value function
                if type(p) is hp.ButtonPDFField and fobj is not None:
                    if isinstance(fobj, h.fields.BooleanField):
                        dom = [('False', False), ('True', True)]
                    elif isinstance(fobj, h.fields.EnumField):
                        dom = [('', None)] + [(m, fobj.enum()[m]) for m in fobj.enum().__members__]
                    else:
                        dom = []
                        self.count('c18.buttons_not_enumerable')
                    row = []
                    for label, val in dom:
                        self.count('c18.button_evaluations')
                        try:
                            s = p.value(val, fobj)
                            if s not in (p._true_value, 'Off'):
                                self.v('C18', year, name, 'button value is neither the true value nor Off',
                                       target=p.pdf_field_name, line=line, value=label, found=repr(s))
                            row.append((label, s != 'Off'))
                        except Exception as ex:  # noqa: BLE001
                            self.v('C18', year, name, 'button value function raised', target=p.pdf_field_name,
                                   line=line, value=label, error=f'{type(ex).__name__}: {ex}')
                            row.append((label, False))
                    stem = re.sub(r'\[\d+\]$', '', p.pdf_field_name)
                    if stem == p.pdf_field_name:
                        stem = re.sub(r'(yes|no)$', '', p.pdf_field_name)
                    groups.setdefault((full, stem), []).append((p, row))
            for (full, stem), members in groups.items():
                if len(members) < 2:
                    continue
                self.count('c18.exclusive_groups')
                dom = [lab for lab, _ in members[0][1]]
                for k, lab in enumerate(dom):
                    self.count('c18.exclusive_group_rows')
                    on = [p.pdf_field_name for p, row in members if row[k][1]]
                    if len(on) > 1:
                        self.v('C18', year, name, 'more than one box of an exclusive group is on', group=stem,
                               line=full, value=lab, found=on)
                if len(self.samples) < 8:
                    self.samples.append({'kind': 'exclusive-group', 'year': year, 'form': name, 'group': stem, 'line': full,
                                         'matrix': {lab: [p.pdf_field_name[len(stem):] for p, row in members if row[k][1]]
                                                    for k, lab in enumerate(dom)}})

    # ------------------------------------------------------------------------------------------
    def run(self):
        h = self.h
        years = sorted(h.forms.available_forms)
        for year in years:
            built = self.build_year(year)
            self.c17_year(year, built)
            self.c17_cli(year, built)
            self.c18_year(year, built)
        # trusted-base check of the template extractor: the pdftk listings kept in the form sources
        extracted = {os.path.relpath(p, REPO): t for p, t in self.templates.items()}
        src = pdf_extract.source_crosscheck({k: v for k, v in extracted.items() if not v.get('error')}, REPO)
        self.count('extractor.source_entries', src['entries'])
        return {
            'violations': self.violations,
            'extractor_check': src,
            'checked': dict(sorted(self.checked.items())),
            'samples': self.samples,
            'templates': {os.path.relpath(p, REPO): {'fields': len(t.get('fields', [])),
                                                     'labelled': sum(1 for x in t.get('fields', []) if x.get('label') is not None),
                                                     'routes': t.get('routes'), 'disagreements': len(t.get('disagreements', []))}
                          for p, t in sorted(self.templates.items())},
        }


def run(seed=0, tier='quick'):
    return Oracle(seed, tier).run()


if __name__ == '__main__':
    import json
    res = run(int(os.environ.get('VERIF_SEED', '0')), os.environ.get('VERIF_TIER', 'quick'))
    if '--json' in sys.argv:
        print(json.dumps(res, indent=1, default=str))
    else:
        for v in res['violations']:
            print(json.dumps(v, default=str))
        print(json.dumps(res['checked']))
