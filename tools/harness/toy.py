"""solve-toy stream: generated form programs run by the real habutax Solver and by the Lean model.

A case is a small catalogue of generated Form classes whose line definitions interpret a strategy
tree (reads of lines / inputs with branching on the value read, not_implemented, exceptions,
Field.form(name)), an input store, a prompt (none / scripted answers / refusal from some prompt on),
a request (forms, possibly duplicated or unknown) and a schedule (natural, or hooked with ranks).
The real solver is run in-process; the same case is printed in the driver's line protocol.
"""
import common
import configparser
import os
import random
import sys
import zlib

os.environ.setdefault('HABUTAX_VERIF', '1')

FIELD_BASES = ['1', '2', '2a', '10', 'x', 'x_1', 'a-b', 'a_b', '3b', 'y2']
INPUT_BASES = ['p', 'q', 'n1']


class ToyError(Exception):
    def __init__(self, code):
        self.code = code
        super().__init__(f'toy error {code}')


# ----------------------------------------------------------------------------- trees
# tree := ('R', int) | ('NI',) | ('E', code) | ('V', name, [(c, tree)...], default)
#       | ('I', name, cases, default) | ('F', form, tree)
# names inside templates are ('rel', base) (own form) or ('abs', full)

def expand_name(name, own):
    kind, n = name
    return f'{own}.{n}' if kind == 'rel' else n


def tree_tokens(t, own):
    k = t[0]
    if k == 'R':
        return ['R', str(t[1])]
    if k == 'NI':
        return ['NI']
    if k == 'E':
        return ['E', str(t[1])]
    if k in ('V', 'I'):
        toks = [k, expand_name(t[1], own), str(len(t[2]))]
        for c, sub in t[2]:
            toks += [str(c)] + tree_tokens(sub, own)
        return toks + tree_tokens(t[3], own)
    if k == 'F':
        return ['F', t[1]] + tree_tokens(t[2], own)
    raise ValueError(t)


def interp(t, s, i, v, own):
    """Run a tree the way a habutax line definition would."""
    while True:
        k = t[0]
        if k == 'R':
            return t[1]
        if k == 'NI':
            s.not_implemented()
        if k == 'E':
            raise ToyError(t[1])
        if k == 'V' or k == 'I':
            name = expand_name(t[1], own)
            acc = v if k == 'V' else i
            # a read is a read however it is spelled: the accessors are Mappings, and on them `m.get(k)` and `k in m`
            # go through `m[k]`, whose "not there yet" signals (UnmetDependency, MissingInput, ...) are NOT KeyErrors
            # and must reach the solver (seed C01g made them KeyErrors: `get`/`in` swallowed the demand and the
            # return was "solved" with the demanded line never scheduled).  The model op is the same `V`/`I` read.
            style = zlib.crc32((own + '/' + name).encode()) % 4
            if style == 1:
                val = acc.get(name)
            elif style == 2:
                val = acc[name] if name in acc else None
            else:
                val = acc[name]
            for c, sub in t[2]:
                if val == c:
                    t = sub
                    break
            else:
                t = t[3]
            continue
        if k == 'F':
            s.form(t[1])
            t = t[2]
            continue
        raise ValueError(t)


# ----------------------------------------------------------------------------- catalogue

class ToyClass:
    """Description of one generated form class."""
    def __init__(self, name, instances, inputs, fields, bad_instances=()):
        self.name = name                # class name (no instance)
        self.instances = instances      # [None] or ['0', '1', ...]
        self.bad_instances = list(bad_instances)  # instances the constructor refuses
        self.inputs = inputs            # base names
        self.fields = fields            # [(base, required, tree-template)]

    def full(self, inst):
        return self.name if inst is None else f'{self.name}:{inst}'


def make_python_class(tc, log):
    from habutax.form import Form, Jurisdiction
    from habutax.inputs import IntegerInput
    from habutax.fields import IntegerField

    def __init__(self, **kwargs):
        inst = kwargs.get('instance')
        if inst in tc.bad_instances:
            raise AssertionError(f'ctor {tc.name}')
        own = tc.full(inst)
        inputs = [IntegerInput(b) for b in tc.inputs]
        req, opt = [], []
        for base, required, tree in tc.fields:
            def fn(s, i, v, tree=tree, own=own, base=base):
                log.append(('attempt', f'{own}.{base}'))
                return interp(tree, s, i, v, own)
            (req if required else opt).append(IntegerField(base, fn))
        Form.__init__(self, cls, inputs, req, opt, **kwargs)

    cls = type('Toy_' + tc.name.replace('-', '_'), (Form,), {
        'form_name': tc.name, 'tax_year': 2023, 'description': 'toy ' + tc.name,
        'long_description': 'generated', 'jurisdiction': Jurisdiction.US, 'sequence_no': 0,
        '__init__': __init__, 'needs_filing': lambda self, values: False})
    return cls


class Case:
    def __init__(self):
        self.classes = []
        self.inp = []            # [(full input name, text)]
        self.prompt = None       # None or dict(refuse_at=int, answers={name: text})
        self.forms = []
        self.extra = []
        self.sched = None        # None (natural) or dict(seed=str, ranks={name: k})

    # ---- protocol
    def protocol(self):
        out = ['toy-begin']
        for tc in self.classes:
            for inst in tc.instances + tc.bad_instances:
                own = tc.full(inst)
                out.append(f'form {own} {"ctor" if inst in tc.bad_instances else "ok"}')
                if inst in tc.bad_instances:
                    continue
                for b in tc.inputs:
                    out.append(f'input {own} {own}.{b}')
                for base, required, tree in tc.fields:
                    out.append(f'field {own} {own}.{base} {1 if required else 0} ' + ' '.join(tree_tokens(tree, own)))
        for k, t in self.inp:
            out.append(f'inp {k} {t}')
        if self.sched is None:
            out.append('sched natural')
        else:
            for n, k in self.sched['ranks'].items():
                out.append(f'rank {n} {k}')
            out.append(f'sched hook {self.sched["seed"]}')
        if self.prompt is None:
            out.append('prompt none')
        else:
            out.append(f'prompt fn {self.prompt["refuse_at"]}')
            for n, t in self.prompt['answers'].items():
                out.append(f'ans {n} {t}')
        out.append(f'solve {",".join(self.forms)} {",".join(self.extra)}')
        out.append('end')
        return out

    # ---- real run
    def run_real(self):
        from habutax import solver as hsolver
        from habutax import inputs as hinputs
        from habutax import fields as hfields
        log = []
        classes = [make_python_class(tc, log) for tc in self.classes]
        cfg = configparser.ConfigParser()
        for k, t in self.inp:
            sec, opt = k.split('.')
            if not cfg.has_section(sec):
                cfg.add_section(sec)
            cfg.set(sec, opt, t)
        store = hinputs.InputStore(cfg)
        prompts = []
        prompt_fn = None
        if self.prompt is not None:
            spec = self.prompt
            def prompt_fn(missing, needed_by):
                k = len(prompts)
                nb = [f.name() for f in needed_by]
                ans = None if k >= spec['refuse_at'] else spec['answers'].get(missing.name())
                prompts.append((missing.name(), nb, ans))
                return (ans, True) if ans is not None else (None, False)
        if self.sched is not None:
            hsolver._verif_schedule = make_schedule(self.sched)
        else:
            hsolver._verif_schedule = None
        s = hsolver.Solver(store, classes, prompt=prompt_fn)
        lines = []
        try:
            try:
                ok = s.solve(list(self.forms), list(self.extra))
            finally:
                hsolver._verif_schedule = None
        except NotImplementedError as e:
            msg = str(e)
            name = msg[len('Form '):-len(' is not supported.')]
            return [f'verdict abort unsupportedForm {name}'], s, log, prompts
        except hinputs.InvalidInput as e:
            return [f'verdict abort invalidInput {e.input_name}'], s, log, prompts
        except RecursionError:
            return ['verdict abort recursion'], s, log, prompts
        except common.WorkBudgetExceeded as e:
            return [f'verdict abort WORK-BUDGET-EXCEEDED {e}'], s, log, prompts
        except ToyError as e:
            return [f'verdict abort lineErr {log[-1][1]} {e.code}'], s, log, prompts
        except ValueError:
            return ['verdict abort badName'], s, log, prompts
        except KeyError as e:
            # Field.form(name) on a form that is not loaded, or an unknown requested field
            if log and e.args and isinstance(e.args[0], str) and '.' not in e.args[0]:
                return [f'verdict abort noForm {log[-1][1]} {e.args[0]}'], s, log, prompts
            return [f'verdict abort keyError {e.args[0]}'], s, log, prompts
        except AssertionError as e:
            msg = str(e)
            if msg.startswith('ctor '):
                return [f'verdict abort ctorError {msg[5:]}'], s, log, prompts
            import traceback
            tb = traceback.extract_tb(e.__traceback__)
            src = tb[-1].line or ''
            if 'valid(value)' in src:
                return ['verdict abort invalidAnswer'], s, log, prompts
            if '_field_map' in src:
                return ['verdict abort noSuchField'], s, log, prompts
            return [f'verdict abort assertion {src}'], s, log, prompts
        lines.append(f'verdict {"solved" if ok else "failed"}')
        lines.append('v ' + ';'.join(sorted(f'{k}={v}' for k, v in s._v.values.items())))
        lines.append('forms ' + ','.join(sorted(s.forms.keys())))
        lines.append('unimpl ' + ','.join(s.unimplemented_fields()))
        lines.append('unmetI ' + ';'.join(f'{d}:{",".join(ws)}' for d, ws in s.unmet_input_dependencies().items()))
        lines.append('unmetF ' + ';'.join(f'{d}:{",".join(ws)}' for d, ws in s.unmet_field_dependencies().items()))
        lines.append('attempts ' + ','.join(n for _, n in log))
        lines.append('prompts ' + ';'.join(f'{x}[{",".join(nb)}]={a if a is not None else "<refused>"}' for x, nb, a in prompts))
        inputs_now = []
        for sec in cfg.sections():
            for opt in cfg[sec]:
                inputs_now.append(f'{sec}.{opt}={cfg.get(sec, opt, raw=True)}')
        lines.append('inputs ' + ';'.join(sorted(inputs_now)))
        return lines, s, log, prompts


def fnv1a(text):
    h = 14695981039346656037
    for b in text.encode('utf-8'):
        h ^= b
        h = (h * 1099511628211) & 0xFFFFFFFFFFFFFFFF
    return h


def make_schedule(sched):
    ranks, seed = sched['ranks'], sched['seed']

    def rank(item):
        name = item if isinstance(item, str) else item.name()
        if name in ranks:
            return ranks[name]
        return 1000000 + fnv1a(f'{seed}:{name}')

    def schedule(site, items):
        return sorted(items, key=rank)      # stable, applied to the naturally sorted list
    return schedule


def canon_model_abort(line):
    """Model abort lines carry more detail than Python exposes; keep the comparable part."""
    parts = line.split(' ')
    if parts[:2] != ['verdict', 'abort']:
        return line
    kind = parts[2]
    if kind == 'unsupportedForm':
        return f'verdict abort unsupportedForm {parts[3].split(":")[0]}'
    if kind == 'ctorError':
        return f'verdict abort ctorError {parts[3].split(":")[0]}'
    if kind in ('recursion', 'noSuchField', 'invalidAnswer'):
        return f'verdict abort {kind}'
    return line


# ----------------------------------------------------------------------------- generator

def gen_tree(rng, ctx, depth):
    """ctx: dict(own_fields, own_inputs, other_fields, other_inputs, forms, unknown ok?)"""
    r = rng.random()
    if depth <= 0 or r < 0.30:
        r2 = rng.random()
        if r2 < 0.80:
            return ('R', rng.choice([0, 1, 2, 3, 7]))
        if r2 < 0.93:
            return ('NI',)
        return ('E', rng.choice([1, 2]))
    def cases():
        k = rng.choice([0, 0, 1, 1, 2])
        vals = rng.sample([0, 1, 2, 3], k)
        return [(c, gen_tree(rng, ctx, depth - 1)) for c in vals]
    if r < 0.68:
        pool = []
        pool += [('rel', b) for b in ctx['own_fields']] * 3
        pool += [('abs', n) for n in ctx['other_fields']] * 2
        if ctx['wild'] and rng.random() < 0.25:
            pool += [('abs', n) for n in ctx['wild_fields']]
        name = rng.choice(pool)
        return ('V', name, cases(), gen_tree(rng, ctx, depth - 1))
    if r < 0.95:
        pool = [('rel', b) for b in ctx['own_inputs']] * 3 + [('abs', n) for n in ctx['other_inputs']]
        if ctx['wild'] and rng.random() < 0.25:
            pool += [('abs', n) for n in ctx['wild_inputs']]
        if not pool:
            return ('R', 1)
        name = rng.choice(pool)
        return ('I', name, cases(), gen_tree(rng, ctx, depth - 1))
    if not ctx.get('form_obs', True):
        return ('R', 2)
    return ('F', rng.choice(ctx['forms']), gen_tree(rng, ctx, depth - 1))


def gen_case(rng, wild=None, form_obs=True, prompt_mode=None):
    """wild: allow dangling references (unknown forms/fields/inputs, refused instances)."""
    if wild is None:
        wild = rng.random() < 0.3
    c = Case()
    nclasses = rng.choice([1, 2, 2, 3, 3, 4])
    names = rng.sample(['a', 'b2', 'b10', 'w', 'k-1', 'zed'], nclasses)
    skel = []
    for nm in names:
        inst = [None]
        bad = []
        if rng.random() < 0.3:
            inst = rng.sample(['0', '1', '2', 'you'], rng.choice([1, 2]))
            if wild and rng.random() < 0.4:
                bad = ['9']
        nf = rng.choice([1, 2, 3, 4, 5])
        ni = rng.choice([0, 1, 2, 3])
        skel.append((nm, inst, bad, rng.sample(FIELD_BASES, nf), rng.sample(INPUT_BASES, ni)))
    all_forms = [(nm if i is None else f'{nm}:{i}') for nm, inst, bad, _, _ in skel for i in inst]
    for nm, inst, bad, fbases, ibases in skel:
        other_fields, other_inputs = [], []
        for nm2, inst2, bad2, fb2, ib2 in skel:
            if nm2 == nm and inst == [None]:
                continue
            for i2 in inst2:
                own2 = nm2 if i2 is None else f'{nm2}:{i2}'
                other_fields += [f'{own2}.{b}' for b in fb2]
                other_inputs += [f'{own2}.{b}' for b in ib2]
        own0 = nm if inst[0] is None else f'{nm}:{inst[0]}'
        wild_fields = [f'{own0}.nope', 'qq.1', f'{all_forms[0]}.zz9']
        wild_inputs = [f'{all_forms[0]}.nope', 'qq.p']
        if bad:
            wild_fields.append(f'{nm}:9.1')
        ctx = dict(own_fields=fbases, own_inputs=ibases, other_fields=other_fields,
                   other_inputs=other_inputs, forms=all_forms + (['qq'] if wild else []),
                   wild=wild, wild_fields=wild_fields, wild_inputs=wild_inputs, form_obs=form_obs)
        fields = []
        for b in fbases:
            fields.append((b, rng.random() < 0.6, gen_tree(rng, ctx, rng.choice([1, 2, 3]))))
        c.classes.append(ToyClass(nm, inst, ibases, fields, bad))
    # inputs
    for tc in c.classes:
        for inst in tc.instances:
            for b in tc.inputs:
                if rng.random() < 0.55:
                    txt = rng.choice(['0', '1', '2', '3', ' 1', '2 ', '', '-1', '07'])
                    if wild and rng.random() < 0.05:
                        txt = 'bad'
                    c.inp.append((f'{tc.full(inst)}.{b}', txt))
    # prompt
    if rng.random() < 0.6:
        answers = {}
        for tc in c.classes:
            for inst in tc.instances:
                for b in tc.inputs:
                    if rng.random() < 0.85:
                        answers[f'{tc.full(inst)}.{b}'] = rng.choice(['0', '1', '2', '3'])
                        if wild and rng.random() < 0.03:
                            answers[f'{tc.full(inst)}.{b}'] = 'bad'
        c.prompt = dict(refuse_at=rng.choice([0, 1, 2, 3, 1000000, 1000000, 1000000]), answers=answers)
    if prompt_mode == 'none':
        c.prompt = None
    elif prompt_mode == 'total':
        answers = {}
        for tc in c.classes:
            for inst in tc.instances:
                for b in tc.inputs:
                    answers[f'{tc.full(inst)}.{b}'] = rng.choice(['0', '1', '2', '3'])
        c.prompt = dict(refuse_at=1000000, answers=answers)
    # request
    k = rng.choice([1, 1, 2, 2, 3])
    c.forms = [rng.choice(all_forms) for _ in range(k)]
    if wild and rng.random() < 0.1:
        c.forms.append('qq')
    if not wild:
        c.forms = list(dict.fromkeys(c.forms))
    elif rng.random() < 0.8:
        c.forms = list(dict.fromkeys(c.forms))
    # schedule
    if rng.random() < 0.6:
        ranks = {}
        allnames = [f'{tc.full(i)}.{b}' for tc in c.classes for i in tc.instances for b, _, _ in tc.fields]
        allnames += [f'{tc.full(i)}.{b}' for tc in c.classes for i in tc.instances for b in tc.inputs]
        for n in allnames:
            if rng.random() < 0.7:
                ranks[n] = rng.randrange(0, 50)
        c.sched = dict(seed=str(rng.randrange(10**6)), ranks=ranks)
    return c
