"""INI / FDF correspondence stream: real CPython configparser + habutax PDFFiller vs the Lean model.

    run(seed, n, run_step) -> {'cases', 'disagreements', 'distribution', 'samples', ...}

`run_step(list_of_lines) -> list_of_lines` pipes protocol lines to `HabuVerif.IniDrv.step` (one answer
line per line).  The protocol is documented in lean/HabuVerif/Drv/IniDrv.lean; text travels as the hex of
its UTF-8 bytes (`-` for the empty text).

Sub-streams (share of n):
  parse        structured INI files -> error class or full content + has_option/get/options answers
  parsefile    the same through a real file opened in universal-newlines mode (texts contain \\r)
  malformed    character soup
  nonascii     option names with non-ASCII letters: the model's `lower` is ASCII only; cases where
               Python's str.lower changes a non-ASCII letter are EXPECTED to diverge and are counted
               under distribution['nonascii:…'], not as disagreements
  ops          add_section/set/remove_option/remove_section/write/re-read/mapping protocol sequences,
               written text compared byte for byte
  fdf          PDFFiller(None, [], 'x')._create_fdf vs createFdf, decodeFdfFields on the REAL file
  pdfdec       an independent Python reader of PDF literal strings vs pdfDecodeString
  fill         PDFFiller.fill's form selection (real code, pdftk stubbed) vs fillSelection
"""
import configparser
import io
import os
import random
import sys
import tempfile

sys.dont_write_bytecode = True

ERR_NAMES = {'MissingSectionHeaderError', 'DuplicateSectionError', 'DuplicateOptionError', 'ParsingError',
             'NoSectionError', 'NoOptionError', 'ValueError', 'TypeError', 'KeyError'}


def hx(s):
    return s.encode('utf-8').hex() if s else '-'


def show_list(l):
    return '[' + ','.join(hx(x) for x in l) + ']'


def show_opts(d):
    return ','.join(f'{hx(k)}={hx(v)}' for k, v in d.items())


def dump(cp):
    return '|'.join(['*:' + show_opts(cp._defaults)] + [f'{hx(n)}:{show_opts(d)}' for n, d in cp._sections.items()])


def err_name(e):
    n = type(e).__name__
    return n if n in ERR_NAMES else 'Other:' + n


def fresh():
    return configparser.ConfigParser(interpolation=None)


# ------------------------------------------------------------------ generators

SEC_NAMES = ['a', 'b', '1040', 'w-2:1', 'DEFAULT', 'default', 'A', 'x y', 's]t', ' pad ', 'habutax', '%', '']
KEYS = ['k', 'K', 'key', 'Key', 'KEY', 'x y', 'a.b', '1', 'opt%', 'tax_year', 'z', '[q', '#h', ';s', 'q]']
VALS = ['', 'v', '1', 'two words', 'a = b', 'a: b', '%(x)s', '%', '%%', '# hash', '; semi', '[sec]', 'x]',
        'tr ', ' ld', 'yes', '2023', '0.2.1', 'é', '=', ':', '\t']
WS = [' ', '  ', '\t', ' \t', '', '', '']
ODD_WS = ['\x0b', '\x0c', '\x1c', '\x1f', '\x85', '\xa0', '\u2003', '\u3000', '\u2028', '\u1680']


def ws(rng, odd=0.05):
    if rng.random() < odd:
        return rng.choice(ODD_WS)
    return rng.choice(WS)


def gen_header(rng):
    name = rng.choice(SEC_NAMES)
    r = rng.random()
    if r < 0.70:
        return f'[{name}]'
    if r < 0.78:
        return f'{ws(rng)}[{name}]{ws(rng)}'
    if r < 0.84:
        return f'[{name}] trailing'
    if r < 0.88:
        return f'[{name}]]'
    if r < 0.92:
        return f'[{ws(rng)}{name}{ws(rng)}]'
    if r < 0.96:
        return f'[{name}'
    return f'[{name}] # c'


def gen_option(rng, keys=KEYS):
    k = rng.choice(keys)
    v = rng.choice(VALS)
    r = rng.random()
    ind = '' if rng.random() < 0.85 else ws(rng)
    if r < 0.45:
        return f'{ind}{k} = {v}'
    if r < 0.60:
        return f'{ind}{k}{ws(rng)}:{ws(rng)}{v}'
    if r < 0.85:
        return f'{ind}{k}{ws(rng)}={ws(rng)}{v}'
    if r < 0.90:
        return f'{ind}{k}'                      # no delimiter: ParsingError
    if r < 0.94:
        return f'{ind}={v}'                     # empty option name
    return f'{ind}{k} = {v}{ws(rng)}'


def gen_cont(rng):
    ind = rng.choice([' ', '\t', '  ', '    ', '\t\t', ' \t'])
    body = rng.choice(['more', 'k = v', '# comment in value', '; c', '[x]', '', ' ', 'x ', 'é', '= 1', ': 2'])
    if rng.random() < 0.04:
        ind = rng.choice(ODD_WS)
    return ind + body


def gen_structured(rng, keys=KEYS, cr=False):
    lines = []
    n = rng.randint(0, 14)
    if rng.random() < 0.08:
        lines.append(gen_option(rng, keys))      # before any header
    for _ in range(n):
        r = rng.random()
        if r < 0.22:
            lines.append(gen_header(rng))
        elif r < 0.62:
            lines.append(gen_option(rng, keys))
        elif r < 0.78:
            lines.append(gen_cont(rng))
        elif r < 0.86:
            lines.append(rng.choice(['', '', ' ', '\t', '  ']))
        elif r < 0.94:
            lines.append(ws(rng) + rng.choice(['#', ';']) + rng.choice(['', ' c', 'k = v', '[s]']))
        else:
            lines.append(rng.choice(['[]', '[', ']', '[]]', '=', ':', ' = ', 'a = b = c', 'REM x']))
    if lines and rng.random() < 0.75 and not lines[0].lstrip().startswith('['):
        lines.insert(0, gen_header(rng))
    eol = '\n'
    text = ''
    for i, l in enumerate(lines):
        if cr:
            eol = rng.choice(['\n', '\n', '\r\n', '\r'])
            if rng.random() < 0.05 and len(l) > 1:
                p = rng.randrange(len(l))
                l = l[:p] + '\r' + l[p:]
        text += l + eol
    if text and rng.random() < 0.15:
        text = text[:-1]                        # no final newline
    if rng.random() < 0.05:
        text += '\n\n'
    return text


def gen_valid(rng, keys=KEYS, cr=False):
    """mostly well-formed: distinct sections and keys (a small chance of a duplicate), delimiters present"""
    lines = []
    used_secs = set()
    for _ in range(rng.randint(1, 4)):
        name = rng.choice([x for x in SEC_NAMES if x])
        if name in used_secs and name != 'DEFAULT' and rng.random() < 0.93:
            continue
        used_secs.add(name)
        r = rng.random()
        if r < 0.85:
            lines.append(f'[{name}]')
        elif r < 0.90:
            lines.append(f'{ws(rng)}[{name}]{ws(rng)}')
        elif r < 0.95:
            lines.append(f'[{name}] trailing')
        else:
            lines.append(f'[{ws(rng)}{name}{ws(rng)}]')
        used = set()
        for _ in range(rng.randint(0, 4)):
            k = rng.choice(keys)
            if k.lower() in used and rng.random() < 0.95:
                continue
            used.add(k.lower())
            v = rng.choice(VALS)
            r = rng.random()
            ind = '' if rng.random() < 0.9 else ws(rng)
            if r < 0.5:
                lines.append(f'{ind}{k} = {v}')
            elif r < 0.7:
                lines.append(f'{ind}{k}{ws(rng)}:{ws(rng)}{v}')
            else:
                lines.append(f'{ind}{k}{ws(rng)}={ws(rng)}{v}{ws(rng)}')
            if rng.random() < 0.4:
                for _ in range(rng.randint(1, 3)):
                    r = rng.random()
                    if r < 0.6:
                        lines.append(gen_cont(rng))
                    elif r < 0.8:
                        lines.append(rng.choice(['', ' ', '\t']))
                    else:
                        lines.append(ws(rng) + rng.choice(['#', ';']) + ' note')
        if rng.random() < 0.7:
            lines.append('')
    text = ''
    for l in lines:
        eol = '\n'
        if cr:
            eol = rng.choice(['\n', '\n', '\r\n', '\r'])
            if rng.random() < 0.03 and len(l) > 1:
                pos = rng.randrange(len(l))
                l = l[:pos] + '\r' + l[pos:]
        text += l + eol
    if text and rng.random() < 0.1:
        text = text[:-1]
    return text


def gen_text(rng, keys=KEYS, cr=False):
    return gen_valid(rng, keys, cr) if rng.random() < 0.7 else gen_structured(rng, keys, cr)


SOUP = list('[]=:#; \t\n\n\nabAB%kK') + ['\r', '\x0c', '\xa0', 'DEFAULT', '[a]\n', 'k = v\n', ' x\n']


def gen_malformed(rng):
    return ''.join(rng.choice(SOUP) for _ in range(rng.randint(0, 40)))


NONASCII_KEYS = ['É', 'é', 'Straße', 'ẞ', 'Σ', 'ΑΣ', 'İ', 'ǅ', 'ſ', '日本', 'naïve', 'NAÏVE', 'k', 'K', 'Ω', 'ω', 'Ünï', 'ß']


def gen_queries(rng, text, keys=KEYS):
    """has_option / get / options queries, mostly on names that occur in the real parse result"""
    secs, present = list(SEC_NAMES), []
    cp = fresh()
    try:
        cp.read_string(text)
        present = [(sn, k) for sn in list(cp._sections) + ['DEFAULT'] for k in list(cp._sections.get(sn, {})) + list(cp._defaults)]
    except Exception:  # noqa
        pass
    qs = []
    for _ in range(rng.randint(2, 6)):
        if present and rng.random() < 0.7:
            s, k = rng.choice(present)
            if rng.random() < 0.3:
                k = k.upper()
            if rng.random() < 0.1:
                s = rng.choice(secs)
        else:
            s, k = rng.choice(secs), rng.choice(keys)
        qs.append((rng.choice('hhgggo'), s, k))
    qs.append(('secs', None, None))
    return qs


def query_tokens(qs):
    out = []
    for kind, s, k in qs:
        if kind in ('h', 'g'):
            out.append(f'{kind}:{hx(s)}:{hx(k)}')
        elif kind == 'o':
            out.append(f'o:{hx(s)}')
        else:
            out.append(kind)
    return out


def real_query(cp, q):
    kind, s, k = q
    try:
        if kind == 'h':
            return 'T' if cp.has_option(s, k) else 'F'
        if kind == 'g':
            return '=' + hx(cp.get(s, k))
        if kind == 'o':
            return show_list(cp.options(s))
        if kind == 'secs':
            return show_list(cp.sections())
    except Exception as e:  # noqa
        return '!' + err_name(e)
    raise ValueError(kind)


def real_parse(text, qs, via_file=None):
    cp = fresh()
    try:
        if via_file is None:
            cp.read_string(text)
        else:
            path = os.path.join(via_file, 'in.ini')
            with open(path, 'w', newline='', encoding='utf-8') as f:
                f.write(text)
            with open(path, encoding='utf-8') as f:   # universal newlines, like habutax's open(path)
                cp.read_file(f)
    except Exception as e:  # noqa
        return 'err ' + err_name(e)
    return ' '.join(['ok', dump(cp)] + [real_query(cp, q) for q in qs])


# ------------------------------------------------------------------ op sequences

SET_VALS = VALS + ['a\nb', 'a\n\nb', 'a\n b', 'a\n#b', '\nx', 'x\n', 'a\n\tb', 'l1\nl2\nl3', 'a\n;b', ' ', '\n',
                   'a\rb', 'k = v\n[s]', '\x0c', 'a\n\x0cb']


def gen_pyval(rng):
    r = rng.random()
    if r < 0.7:
        return ('s', rng.choice(SET_VALS))
    if r < 0.9:
        return ('i', rng.choice([0, 2023, -5, 10 ** 20]))
    return ('n', None)


def pyval_token(pv):
    t, v = pv
    if t == 's':
        return 's' + hx(v)
    if t == 'i':
        return f'i{v}'
    return 'n'


def pyval_real(pv):
    return pv[1]


def gen_op(rng, cp):
    """one op, mostly aimed at sections / options the live parser has"""
    have = cp.sections()
    if have and rng.random() < 0.75:
        s = rng.choice(have)
    else:
        s = rng.choice(SEC_NAMES)
    ks = list(cp._sections.get(s, {})) + list(cp._defaults)
    if ks and rng.random() < 0.5:
        k = rng.choice(ks)
        if rng.random() < 0.3:
            k = k.upper()
    else:
        k = rng.choice(KEYS)
    r = rng.random()
    if r < 0.14:
        return ('as', rng.choice(SEC_NAMES) if rng.random() < 0.8 else s)
    if r < 0.40:
        return ('set', s, k, rng.choice(SET_VALS))
    if r < 0.44:
        return ('setx', s, k, gen_pyval(rng))
    if r < 0.50:
        return ('ro', s, k)
    if r < 0.54:
        return ('rs', s)
    if r < 0.62:
        return ('w',)
    if r < 0.70:
        return ('rr',)
    if r < 0.76:
        items = [(rng.choice(KEYS), gen_pyval(rng)) for _ in range(rng.randint(0, 3))]
        return ('si', s if rng.random() < 0.5 else rng.choice(SEC_NAMES), items)
    if r < 0.81:
        return ('ps', s, k, gen_pyval(rng))
    if r < 0.85:
        return ('pg', s, k)
    if r < 0.88:
        return ('pi', s)
    if r < 0.92:
        return ('h', s, k)
    if r < 0.96:
        return ('g', s, k)
    if r < 0.98:
        return ('o', s)
    return ('iter',)


def op_token(op):
    k = op[0]
    if k in ('as', 'rs', 'o', 'pi'):
        return f'{k}:{hx(op[1])}'
    if k in ('ro', 'h', 'g', 'pg'):
        return f'{k}:{hx(op[1])}:{hx(op[2])}'
    if k == 'set':
        return f'set:{hx(op[1])}:{hx(op[2])}:{hx(op[3])}'
    if k in ('setx', 'ps'):
        return f'{k}:{hx(op[1])}:{hx(op[2])}:{pyval_token(op[3])}'
    if k == 'si':
        return f'si:{hx(op[1])}:' + ';'.join(f'{hx(a)}={pyval_token(b)}' for a, b in op[2])
    return k


class Holder:
    def __init__(self, cp):
        self.cp = cp


def real_op(h, op):
    cp = h.cp
    k = op[0]
    try:
        if k == 'as':
            cp.add_section(op[1]); return 'ok'
        if k == 'set':
            cp.set(op[1], op[2], op[3]); return 'ok'
        if k == 'setx':
            cp.set(op[1], op[2], pyval_real(op[3])); return 'ok'
        if k == 'ro':
            return 'T' if cp.remove_option(op[1], op[2]) else 'F'
        if k == 'rs':
            return 'T' if cp.remove_section(op[1]) else 'F'
        if k == 'w':
            f = io.StringIO(); cp.write(f); return '=' + hx(f.getvalue())
        if k == 'rr':
            f = io.StringIO(); cp.write(f)
            new = fresh(); new.read_string(f.getvalue()); h.cp = new; return 'ok'
        if k == 'si':
            d = {}
            items = op[2]
            # a dict cannot hold the same key twice: keep the protocol and the dict in sync
            for a, b in items:
                d[a] = pyval_real(b)
            cp[op[1]] = d; return 'ok'
        if k == 'ps':
            cp[op[1]][op[2]] = pyval_real(op[3]); return 'ok'
        if k == 'pg':
            return '=' + hx(cp[op[1]][op[2]])
        if k == 'pi':
            return show_list(list(cp[op[1]]))
        if k == 'h':
            return 'T' if cp.has_option(op[1], op[2]) else 'F'
        if k == 'g':
            return '=' + hx(cp.get(op[1], op[2]))
        if k == 'o':
            return show_list(cp.options(op[1]))
        if k == 'iter':
            return show_list(list(cp))
        if k == 'secs':
            return show_list(cp.sections())
        if k == 'dump':
            return dump(cp)
        if k == 'clean':
            # the model answers whether its proved round-trip predicate IniClean holds; the real side answers
            # whether write -> read really reproduces the content.  T on the model side must imply ~T here.
            f = io.StringIO(); cp.write(f)
            new = fresh()
            try:
                new.read_string(f.getvalue())
                same = dump(new) == dump(cp)
            except Exception:  # noqa
                same = False
            return '~T' if same else '~F'
    except Exception as e:  # noqa
        return '!' + err_name(e)
    raise ValueError(k)


def dedup_items(op):
    """parser[s] = {...}: make the item list a real dict's item list (distinct keys, last value wins at the
    first position) so that the model sees exactly `d.items()`"""
    if op[0] != 'si':
        return op
    d = {}
    for a, b in op[2]:
        d[a] = b
    return ('si', op[1], list(d.items()))


# ------------------------------------------------------------------ PDF

def py_pdf_decode(s):
    """independent reader of one PDF literal string (ISO 32000-1 7.3.4.2), positioned after '('"""
    esc = {'n': '\n', 'r': '\r', 't': '\t', 'b': '\b', 'f': '\f', '(': '(', ')': ')', '\\': '\\'}
    out = []
    i, n, depth = 0, len(s), 0
    while i < n:
        ch = s[i]
        if ch == '\\':
            i += 1
            if i >= n:
                return None
            e = s[i]
            if e in esc:
                out.append(esc[e]); i += 1
            elif e in '01234567':
                j, v = i, 0
                while j < n and j < i + 3 and s[j] in '01234567':
                    v = v * 8 + int(s[j]); j += 1
                out.append(chr(v & 255)); i = j
            elif e == '\r':
                i += 1
                if i < n and s[i] == '\n':
                    i += 1
            elif e == '\n':
                i += 1
            else:
                out.append(e); i += 1
        elif ch == '(':
            depth += 1; out.append(ch); i += 1
        elif ch == ')':
            if depth == 0:
                return ''.join(out), s[i + 1:]
            depth -= 1; out.append(ch); i += 1
        elif ch == '\r':
            out.append('\n'); i += 1
            if i < n and s[i] == '\n':
                i += 1
        else:
            out.append(ch); i += 1
    return None


def py_fdf_fields(text, header, footer):
    """independent reader of the /T (..) /V (..) pairs of an FDF of the shape _create_fdf writes"""
    if not text.startswith(header):
        return None
    s = text[len(header):]
    if s == footer:
        return []
    out = []
    while True:
        if not s.startswith('<< /T ('):
            return None
        r = py_pdf_decode(s[7:])
        if r is None:
            return None
        k, s = r
        if not s.startswith(' /V ('):
            return None
        r = py_pdf_decode(s[5:])
        if r is None:
            return None
        v, s = r
        if not s.startswith(' >>'):
            return None
        s = s[3:]
        out.append((k, v))
        if s == footer:
            return out
        if not s.startswith('\n'):
            return None
        s = s[1:]


PDF_ALPHA = list('()\\\\(())nrtbf0123789 aX/<>') + ['\n', '\r', '\r\n', '\\(', '\\)', '\\\\', '\\\n', '\\\r\n', '\\12', '\\0053', '\\400', '\\8', ') /V (', ' >>', '<< /T (']


def gen_pdf_soup(rng):
    return ''.join(rng.choice(PDF_ALPHA) for _ in range(rng.randint(0, 14)))


def gen_printable(rng, extra=()):
    pool = [chr(c) for c in range(32, 127)] + list('()\\()\\()\\') + list(extra)
    return ''.join(rng.choice(pool) for _ in range(rng.randint(0, 12)))


class FakeField:
    pass


def make_fake_form(form_name_, jur, seq, needs):
    from habutax.form import Jurisdiction
    members = list(Jurisdiction)

    class Fake(object):
        form_name = form_name_
        jurisdiction = members[jur]
        sequence_no = seq

        def __init__(self, instance=None):
            self._instance = instance

        def name(self):
            return self.form_name if self._instance is None else f'{self.form_name}:{self._instance}'

        def fields(self):
            return []

        def needs_filing(self, values):
            return needs
    return Fake


def real_fill(sections):
    """run the REAL PDFFiller.fill on a solution with these sections; pdftk and _fill_form are stubbed"""
    from habutax import pdf_filler
    sol = fresh()
    classes = {}
    for (name, jur, seq, needs) in sections:
        sol.add_section(name)
        base = name.split(':')[0]
        classes[base] = make_fake_form(base, jur, seq, needs)
    p = pdf_filler.PDFFiller(sol, list(classes.values()), 'x')
    filled = []
    p._fill_form = lambda form, fn: filled.append(form.name())
    saved = pdf_filler.subprocess.run
    pdf_filler.subprocess.run = lambda *a, **k: None
    try:
        p.fill()
    finally:
        pdf_filler.subprocess.run = saved
    return filled


# ------------------------------------------------------------------ the run

def ascii_lower(s):
    return ''.join(chr(ord(c) + 32) if 'A' <= c <= 'Z' else c for c in s)


def run(seed, n, run_step):
    import warnings
    with warnings.catch_warnings():
        warnings.simplefilter('ignore')       # /repo has invalid escape sequences in some regex literals
        from habutax import pdf_filler
        from habutax import forms  # noqa: F401  (pulls in the modules that warn, once, silently)
    shares = [('parse', 0.30), ('parsefile', 0.08), ('malformed', 0.10), ('nonascii', 0.04), ('ops', 0.22),
              ('fdf', 0.08), ('pdfdec', 0.12), ('fill', 0.06)]
    plan = []
    for name, share in shares:
        plan += [name] * max(1, int(n * share))
    while len(plan) < n:
        plan.append('parse')
    lines, expect, meta = [], [], []
    dist = {}
    tmp = tempfile.mkdtemp(prefix='ini_stream_')
    filler = pdf_filler.PDFFiller(None, [], 'x')

    def bump(key):
        dist[key] = dist.get(key, 0) + 1

    for idx, kind in enumerate(plan):
        rng = random.Random(f'{seed}/ini/{kind}/{idx}')
        if kind in ('parse', 'parsefile', 'malformed', 'nonascii'):
            if kind == 'malformed':
                text = gen_malformed(rng)
            elif kind == 'nonascii':
                text = gen_text(rng, keys=NONASCII_KEYS)
            else:
                text = gen_text(rng, cr=(kind == 'parsefile'))
            qs = gen_queries(rng, text if kind != 'parsefile' else text.replace('\r\n', '\n').replace('\r', '\n'),
                             keys=NONASCII_KEYS if kind == 'nonascii' else KEYS)
            op = 'parsefile' if kind == 'parsefile' else 'parse'
            lines.append(' '.join([op, hx(text)] + query_tokens(qs)))
            real = real_parse(text, qs, via_file=tmp if kind == 'parsefile' else None)
            expect.append(real)
            bites = False
            if kind == 'nonascii':
                names = [l.split('=')[0].split(':')[0].strip() for l in text.split('\n')] + [q[2] or '' for q in qs]
                bites = any(nm.lower() != ascii_lower(nm) for nm in names)
            meta.append((kind, bites))
            bump(f'{kind}:' + (real.split(' ')[1] if real.startswith('err') else 'ok'))
        elif kind == 'ops':
            text = (gen_valid(rng) if rng.random() < 0.85 else gen_structured(rng)) if rng.random() < 0.5 else None
            cp = fresh()
            toks = []
            try:
                if text is not None:
                    cp.read_string(text)
                h = Holder(cp)
                outs = []
                nops = rng.randint(1, 14)
                for step_no in range(nops + 3):
                    o = dedup_items(gen_op(rng, h.cp)) if step_no < nops else (('clean',), ('w',), ('dump',))[step_no - nops]
                    toks.append(op_token(o))
                    a = real_op(h, o)
                    outs.append(a)
                    bump(f'op:{o[0]}:' + (a if a.startswith('!') else 'ok'))
                real = ' '.join(['ok'] + outs)
            except Exception as e:  # noqa
                real = 'err ' + err_name(e)
                toks = ['w']
                bump('ops:initial-' + err_name(e))
            lines.append(' '.join(['ops', hx(text) if text is not None else '!'] + toks))
            expect.append(real)
            meta.append((kind, False))
        elif kind == 'fdf':
            m = {}
            for _ in range(rng.randint(0, 5)):
                extra = ['\n', '\t', 'é'] if rng.random() < 0.3 else []
                if rng.random() < 0.15:
                    extra = extra + ['\r']
                m[gen_printable(rng, extra)] = gen_printable(rng, extra)
            path = os.path.join(tmp, 'out.fdf')
            filler._create_fdf(m, path)
            with open(path, newline='') as f:
                real_text = f.read()
            pairs = ' '.join(f'{hx(k)}={hx(v)}' for k, v in m.items())
            lines.append(('fdf ' + pairs).strip())
            expect.append(hx(real_text))
            meta.append(('fdf', False))
            bump('fdf:create')
            # and read the REAL text back with both decoders
            lines.append('fdfdec ' + hx(real_text))
            back = py_fdf_fields(real_text, pdf_filler.fdf_header, pdf_filler.fdf_footer)
            expect.append('none' if back is None else ('some ' + ','.join(f'{hx(k)}={hx(v)}' for k, v in back)))
            meta.append(('fdfdec', False))
            has_cr = any('\r' in k or '\r' in v for k, v in m.items())
            rt = back == list(m.items())
            bump(f'fdf:roundtrip={rt}:cr={has_cr}')
            if not has_cr and not rt:
                # the round trip theorem says this cannot happen
                expect[-1] = 'ROUNDTRIP-VIOLATION ' + expect[-1]
        elif kind == 'pdfdec':
            s = gen_pdf_soup(rng)
            if rng.random() < 0.3:
                s = filler._escape_pdf_string(gen_printable(rng)) + ')' + gen_pdf_soup(rng)
            lines.append('pdfdec ' + hx(s))
            r = py_pdf_decode(s)
            expect.append('none' if r is None else f'{hx(r[0])} {hx(r[1])}')
            meta.append(('pdfdec', False))
            bump('pdfdec:' + ('none' if r is None else 'some'))
        elif kind == 'fill':
            names = rng.sample(['1040', '1040_s1', '1040_sa', 'w-2:a', 'w-2:b', 'nc_d-400', '8889', '8959', 'x'], rng.randint(0, 7))
            base_info = {}
            secs = []
            for nm in names:
                b = nm.split(':')[0]
                if b not in base_info:
                    base_info[b] = (rng.randint(0, 3), rng.randint(0, 4), rng.random() < 0.7)
                secs.append((nm,) + base_info[b])
            lines.append(('fill ' + ' '.join(f'{hx(nm)}:{j}:{s}:{1 if nf else 0}' for nm, j, s, nf in secs)).strip())
            expect.append(show_list(real_fill(secs)))
            meta.append(('fill', False))
            bump('fill')
    model = run_step(lines)
    disagreements = []
    samples = []
    if len(model) != len(lines):
        disagreements.append({'op': '<stream>', 'model': f'{len(model)} answer lines', 'real': f'{len(lines)} ops'})
    for l, m, r, (kind, bites) in zip(lines, model, expect, meta):
        if kind == 'nonascii' and bites:
            bump('nonascii:lower-bites:' + ('agree' if m == r else 'diverge'))
            continue
        if kind == 'nonascii':
            bump('nonascii:lower-harmless:' + ('agree' if m == r else 'DISAGREE'))
        if '~' in r and m != r:
            # token-wise comparison: `clean` answers are related by implication, not equality
            mt, rt = m.split(' '), r.split(' ')
            ok = len(mt) == len(rt)
            for a, b in zip(mt, rt):
                if b in ('~T', '~F'):
                    bump(f'roundtrip:IniClean={a}:real-roundtrip={b[1]}')
                    ok = ok and a in ('T', 'F') and not (a == 'T' and b == '~F')
                else:
                    ok = ok and a == b
            if not ok:
                disagreements.append({'op': l, 'model': m, 'real': r})
            continue
        if m != r:
            disagreements.append({'op': l, 'model': m, 'real': r})
    for k in range(0, len(lines), max(1, len(lines) // 12)):
        samples.append({'op': lines[k][:300], 'real': expect[k][:300]})
    try:
        for f in os.listdir(tmp):
            os.unlink(os.path.join(tmp, f))
        os.rmdir(tmp)
    except OSError:
        pass
    return {'cases': len(lines), 'disagreements': disagreements, 'distribution': dict(sorted(dist.items())),
            'samples': samples}


if __name__ == '__main__':
    # python ini_stream.py <seed> <n> <command that runs `step` over stdin lines>
    import subprocess
    seed_, n_, cmd = sys.argv[1], int(sys.argv[2]), sys.argv[3:]

    def run_step(ls):
        p = subprocess.run(cmd, input=('\n'.join(ls) + '\n').encode(), stdout=subprocess.PIPE, check=True)
        return p.stdout.decode().split('\n')[:-1]
    res = run(seed_, n_, run_step)
    print('cases', res['cases'], 'disagreements', len(res['disagreements']))
    for k, v in res['distribution'].items():
        print(f'  {k}: {v}')
    for d in res['disagreements'][:8]:
        print('OP   ', d['op']); print('MODEL', d['model']); print('REAL ', d['real'])
