"""Demand-driven random scenarios over the shipped forms.

A scenario is (year, requested forms, answer policy). The real solver is run with a prompt that
answers every missing input from the policy, so whatever lines the scenario reaches get the inputs
they ask for; the answers actually given are recorded and ARE the concrete input of the scenario
(they replay as an input file).  All randomness derives from the scenario's seed string.
"""
import re
import configparser
import hashlib
import io
import os
import random
import sys

from common import REPO  # noqa: F401  (sets sys.path, env)

STATUS_MEMBERS = {
    2021: ['Single', 'MarriedFilingJointly', 'MarriedFilingSeparately', 'HeadOfHousehold', 'QualifyingWidowWidower'],
    2022: ['Single', 'MarriedFilingJointly', 'MarriedFilingSeparately', 'HeadOfHousehold', 'QualifyingSurvivingSpouse'],
    2023: ['Single', 'MarriedFilingJointly', 'MarriedFilingSeparately', 'HeadOfHousehold', 'QualifyingSurvivingSpouse'],
}

TEXT_POOL = ['Bob', 'Alice Q', 'Smith-Jones', "O'Brien", '12 Main St', 'Apt 4', 'Mytown', '99999',
             'Teacher', 'ACME Corp', 'x', 'First National Bank', 'NC']


def h01(seed, *parts):
    """deterministic float in [0,1) from the seed and a key"""
    d = hashlib.sha256(('|'.join([str(seed)] + [str(p) for p in parts])).encode()).digest()
    return int.from_bytes(d[:8], 'big') / 2.0 ** 64


def pick(seed, key, items):
    return items[int(h01(seed, key, 'pick') * len(items)) % len(items)]


def amount(seed, key, scale=1.0):
    """money amounts: zeros, whole dollars, cents, small and large"""
    r = h01(seed, key, 'amt-kind')
    u = h01(seed, key, 'amt')
    if r < 0.10:
        return '0'
    if r < 0.15:
        return ''
    if r < 0.45:
        return str(int(u * 5000 * scale))
    if r < 0.75:
        return '%.2f' % (u * 60000 * scale)
    if r < 0.93:
        return '%.2f' % (u * 250000 * scale)
    return '%.2f' % (u * 1200000 * scale)


class Policy:
    """Answers for missing inputs. `fixed` overrides; `p_yes` is the chance a generic boolean is
    answered yes; `counts` bounds number_* inputs."""

    def __init__(self, seed, year, fixed=None, p_yes=0.02, max_count=3, scale=1.0, text=None):
        self.seed = seed
        self.year = year
        self.fixed = dict(fixed or {})
        self.p_yes = p_yes
        self.max_count = max_count
        self.scale = scale
        self.text = text
        self.subcent = False        # C12: money answers carry a fraction of a cent (payroll exports do)

    def answer(self, inp):
        ans = self._answer(inp)
        if self.subcent and ans is not None:
            from habutax import inputs as hi
            if isinstance(inp, hi.FloatInput) and inp.name() not in self.fixed and inp.base_name() not in self.fixed:
                d = pick(self.seed, inp.name() + '/subcent', ['4', '9', '5', '1', '49', '51'])
                if re.fullmatch(r'\d+\.\d\d', ans):
                    ans = ans + d
                elif re.fullmatch(r'[1-9]\d*', ans):
                    ans = ans + '.00' + d
        return ans

    def _answer(self, inp):
        from habutax import inputs as hi
        name = inp.name()
        if name in self.fixed:
            return self.fixed[name]
        base = inp.base_name()
        if base in self.fixed:          # override by base name for any form
            return self.fixed[base]
        s = self.seed
        form = inp.section().split(':')[0]
        # ---- special cases that keep most scenarios inside what habutax implements
        if base == 'number_dependents':
            r = h01(s, name, 'deps')
            val = str(int(r * 8) % 4) if r < 0.4 else '0'
            self.fixed['1040.number_dependents'] = val
            return val
        if base == 'number_under_17':
            return self.fixed.get('1040.number_dependents', '0')
        if base.endswith('_ctc'):
            return 'yes'
        if base == 'number_1099-oid':
            return '0'
        if form == 'w-2' and base in ('box_1', 'box_3', 'box_5', 'box_16'):
            r = h01(s, inp.section(), 'wage')          # one wage per W-2, shared by the boxes
            if inp.section() == 'w-2:0':
                wage = 64000 + r * 56000 * self.scale
            else:
                wage = r * 40000 * self.scale
            if h01(s, inp.section(), 'cents') < 0.5:
                return '%.2f' % wage
            return str(int(wage))
        if form == 'w-2' and base == 'box_2':
            return '%.2f' % (h01(s, name, 'wh') * 40000 * self.scale)
        if form == 'w-2' and base in ('box_17', 'box_19'):
            return '%.2f' % (h01(s, name, 'st') * 9000)
        if (form == '1099-int' and base == 'box_6') or (form == '1099-div' and base == 'box_7'):
            return '%.2f' % (h01(s, name, 'ft') * 140) if h01(s, name, 'ftk') < 0.4 else '0'
        if form == '1099-div' and base == 'box_5':
            return '0' if h01(s, name, 'qbi') < 0.8 else '%.2f' % (h01(s, name, 'q') * 900)
        if base == 'charitable_other_than_cash_check':
            return '%.2f' % (h01(s, name, 'nc') * 500)
        if base == 'educator_expenses':
            return '%.2f' % (h01(s, name, 'ed') * 250)
        if base in ('box_12a_code', 'box_12b_code', 'box_12c_code', 'box_12d_code'):
            return pick(s, name, ['', '', 'D', 'DD', 'AA'])
        if isinstance(inp, hi.EnumInput):
            members = list(inp.enum.__members__.keys())
            if inp.allow_empty and h01(s, name, 'empty') < 0.5:
                return ''
            return pick(s, name, members)
        if isinstance(inp, hi.BooleanInput):
            p = self.p_yes
            if base in ('checking_account', 'you_presidential_election', 'box_13_retirement'):
                p = 0.4
            if base.endswith('ssn_before_due_date'):
                p = 0.9
            return 'yes' if h01(s, name, 'bool') < p else 'no'
        if isinstance(inp, hi.IntegerInput):
            if base.startswith('number_'):
                r = h01(s, name, 'count')
                if base == 'number_w-2':
                    return str(1 + int(r * self.max_count) % self.max_count)
                return str(int(r * 2 * (self.max_count + 1)) % (self.max_count + 1)) if r < 0.5 else '0'
            r = h01(s, name, 'int')
            return str(int(r * 4)) if r < 0.5 else '0'
        if isinstance(inp, hi.FloatInput):
            return amount(s, name, self.scale * 0.03)
        if isinstance(inp, hi.SSNInput):
            return pick(s, name, ['123-45-6789', '987654321', '111-22-3333'])
        if isinstance(inp, hi.RegexInput):
            if 'routing' in base:
                return '011000015'
            return 'ACCT-12345'
        # plain strings
        if self.text is not None:
            return self.text(name)
        if base.startswith('box_15') or base.startswith('box_14_') or 'state' in base:
            return pick(s, name, ['NC', 'NC', 'VA', ''])
        return pick(s, name, TEXT_POOL)


class Recorder:
    """Wraps the store accessors to record which inputs and lines each line reads."""
    pass


def run(year, forms, policy, file_inputs=None, schedule=None, max_prompts=4000, writeback=None, fields=None):
    """Run the REAL solver. Returns a dict with verdict / exception, solver, answers given,
    prompts asked, the final ConfigParser of inputs."""
    from habutax import solver as hsolver, inputs as hinputs, forms as hforms
    if policy is not None and any(str(f).startswith('nc_d-400') for f in forms) and hasattr(policy, 'fixed') \
            and str(policy.fixed.get('1040.number_1098', '0')).strip() in ('', '0') and '1040.number_1098' not in (file_inputs or {}):
        # NC Schedule A line 1 is `sum([...1098 amounts...])`: with no Form 1098 that is the int 0 in a money line and
        # EVERY NC return aborts with TypeError (documented in DESIGN.md); scenarios that include the NC return get one 1098
        policy.fixed['1040.number_1098'] = '1'
    cfg = configparser.ConfigParser(interpolation=None)
    for k, v in (file_inputs or {}).items():
        sec, opt = k.split('.')
        if not cfg.has_section(sec):
            cfg.add_section(sec)
        cfg.set(sec, opt, v)
    store = hinputs.InputStore(cfg)
    asked = []

    def prompt(missing, needed_by):
        if len(asked) >= max_prompts:
            return (None, False)
        ans = policy.answer(missing) if policy is not None else None
        if ans is None:
            asked.append((missing.name(), [f.name() for f in needed_by], None))
            return (None, False)
        if not missing.valid(ans):
            # policy produced something invalid for this input: fall back to blank / first member
            ans = '' if missing.valid('') else '0'
        asked.append((missing.name(), [f.name() for f in needed_by], ans))
        return (ans, True)

    hsolver._verif_schedule = schedule
    s = hsolver.Solver(store, hforms.available_forms[year], prompt=prompt if policy is not None else None)
    out = dict(year=year, forms=list(forms), solver=s, store=store, cfg=cfg, asked=asked,
               exception=None, ok=None)
    try:
        try:
            out['ok'] = s.solve(list(forms), field_names=list(fields)) if fields else s.solve(list(forms))
        finally:
            hsolver._verif_schedule = None
    except BaseException as e:   # noqa: BLE001 (RecursionError etc. are outcomes here)
        if isinstance(e, (KeyboardInterrupt, SystemExit)):
            raise
        out['exception'] = e
    return out


def inputs_of(result):
    """the concrete inputs of a finished run: {full name: text}"""
    cfg = result['cfg']
    d = {}
    for sec in cfg.sections():
        for opt in cfg[sec]:
            d[f'{sec}.{opt}'] = cfg.get(sec, opt)
    return d


def values_of(result):
    return dict(result['solver']._v.values)


def exc_kind(e):
    return type(e).__name__ if e is not None else None


def gen_policy(seed, year, kind=None):
    """A family of policies: plain, itemizing, rich (many payers), gates, NC."""
    rng = random.Random(f'{seed}/policy')
    kind = kind or rng.choice(['plain', 'plain', 'itemize', 'rich', 'gates', 'big', 'mfj', 'deps', 'hsa'])
    fixed = {'1040.filing_status': rng.choice(STATUS_MEMBERS[year])}
    p_yes = 0.0
    scale = 1.0
    if kind == 'plain':
        pass
    elif kind == 'itemize':
        fixed['1040.itemize'] = 'yes'
        fixed['1040.number_1098'] = str(rng.choice([1, 1, 2, 3]))
    elif kind == 'rich':
        for n in ['number_1099-int', 'number_1099-div', 'number_1099-r', 'number_1099-g', 'number_1098']:
            fixed['1040.' + n] = str(rng.choice([0, 1, 2, 3]))
    elif kind == 'gates':
        p_yes = 0.03
    elif kind == 'big':
        scale = 6.0
    elif kind == 'mfj':
        fixed['1040.filing_status'] = 'MarriedFilingJointly'
    elif kind == 'hsa':
        fixed['1040.filing_status'] = rng.choice(['MarriedFilingJointly', 'MarriedFilingJointly', 'Single'])
        fixed.update({'1040.schedule_1_income_adjustments': 'yes', 'hsa_contribution_you': 'yes',
                      'hsa_contribution_spouse': 'yes' if fixed['1040.filing_status'] == 'MarriedFilingJointly' else 'no',
                      'age_under_55': 'yes', 'hsa_full_year': 'yes', 'hdhp_plan_family': 'no',
                      'hsa_contributions': str(rng.choice([500, 1800, 2500.5, 3000])), 'employer_contribution': '0',
                      'archer_msa': '0', 'educator_expenses': '0'})
    elif kind == 'deps':
        fixed['1040.number_dependents'] = str(rng.choice([1, 2, 3, 4]))
    elif kind == 'invest':
        # little or no earned income, mostly qualified dividends / capital-gain distributions, section 199A dividends:
        # the corner where "income minus net capital gain" style subtractions reach zero or would go below it
        a = rng.choice([8000, 20000, 45000, 90000]) + rng.choice([0, 0.5, 123.45])
        fixed.update({'1040.number_w-2': rng.choice(['0', '0', '1']), '1040.number_1099-div': rng.choice(['1', '1', '2']),
                      '1040.number_1099-int': '0', '1040.number_1099-r': '0', '1040.number_1099-g': '0',
                      'box_1a': f'{a:.2f}', 'box_1b': f'{a * rng.choice([0.8, 0.95, 1.0]):.2f}',
                      'box_2a': rng.choice(['0', '0', f'{a / 4:.2f}']), 'box_5': str(rng.choice([200, 1000, 2500.75])),
                      'box_1': str(rng.choice([0, 3000, 9000]))})
    return Policy(seed, year, fixed=fixed, p_yes=p_yes, scale=scale), kind


def request_for(seed, year, kind):
    rng = random.Random(f'{seed}/request')
    forms = ['1040']
    if rng.random() < 0.25:
        forms.append('nc_d-400')
    return forms
