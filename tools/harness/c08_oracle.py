"""C08 statement oracle: REAL solves around every published amount, against tools/c08_statutory.json.

    run(seed, tier) -> {"violations": [...], "checked": {...}, "samples": [...], "not_observed": [...],
                        "template_checks": {...}}

For every (tax year, filing status, amount) of the independent table the REAL solver is run on inputs that put the
quantity the law compares AT the published limit and one cent (one dollar for whole-dollar lines) either side, and
the line where the amount shows -- or the outcome it decides -- is observed:

    standard deduction            1040 line 12 / 12a; `itemizing` flips when Schedule A line 17 reaches it
    capital-gain breakpoints      Qualified Dividends and Capital Gain Tax Worksheet lines 6 and 13
    AMT exemption / phase-out     "Should you fill in Form 6251" worksheet lines 6 and 8; its verdict `need_6251` around the
                                  28% threshold (wages chosen so that worksheet line 11 is the threshold)
    child tax credit              Schedule 8812 lines 5, 7, 9, 16b (2021: Line 5 Worksheet lines 1, 2, 4, 6, 8 and line 33)
    Additional Medicare Tax       Form 8959 lines 5, 9, 15; Form 1040 line 25c (is Form 8959 required) with two W-2s
    HSA limits                    Form 8889 line 3 (self-only / family)
    SALT cap                      Schedule A line 5e above and below the cap
    QBI threshold                 Form 1040 line 13 with a section 199A dividend (Form 8995 used / not implemented)
    EIC limits                    Form 1040 line 27 (27a in 2021): AGI at the limit -> no EIC, one cent less -> EIC possible
                                  (reported not implemented); investment income at / above its limit
    recovery rebate (2021)        worksheet lines 6, 7, 9 (check box), 10, 11
    Schedule B $1,500             Form 1040 line 2b: reported directly / through Schedule B
    Form 1116 $300/$600           Schedule 3 line 1;  retirement savings credit AGI limit: Schedule 3 line 4
    educator expenses             Schedule 1 line 11 at twice the per-educator limit (joint return of two educators)
    North Carolina                D-400 line 15 (rate), Schedule A standard deduction, child deduction table at every bound

Every scenario is a run of the real `Solver`: the scenario's forms are loaded, the OBSERVED lines are demanded
(`solve([], fields)`; the other required lines of the loaded forms are not demanded, so a scenario does not depend on
lines it does not observe), the solver pulls in whatever those lines need, and a prompt answers each missing input:
the scenario's own inputs, and for everything else the blandest valid answer (no / 0 / first member / 'x').  The answers given ARE the
concrete input of the scenario; a violation carries them as a replay
(`{"kind": "scenario", "year", "forms", "fields", "inputs", "observe"}`; `replay(case)` re-runs one).

The oracle never reads an amount from the code.  An amount with no confident published value is skipped and listed.
A scenario in which the observed line did not get a value and was not reported not-implemented (so nothing could be
observed) is listed under `not_observed` -- it is neither a pass nor a violation.

Second oracle: amounts PRINTED in the bundled templates (accessibility text, read with tools/pdf_extract.py) are compared
with the table (`template_checks`): a template of the right year must print the table's value.
"""
import configparser
import os
import random
import re
import sys
import warnings
from fractions import Fraction

try:
    import common                        # sets sys.path for habutax, HABUTAX_VERIF, dont_write_bytecode
    VERIF = common.VERIF
    REPO = common.REPO
except ImportError:                      # run from elsewhere
    sys.dont_write_bytecode = True
    VERIF = os.path.dirname(os.path.dirname(os.path.dirname(os.path.abspath(__file__))))
    REPO = os.environ.get('HABUTAX_REPO', '/repo')
    if REPO not in sys.path:
        sys.path.insert(0, REPO)

TOOLS = os.path.join(VERIF, 'tools')
if TOOLS not in sys.path:
    sys.path.append(TOOLS)

YEARS = (2021, 2022, 2023)
STATUSES = ('single', 'mfj', 'mfs', 'hoh', 'qss')
MEMBER = {
    2021: {'single': 'Single', 'mfj': 'MarriedFilingJointly', 'mfs': 'MarriedFilingSeparately', 'hoh': 'HeadOfHousehold',
           'qss': 'QualifyingWidowWidower'},
    2022: {'single': 'Single', 'mfj': 'MarriedFilingJointly', 'mfs': 'MarriedFilingSeparately', 'hoh': 'HeadOfHousehold',
           'qss': 'QualifyingSurvivingSpouse'},
}
MEMBER[2023] = MEMBER[2022]
CENT = Fraction(1, 100)


# --------------------------------------------------------------------------------------------------
# the table
# --------------------------------------------------------------------------------------------------
class Table(object):
    def __init__(self, path=None):
        import json
        with open(path or os.path.join(TOOLS, 'c08_statutory.json'), encoding='utf-8') as fh:
            self.data = json.load(fh)
        self.by_id = {a['id']: a for a in self.data['amounts']}

    def get(self, year, status, aid):
        a = self.by_id.get(aid)
        v = a and a['values'].get(str(year))
        if not v:
            return None
        s = v.get('all', v.get(status))
        return None if s is None else Fraction(s)

    def cite(self, year, aid):
        return (self.by_id.get(aid) or {}).get('cite', {}).get(str(year))


def money(q):
    """input text of an exact amount"""
    q = Fraction(q)
    if q.denominator == 1:
        return str(q.numerator)
    return '%.2f' % float(q) if (q * 100).denominator == 1 else repr(float(q))


# --------------------------------------------------------------------------------------------------
# one real solve with a bland answering prompt
# --------------------------------------------------------------------------------------------------
def bland_answer(inp):
    from habutax import inputs as hi
    base = inp.base_name()
    if isinstance(inp, hi.EnumInput):
        if inp.allow_empty:
            return ''
        return list(inp.enum.__members__.keys())[0]
    if isinstance(inp, hi.BooleanInput):
        return 'no'
    if isinstance(inp, hi.IntegerInput):
        return '0'
    if isinstance(inp, hi.FloatInput):
        return '0'
    if isinstance(inp, hi.SSNInput):
        return '123-45-6789'
    if isinstance(inp, hi.RegexInput):
        return '011000015' if 'routing' in base else 'ACCT12345'
    return 'x'


def solve(year, forms, fields, fixed, max_prompts=3000):
    """Run the REAL solver.  `fixed`: {full input name or base name: text}.  Returns dict(values, unimplemented, ok,
    exception, inputs) where inputs are all the answers given (the concrete input of the scenario)."""
    with warnings.catch_warnings():
        warnings.simplefilter('ignore')
        from habutax import solver as hsolver, inputs as hinputs, forms as hforms
    cfg = configparser.ConfigParser(interpolation=None)
    store = hinputs.InputStore(cfg)
    given = {}

    def prompt(missing, needed_by):
        if len(given) >= max_prompts:
            return (None, False)
        name = missing.name()
        ans = fixed.get(name, fixed.get(missing.base_name())) if name in fixed or '.' not in missing.base_name() else None
        if name in fixed:
            ans = fixed[name]
        elif missing.base_name() in fixed:
            ans = fixed[missing.base_name()]
        else:
            ans = bland_answer(missing)
        if not missing.valid(ans):
            ans = bland_answer(missing)
        given[name] = ans
        return (ans, True)

    s = hsolver.Solver(store, hforms.available_forms[year], prompt=prompt)
    out = dict(year=year, forms=list(forms), fields=list(fields), ok=None, exception=None, values={}, unimplemented=[],
               inputs=given)
    try:
        for f in forms:
            s._add_form(f)
        # only the observed lines are demanded: the forms' other required lines are not part of the scenario (several
        # of them abort a solve for reasons that belong to other properties, e.g. `sum([])` in a float line)
        s._unattempted_fields.clear()
        s._solving_fields.clear()
        missing = [f for f in fields if f not in s._field_map]
        if missing:
            out['exception'] = f'KeyError: no such line {missing}'
            return out
        out['ok'] = s.solve([], list(fields))
        out['unimplemented'] = list(s.unimplemented_fields())
    except BaseException as e:   # noqa: BLE001
        if isinstance(e, (KeyboardInterrupt, SystemExit)):
            raise
        out['exception'] = f'{type(e).__name__}: {e}'[:300]
    out['values'] = dict(s._v.values)
    return out


# --------------------------------------------------------------------------------------------------
# scenarios
# --------------------------------------------------------------------------------------------------
class Scenario(object):
    """inputs + what must be observed.  `expect`: {line: ('eq', Fraction) | ('bool', b) | ('notimpl',) | ('absent',) |
    ('present',) | ('approx', Fraction, tol) | ('ratio', other line, Fraction rate, tol)}"""

    def __init__(self, year, status, amount, what, forms, fields, fixed, expect):
        self.year, self.status, self.amount, self.what = year, status, amount, what
        self.forms, self.fields, self.fixed, self.expect = forms, fields, fixed, expect


def w2(wages, n=0):
    t = money(wages)
    return {f'w-2:{n}.box_1': t, f'w-2:{n}.box_3': '0', f'w-2:{n}.box_5': '0'}


def build_scenarios(table, years=YEARS, rng=None, extra=0):
    S = []

    def around(at_is_low):
        """offsets from the published limit with the side they fall on: the limit itself and one cent beyond; with
        `extra` (thorough tier) also `extra` random offsets up to 3,000 further away on either side"""
        base = [(Fraction(0), 'lo'), (CENT, 'hi')] if at_is_low else [(-CENT, 'lo'), (Fraction(0), 'hi')]
        out = list(base)
        for _ in range(extra if rng is not None else 0):
            r = Fraction(rng.randrange(2, 300000), 100)
            out.append((base[0][0] - r, 'lo'))
            out.append((base[1][0] + r, 'hi'))
        return out

    def far(d):
        return '' if d == 0 else f' {"plus" if d > 0 else "minus"} {float(abs(d)):.2f}'

    def add(year, status, amount, what, forms, fields, fixed, expect):
        fx = {'1040.filing_status': MEMBER[year][status]}
        fx.update(fixed)
        S.append(Scenario(year, status, amount, what, forms, fields, fx, expect))

    for y in years:
        l12 = '1040.12a' if y == 2021 else '1040.12'
        leic = '1040.27a' if y == 2021 else '1040.27'
        WK, NK, S8, RK = '1040_qualdiv_capgain_tax_wkst', '1040_s2_need_6251', '1040_s8812', '1040_recovery_rebate_credit_wkst'
        for st in STATUSES:
            g = lambda aid: table.get(y, st, aid)   # noqa: E731
            wages1 = {'1040.number_w-2': '1'}
            # ---- standard deduction
            L = g('std_deduction')
            if L is not None:
                add(y, st, 'std_deduction', 'wage earner taking the standard deduction', ['1040'], [l12],
                    dict(wages1, **w2(50000)), {l12: ('eq', L)})
                for d, side in around(False):
                    want = side == 'hi'
                    add(y, st, 'std_deduction', f'itemizer whose only deduction is mortgage interest of the standard deduction{far(d)}',
                        ['1040'], ['1040.itemizing'],
                        dict(wages1, **w2(90000), **{'1040.itemize': 'yes', '1040.number_1098': '1', '1098:0.box_1': money(L + d)}),
                        {'1040.itemizing': ('bool', want)})
            # ---- capital gain breakpoints
            for aid, line in (('capgain_0_max', '6'), ('capgain_15_max', '13')):
                L = g(aid)
                if L is not None:
                    add(y, st, aid, f'worksheet line {line}', [WK], [f'{WK}.{line}'], {}, {f'{WK}.{line}': ('eq', L)})
            # ---- AMT worksheet
            for aid, line in (('amt_exemption', '6'), ('amt_phaseout_start', '8')):
                L = g(aid)
                if L is not None:
                    add(y, st, aid, f'6251 worksheet line {line}', [NK], [f'{NK}.{line}'], {}, {f'{NK}.{line}': ('eq', L)})
            T, E = g('amt_28pct_threshold'), g('amt_exemption')
            if T is not None and E is not None:
                for d, side in around(True):
                    if abs(d) > 1:
                        continue        # further away the verdict also depends on line 12 > line 13
                    want = side == 'hi'
                    add(y, st, 'amt_28pct_threshold',
                        f'wages such that 6251 worksheet line 11 is the 28% threshold{far(d)}',
                        ['1040', NK], [f'{NK}.need_6251'], dict(wages1, **w2(T + E + d)), {f'{NK}.need_6251': ('bool', want), f'{NK}.11': ('eq', T + d)})
            # ---- child tax credit
            L = g('ctc_phaseout_start')
            if L is not None:
                add(y, st, 'ctc_phaseout_start', 'Schedule 8812 line 9', [S8], [f'{S8}.9'], {}, {f'{S8}.9': ('eq', L)})
            if y == 2021:
                for aid, line in (('ctc2021_ws_line6', '5_ws_6'), ('ctc2021_first_phaseout_start', '5_ws_8'), ('ctc2021_repayment_protection_agi', '33')):
                    L = g(aid)
                    if L is not None:
                        add(y, st, aid, f'Schedule 8812 {line}', [S8], [f'{S8}.{line}'], {}, {f'{S8}.{line}': ('eq', L)})
            # ---- Additional Medicare Tax
            L = g('addl_medicare_threshold')
            if L is not None:
                add(y, st, 'addl_medicare_threshold', 'Form 8959 lines 5, 9, 15', ['1040', '8959'], ['8959.5', '8959.9', '8959.15'],
                    {'1040.number_w-2': '0'}, {'8959.5': ('eq', L), '8959.9': ('eq', L), '8959.15': ('eq', L)})
                for d, side in around(True):
                    want = ('eq', Fraction(0)) if side == 'lo' else ('approx', Fraction(180), Fraction(1, 50))
                    if d < -1000:
                        continue
                    half = L / 2
                    fx = {'1040.number_w-2': '2'}
                    for n, wg in ((0, half), (1, half + d)):
                        fx.update({f'w-2:{n}.box_1': money(wg), f'w-2:{n}.box_3': '0', f'w-2:{n}.box_5': money(wg)})
                    fx['w-2:0.box_6'] = money((half * Fraction(145, 10000)).limit_denominator(100) + 180)
                    fx['w-2:1.box_6'] = money(((half + d) * Fraction(145, 10000)).limit_denominator(100))
                    add(y, st, 'addl_medicare_threshold',
                        f'two W-2s whose Medicare wages total the threshold{far(d)}, 180 over-withheld',
                        ['1040'], ['1040.25c'], fx, {'1040.25c': want})
            # ---- SALT cap
            L = g('salt_cap')
            if L is not None:
                for d in (Fraction(100), Fraction(-100)):
                    add(y, st, 'salt_cap', f'real estate taxes of the cap {"plus" if d > 0 else "minus"} 100', ['1040_sa'], ['1040_sa.5e'],
                        {'1040.number_w-2': '1', '1040_sa.state_local_real_estate_taxes': money(L + d)},
                        {'1040_sa.5e': ('eq', min(L, L + d))})
            # ---- QBI threshold (2021 compares line 11 - line 12c, 2022/2023 compare line 11)
            L, SD = g('qbi_threshold'), g('std_deduction')
            if L is not None and SD is not None:
                base = L + SD if y == 2021 else L
                for d, side in around(True):
                    want = ('present',) if side == 'lo' else ('notimpl',)
                    add(y, st, 'qbi_threshold', f'section 199A dividend of 10; income at the threshold{far(d)}',
                        ['1040'], ['1040.13'],
                        dict(wages1, **w2(base + d), **{'1040.number_1099-div': '1', '1099-div:0.box_5': '10'}),
                        {'1040.13': want})
            # ---- EIC
            for k in range(4):
                L = g(f'eic_agi_limit_{k}')
                if L is None:
                    continue
                for d, side in around(False):
                    want = ('eq', Fraction(0)) if side == 'hi' else ('notimpl',)
                    add(y, st, f'eic_agi_limit_{k}', f'{k} dependents, AGI at the limit{far(d)}', ['1040'], [leic],
                        dict(wages1, **w2(L + d), **{'1040.number_dependents': str(k)}), {leic: want})
            L = g('eic_investment_income_limit')
            if L is not None and st == 'single':
                for d, side in around(True):
                    want = ('notimpl',) if side == 'lo' else ('eq', Fraction(0))
                    add(y, st, 'eic_investment_income_limit', f'taxable interest at the investment income limit{far(d)}',
                        ['1040'], [leic], dict(wages1, **w2(1000), **{'1040.number_1099-int': '1', '1099-int:0.box_1': money(L + d)}), {leic: want})
            # ---- recovery rebate credit
            if y == 2021:
                A0, A1, DV, AM = g('rrc_agi_start'), g('rrc_agi_end'), g('rrc_divisor'), g('rrc_amount')
                if None not in (A0, A1, DV, AM):
                    pay = AM * (2 if st == 'mfj' else 1)
                    for d, chk in ((Fraction(0), False), (CENT, True)):
                        add(y, st, 'rrc_agi_start', f'AGI at the phase-out start{"" if d == 0 else " plus one cent"}', ['1040', RK],
                            [f'{RK}.9_checkbox', f'{RK}.6', f'{RK}.7', f'{RK}.10', f'{RK}.11'],
                            dict(wages1, **w2(A0 + d), **{f'{RK}.ssn_before_due_date': 'yes', f'{RK}.dependents_ssn_before_due_date': '2'}),
                            {f'{RK}.9_checkbox': ('bool', chk), f'{RK}.6': ('eq', pay), f'{RK}.7': ('eq', AM * 2),
                             f'{RK}.10': ('eq', A1 - A0 - d), f'{RK}.11': ('approx', (A1 - A0 - d) / DV, Fraction(1, 100))})
                    mid = (A0 + A1) / 2
                    add(y, st, 'rrc_divisor', 'AGI half way through the phase-out', ['1040', RK], [f'{RK}.11', f'{RK}.10_checkbox'],
                        dict(wages1, **w2(mid), **{f'{RK}.ssn_before_due_date': 'yes'}),
                        {f'{RK}.11': ('eq', (A1 - mid) / DV), f'{RK}.10_checkbox': ('bool', False)})
                    add(y, st, 'rrc_agi_end', 'AGI one cent above the end of the phase-out', ['1040', RK], [f'{RK}.10_checkbox'],
                        dict(wages1, **w2(A1 + CENT), **{f'{RK}.ssn_before_due_date': 'yes'}), {f'{RK}.10_checkbox': ('bool', True)})
            # ---- Schedule 3
            L = g('form1116_foreign_tax_limit')
            if L is not None:
                for d, side in around(True):
                    if L + d <= 0:
                        continue
                    want = ('eq', L + d) if side == 'lo' else ('notimpl',)
                    add(y, st, 'form1116_foreign_tax_limit', f'foreign tax at the limit{far(d)}', ['1040_s3'], ['1040_s3.1'],
                        {'1040.number_1099-int': '1', '1040.number_1099-div': '0', '1099-int:0.box_6': money(L + d)}, {'1040_s3.1': want})
            L = g('saver_credit_agi_limit')
            if L is not None:
                for d, side in around(True):
                    want = ('notimpl',) if side == 'lo' else ('eq', Fraction(0))
                    add(y, st, 'saver_credit_agi_limit', f'retirement contributions, AGI at the limit{far(d)}', ['1040', '1040_s3'], ['1040_s3.4'],
                        dict(wages1, **w2(L + d), **{'1040_s3.retirement_savings_contributions': 'yes'}), {'1040_s3.4': want})
            # ---- North Carolina
            L = g('nc_std_deduction')
            if L is not None:
                add(y, st, 'nc_std_deduction', 'NC Schedule A standard deduction', ['nc_d-400_sa'], ['nc_d-400_sa.nc_standard_deduction'], {},
                    {'nc_d-400_sa.nc_standard_deduction': ('eq', L)})
            CW = 'nc_d-400_child_deduction_wkst'
            k = 1
            while g(f'nc_child_agi_limit_{k}') is not None:
                lim, amt_k, nxt = g(f'nc_child_agi_limit_{k}'), g(f'nc_child_amount_{k}'), g(f'nc_child_amount_{k+1}')
                for d, want in ((Fraction(0), amt_k), (Fraction(1), nxt if g(f'nc_child_agi_limit_{k+1}') is not None else Fraction(0))):
                    if want is None:
                        continue
                    add(y, st, f'nc_child_agi_limit_{k}', f'federal AGI at bound {k} of the child deduction table{"" if d == 0 else " plus one dollar"}',
                        ['1040', 'nc_d-400', CW], [f'{CW}.4'], dict(wages1, **w2(lim + d)), {f'{CW}.4': ('eq', want), f'{CW}.2': ('eq', lim + d)})
                k += 1
        # ---- status-independent amounts (one status is enough; single)
        st = 'single'
        g = lambda aid: table.get(y, st, aid)   # noqa: E731
        for aid, fam in (('hsa_limit_self', 'no'), ('hsa_limit_family', 'yes')):
            L = g(aid)
            if L is not None:
                add(y, st, aid, f'Form 8889 line 3, family coverage: {fam}', ['8889:you'], ['8889:you.3'],
                    {'8889:you.hdhp_plan_family': fam, '8889:you.age_under_55': 'yes', '8889:you.hsa_full_year': 'yes'}, {'8889:you.3': ('eq', L)})
        L = g('schedule_b_threshold')
        if L is not None:
            for d, want in ((Fraction(0), {'1040.2b': ('eq', L), '1040_sb.4': ('absent',)}), (CENT, {'1040.2b': ('eq', L + CENT), '1040_sb.4': ('eq', L + CENT)})):
                add(y, st, 'schedule_b_threshold', f'one 1099-INT with interest at the threshold{"" if d == 0 else " plus one cent"}', ['1040'], ['1040.2b'],
                    {'1040.number_w-2': '0', '1040.number_1099-int': '1', '1099-int:0.box_1': money(L + d)}, want)
        L = g('educator_expense_limit')
        if L is not None:
            for d, side in around(True):
                if 2 * L + d <= 0 or abs(d) > 100:
                    continue
                want = ('eq', 2 * L + d) if side == 'lo' else ('notimpl',)
                add(y, 'mfj', 'educator_expense_limit', f'two educators deducting twice the per-educator limit{far(d)}', ['1040_s1'], ['1040_s1.11'],
                    {'1040_s1.educator_expenses': money(2 * L + d)}, {'1040_s1.11': want})
        L = g('ctc_per_child')
        if L is not None and y != 2021:
            add(y, st, 'ctc_per_child', 'Schedule 8812 line 5 for 2 children', ['1040', S8], [f'{S8}.5'], {f'{S8}.number_under_17': '2'}, {f'{S8}.5': ('eq', 2 * L)})
        L = g('actc_max_per_child')
        if L is not None:
            add(y, st, 'actc_max_per_child', 'Schedule 8812 line 16b for 2 children', ['1040', S8], [f'{S8}.16b'], {f'{S8}.number_under_17': '2'}, {f'{S8}.16b': ('eq', 2 * L)})
        if y == 2021:
            for aid, line, inp, n in (('ctc2021_under6', '5_ws_1', {f'{S8}.number_under_18': '2', f'{S8}.number_under_6': '2'}, 2),
                                      ('ctc2021_6to17', '5_ws_2', {f'{S8}.number_under_18': '2', f'{S8}.number_under_6': '0'}, 2)):
                L = g(aid)
                if L is not None:
                    add(y, st, aid, f'Schedule 8812 Line 5 Worksheet {line}', ['1040', S8], [f'{S8}.{line}'], inp, {f'{S8}.{line}': ('eq', n * L)})
        L = g('nc_tax_rate')
        if L is not None:
            add(y, st, 'nc_tax_rate', 'NC D-400 line 15 on wages of 2,000,000', ['1040', 'nc_d-400'], ['nc_d-400.15'],
                dict({'1040.number_w-2': '1', '1040.number_1098': '1'}, **w2(2000000)), {'nc_d-400.15': ('ratio', 'nc_d-400.14', L, Fraction(51, 100))})
    return S


def check_expect(sc, res):
    """-> (problems, observed) ; problems is a list of strings; observed False when nothing could be observed"""
    probs = []
    observed = True
    vals, unimpl = res['values'], set(res['unimplemented'])
    for line, exp in sc.expect.items():
        kind = exp[0]
        if kind == 'notimpl':
            if line in vals:
                probs.append(f'{line} = {vals[line]!r}, published rule: not implemented / refused here')
            elif line not in unimpl:
                observed = False
            continue
        if kind == 'absent':
            if line in vals:
                probs.append(f'{line} was computed ({vals[line]!r}); at the published limit it must not be demanded')
            continue
        if line not in vals:
            if line in unimpl:
                probs.append(f'{line} reported not implemented, published rule gives a value here ({exp[1:]})')
            else:
                observed = False
            continue
        x = vals[line]
        if kind == 'present':
            continue
        if kind == 'bool':
            if x is not exp[1] and x != exp[1]:
                probs.append(f'{line} = {x!r}, published rule gives {exp[1]}')
        elif kind == 'eq':
            if isinstance(x, bool) or not isinstance(x, (int, float)) or Fraction(x) != Fraction(float(exp[1])) and Fraction(x) != exp[1]:
                probs.append(f'{line} = {x!r}, published value {float(exp[1])!r}')
        elif kind == 'approx':
            if isinstance(x, bool) or not isinstance(x, (int, float)) or abs(Fraction(x) - exp[1]) > exp[2]:
                probs.append(f'{line} = {x!r}, published rule gives about {float(exp[1])!r}')
        elif kind == 'ratio':
            other = vals.get(exp[1])
            if other is None:
                observed = False
            elif abs(Fraction(x) - Fraction(other) * exp[2]) > exp[3]:
                probs.append(f'{line} = {x!r} is not {float(exp[2])} x {exp[1]} = {float(Fraction(other) * exp[2])!r}')
    return probs, observed


# --------------------------------------------------------------------------------------------------
# amounts printed in the bundled templates
# --------------------------------------------------------------------------------------------------
def _amounts(text):
    return [Fraction(m.replace(',', '')) for m in re.findall(r'\$\s?(\d{1,3}(?:,\d{3})+|\d+)', text)]


TEMPLATE_RULES = [
    # (file suffix, regex the field text must match, [(amount id, status, index of the printed amount)])
    ('f1040.pdf', r'^12a?\. Standard deduction', [('std_deduction', 'single', 0), ('std_deduction', 'mfs', 0), ('std_deduction', 'mfj', 1),
                                                  ('std_deduction', 'qss', 1), ('std_deduction', 'hoh', 2)]),
    ('f1040s8.pdf', r'^9\. Enter the amount shown below', [('ctc_phaseout_start', 'mfj', 0), ('ctc_phaseout_start', 'single', 1), ('ctc_phaseout_start', 'hoh', 1)]),
    ('f1040s8.pdf', r'^7\. Multiply line 6 by', [('odc_per_dependent', 'single', 0)]),
    ('f1040s8.pdf', r'^5\. Multiply line 4 by', [('ctc_per_child', 'single', 0)]),
    ('f1040s8.pdf', r'^16b\. Number of qualifying children under 17', [('actc_max_per_child', 'single', 0)]),
    ('f1040s8.pdf', r'^20\. Next\. On line 16b, is the amount', [('actc_line20_comparison', 'single', 0)]),
    ('f1040s8.pdf', r'^33\. Enter the amount shown below', [('ctc2021_repayment_protection_agi', 'mfj', 0), ('ctc2021_repayment_protection_agi', 'hoh', 1),
                                                            ('ctc2021_repayment_protection_agi', 'single', 2)]),
    ('f1040s8.pdf', r'^37\. Multiply line 32 by', [('ctc2021_safe_harbor_per_child', 'single', 0)]),
    ('f1040sa.pdf', r'^5e\. Enter the smaller of line 5d', [('salt_cap', 'single', 0), ('salt_cap', 'mfs', 1)]),
    ('f1040sa.pdf', r'^12\. Other than by cash or check', [('noncash_gift_8283_threshold', 'single', 1)]),
    ('f1040sb.pdf', r'^4\. Subtract line 3 from line 2', [('schedule_b_threshold', 'single', 0)]),
    ('f8889.pdf', r'^3\. If you were under age 55', [('hsa_limit_self', 'single', 0), ('hsa_limit_family', 'single', 1)]),
    ('f8959.pdf', r'^(5|9|15)\. Enter the following amount for your filing status', [('addl_medicare_threshold', 'mfj', 0), ('addl_medicare_threshold', 'mfs', 1),
                                                                                   ('addl_medicare_threshold', 'single', 2), ('addl_medicare_threshold', 'hoh', 2),
                                                                                   ('addl_medicare_threshold', 'qss', 2)]),
]


def template_checks(table, repo=None):
    """compare the amounts printed in the bundled templates with the table; returns dict(checked, disagreements, notes)"""
    out = {'checked': 0, 'disagreements': [], 'notes': []}
    try:
        with warnings.catch_warnings():
            warnings.simplefilter('ignore')
            import pdf_extract
            tpl = pdf_extract.extract_all(repo or REPO)
    except Exception as e:  # noqa: BLE001
        out['notes'].append(f'templates not read: {type(e).__name__}: {e}'[:200])
        return out
    for path, rec in sorted(tpl.items()):
        m = re.search(r'ty(\d{4})/', path)
        if not m:
            continue
        year = int(m.group(1))
        for f in rec.get('fields', []):
            text = f.get('access_text') or f.get('tooltip') or ''
            if not isinstance(text, str) or '$' not in text:
                continue
            for suffix, rx, items in TEMPLATE_RULES:
                if not path.endswith('/' + suffix) or not re.search(rx, text):
                    continue
                nums = _amounts(text)
                for aid, st, idx in items:
                    want = table.get(year, st, aid)
                    if want is None or idx >= len(nums):
                        continue
                    out['checked'] += 1
                    if nums[idx] != want:
                        out['disagreements'].append({'template': path, 'year': year, 'amount': aid, 'status': st,
                                                     'printed': str(nums[idx]), 'table': str(want), 'text': text[:160]})
            # Form 8995: "at or below $X ($Y if married filing separately; $Z if married filing jointly)"
            if path.endswith('/f8995.pdf') and 'Use this form if your taxable income' in text:
                seg = text[text.index('Use this form if your taxable income'):]
                nums = _amounts(seg)
                want = [table.get(year, 'single', 'qbi_threshold'), table.get(year, 'mfs', 'qbi_threshold'), table.get(year, 'mfj', 'qbi_threshold')]
                printed = nums[:3] if len(nums) >= 3 and 'separately' in seg.split('),')[0] else ([nums[0], nums[0], nums[1]] if len(nums) >= 2 else [])
                for st, p, w in zip(('single', 'mfs', 'mfj'), printed, want):
                    if w is None:
                        continue
                    out['checked'] += 1
                    if p != w:
                        out['disagreements'].append({'template': path, 'year': year, 'amount': 'qbi_threshold', 'status': st,
                                                     'printed': str(p), 'table': str(w), 'text': seg[:200]})
    return out


# --------------------------------------------------------------------------------------------------
# entry points
# --------------------------------------------------------------------------------------------------
def run(seed, tier):
    table = Table()
    rng = random.Random(f'{seed}/c08')
    scenarios = build_scenarios(table, rng=rng, extra=(6 if tier == 'thorough' else 0))
    violations, not_observed, samples = [], [], []
    checked = {}
    triples = set()
    for sc in scenarios:
        res = solve(sc.year, sc.forms, sc.fields, sc.fixed)
        probs, observed = check_expect(sc, res)
        key = f'{sc.year}'
        checked[key] = checked.get(key, 0) + 1
        case = {'kind': 'scenario', 'year': sc.year, 'forms': sc.forms, 'fields': sc.fields, 'inputs': dict(res['inputs']),
                'observe': {k: [str(x) for x in v] for k, v in sc.expect.items()}}
        if res['exception'] is not None and not probs and not observed:
            not_observed.append({'year': sc.year, 'status': sc.status, 'amount': sc.amount, 'what': sc.what, 'why': res['exception']})
            continue
        if not observed and not probs:
            not_observed.append({'year': sc.year, 'status': sc.status, 'amount': sc.amount, 'what': sc.what,
                                 'why': 'the observed line got no value and was not reported not-implemented'})
            continue
        triples.add((sc.year, sc.status, sc.amount))
        if probs:
            violations.append({'property': 'C08', 'year': sc.year, 'status': sc.status, 'amount': sc.amount, 'what': sc.what,
                               'problems': probs, 'published': {sc.amount: str(table.get(sc.year, sc.status, sc.amount))},
                               'cite': table.cite(sc.year, sc.amount), 'replay': case})
        elif len(samples) < 6 and rng.random() < 0.02:
            samples.append({'year': sc.year, 'status': sc.status, 'amount': sc.amount, 'what': sc.what,
                            'observed': {k: res['values'].get(k, 'not implemented' if k in res['unimplemented'] else None) for k in sc.expect}})
    tc = template_checks(table)
    checked['scenarios'] = len(scenarios)
    checked['triples_observed'] = len(triples)
    checked['template_amounts'] = tc['checked']
    return {'violations': violations, 'checked': checked, 'samples': samples, 'not_observed': not_observed,
            'template_checks': tc, 'skipped_unverified': [u['id'] for u in table.data.get('unverified', [])]}


def replay(case):
    """re-run one recorded scenario against the working tree and print what is observed"""
    res = solve(case['year'], case['forms'], case.get('fields', []), case['inputs'])
    print('exception:', res['exception'], ' solved:', res['ok'])
    for k in case.get('observe', {}):
        print(' ', k, '=', res['values'].get(k, 'NOT IMPLEMENTED' if k in res['unimplemented'] else 'no value'),
              ' expected', case['observe'][k])
    return res


if __name__ == '__main__':
    import json
    import time
    t0 = time.time()
    r = run(int(os.environ.get('VERIF_SEED', '0')), sys.argv[1] if len(sys.argv) > 1 else 'quick')
    print(json.dumps({'checked': r['checked'], 'violations': len(r['violations']), 'not_observed': len(r['not_observed']),
                      'template': {'checked': r['template_checks']['checked'], 'disagreements': len(r['template_checks']['disagreements'])},
                      'seconds': round(time.time() - t0, 1)}, indent=1))
    for v in r['violations']:
        print('VIOLATION', v['year'], v['status'], v['amount'], '|', v['what'], '|', '; '.join(v['problems']))
    for n in r['not_observed']:
        print('not observed', n['year'], n['status'], n['amount'], '|', n['what'], '|', n['why'])
    for d in r['template_checks']['disagreements']:
        print('TEMPLATE', d)
