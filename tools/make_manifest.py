#!/usr/bin/env python3
"""Writes MANIFEST.json from the table below (keeps the file valid and in one place)."""
import json, os
HERE = os.path.dirname(os.path.abspath(__file__))
VERIF = os.path.dirname(HERE)
PY = 'PYTHONDONTWRITEBYTECODE=1 HABUTAX_VERIF=1 /venv/bin/python -W ignore tools/check.py'

CLAIMED = {
    'C01': dict(
        text='Machine-checked proof (Lean 4) about a statement-by-statement model of Solver.solve, for every catalogue of line programs, every attempt schedule, every prompt (incl. refusal at any point) and every input store: verdict "solved" implies no unimplemented line, no missing input, no blocked line and a value for every demanded line; verdict "failed" implies a non-empty, accurate diagnostic. The model is tied to solver.py by a correspondence stream (real Solver vs model on generated form programs, compared on verdict, values, diagnostics, attempt order, prompts) and the statement is re-checked as an oracle on every real execution explored.',
        note='Trusted: Lean kernel; the model of solver.py in lean/HabuVerif/Core (validated differentially on every run, not proved equal to the Python); line definitions are deterministic strategy trees; catalogue names have the form form.line (CatWF).',
        technique='Lean 4 invariant proof over solver steps + differential correspondence with solver.py',
        ref='7/C01'),
    'C03': dict(
        text='Machine-checked proof (Lean 4): every value in the store returned by the model of Solver.solve equals the outcome of its line strategy on the FINAL stores (invariant vSound, preserved by every step because stores only grow and value outcomes are stable under growth, proved for arbitrary strategy trees). Tied to solver.py by the solve-toy correspondence stream; the statement is re-checked on real solves by re-evaluating every stored line of every explored solution.',
        note='Trusted: Lean kernel; model of solver.py validated differentially; a line observes the solver only through reads of lines/inputs/loaded forms (the translator flags any other construct, e.g. Mapping.get, as unsupported).',
        technique='Lean 4 invariant proof (stability of strategy outcomes) + differential correspondence',
        ref='7/C03'),
}
NOT_YET = {}
ALL = [f'C{i:02d}' for i in range(1, 21)]

manifest = {
    'version': 1,
    'setup_cmd': 'cd lean && lake build 2>&1 | tail -5',
    'hooks': {
        'guard': 'HABUTAX_VERIF',
        'enable': 'set HABUTAX_VERIF=1 in the environment before importing habutax (the checks do this themselves); a harness then installs habutax.solver._verif_schedule',
        'baseline_off_cmd': 'cd /repo && env -u HABUTAX_VERIF /venv/bin/python -m pytest -ra -q -p no:cacheprovider --timeout=900 --continue-on-collection-errors',
        'source_commits': ['7c77b59'],
        'add_only': True,
    },
    'engines': [
        {'name': 'lean-proofs', 'path': 'lean', 'serves_properties': sorted(CLAIMED), 'kind_free_text': 'Lean 4 model + theorems (lake project, no Mathlib in model files)'},
        {'name': 'correspondence-harness', 'path': 'tools/harness', 'serves_properties': sorted(CLAIMED), 'kind_free_text': 'differential harness: real habutax in-process vs compiled Lean driver over a line protocol; statement oracles and failing-input search'},
    ],
    'checks': [],
    'notes': 'See DESIGN.md. Known findings and fixed defects: known_findings.json.',
    'not_applicable': [],
}
for pid in ALL:
    if pid in CLAIMED:
        c = CLAIMED[pid]
        manifest['checks'].append({
            'property_id': pid,
            'quick_cmd': f'{PY} {pid} quick',
            'thorough_cmd': f'{PY} {pid} thorough',
            'evidence_file': f'evidence/{pid}.json',
            'replay_cmd_template': f'{PY} {pid} --replay {{path}}',
            'engine': 'lean-proofs',
            'level_claimed': {'category': c.get('category', 'proof'), 'text': c['text'], 'design_ref': c['ref']},
            'level_note': c['note'],
            'technique': c['technique'],
        })
    else:
        manifest['not_applicable'].append({'property_id': pid, 'reason': NOT_YET.get(pid, 'check under construction in this session; not claimed until its theorems and correspondence are in place')})
json.dump(manifest, open(os.path.join(VERIF, 'MANIFEST.json'), 'w'), indent=1)
print('wrote MANIFEST.json with', len(manifest['checks']), 'checks')
