#!/usr/bin/env python3
"""Writes MANIFEST.json from the table below (keeps the file valid and in one place)."""
import json, os
HERE = os.path.dirname(os.path.abspath(__file__))
VERIF = os.path.dirname(HERE)
PY = 'PYTHONDONTWRITEBYTECODE=1 HABUTAX_VERIF=1 /venv/bin/python -W ignore tools/check.py'

CLAIMED = {
    'C01': dict(
        text='Machine-checked proof (Lean 4) about a statement-by-statement model of Solver.solve, for every catalogue of line programs, every attempt schedule, every prompt (incl. refusal at any point) and every input store: verdict "solved" implies no unimplemented line, no missing input, no blocked line and a value for every demanded line; verdict "failed" implies a non-empty, accurate diagnostic. The model is tied to solver.py by a correspondence stream (real Solver vs model on generated form programs, compared on verdict, values, diagnostics, attempt order, prompts) and the statement is re-checked as an oracle on every real execution explored.',
        note='Trusted: Lean kernel; the model of solver.py in lean/HabuVerif/Core (validated differentially on every run, not proved equal to the Python); line definitions are deterministic strategy trees; catalogue names have the form form.line (CatWF).',
        technique='Lean 4 invariant proof over solver steps + differential correspondence with solver.py',
        ref='7/C01'),
    'C03': dict(
        text='Machine-checked proof (Lean 4): every value in the store returned by the model of Solver.solve equals the outcome of its line strategy on the FINAL stores (invariant vSound, preserved by every step because stores only grow and value outcomes are stable under growth, proved for arbitrary strategy trees). Tied to solver.py by the solve-toy correspondence stream; the statement is re-checked on real solves by re-evaluating every stored line of every explored solution.',
        note='Trusted: Lean kernel; model of solver.py validated differentially; a line observes the solver only through reads of lines/inputs/loaded forms (the translator flags any other construct, e.g. Mapping.get, as unsupported).',
        technique='Lean 4 invariant proof (stability of strategy outcomes) + differential correspondence',
        ref='7/C03'),
}
CLAIMED['C04'] = dict(
    text='Machine-checked proof (Lean 4): a solved return of the solver model contains every requested form, every required line of every participating form and everything its lines read, with the forms those lines belong to (solved_contains_closure); and the final state lies below EVERY state that contains the request and is closed under attempting demanded lines / answering needed inputs (solution_is_least) — so it is exactly the demand closure; input-only loading adds no line. For arbitrary catalogues, schedules, inputs. Tied to solver.py by the solve-toy correspondence; the statement is re-checked on real solves by recomputing the closure with read-recording accessors.',
    note='Trusted: Lean kernel; solver model validated differentially; lines are strategy trees; prompt absent or total (with a partially refusing prompt only the completeness half applies).',
    technique='Lean 4 least-closed-state (confluence) proof + differential correspondence', ref='7/C04')
CLAIMED['C05'] = dict(
    text='Machine-checked proof (Lean 4) of order independence on the statement-by-statement solver model: for every catalogue and input file, any two runs under ANY two attempt schedules (arbitrary permutations at the four ordering sites of solver.py) and any order/multiplicity of the requested forms, with no prompt or a total prompt, that both return, return the same verdict, values, demanded lines, forms, final inputs and diagnostics (closed-state argument: every reachable state lies below every closed final state). The real solver is driven through other schedules by the guarded hook; the model is validated under the same schedules, and the statement is checked on real runs under random schedules, reversed requests, re-laid-out input files and random file/prompt splits.',
    note='Trusted: Lean kernel; solver model validated differentially under hooked schedules; NOT proved: agreement of the abort kind when every schedule aborts, and independence when a line observes the set of loaded forms through Field.form(name) (non-monotone; known finding); file-layout independence is proved for written files (Ini model) and tested for hand-written layouts.',
    technique='Lean 4 confluence proof over all schedules + hook-driven differential correspondence', ref='7/C05')
CLAIMED['C19'] = dict(
    text='Machine-checked proof (Lean 4): for every list of (field name, text) pairs of arbitrary characters except a raw CR, decoding the FDF text produced by the model of _create_fdf under the PDF literal-string syntax returns exactly those pairs (induction on the characters; negative control: without escaping it is false); the forms filled are exactly the sections needing filing, once each, ordered by (jurisdiction, sequence number), stably; length-limited and choice fields never truncate or substitute. The model is compared byte for byte with the real _create_fdf / fill on generated inputs; the statement is checked by filling solved real returns (adversarial text in every string input) with pdftk replaced by a recorder and decoding the FDFs with an independent decoder.',
    note='Trusted: Lean kernel; Ini/Pdf models validated differentially; pdftk reads FDF strings per ISO 32000 7.3.4.2; text is printable ASCII.',
    technique='Lean 4 round-trip proof by induction + differential correspondence', ref='7/C19')
CLAIMED['C11'] = dict(
    text='Machine-checked proof (Lean 4), for ALL strings, all Unicode character tables and all float semantics of the stated shape: whatever InputStore[...] returns passed the input class own validation, equals its value(), has the declared dynamic type and (numeric) is finite; rejected text is reported invalid; missing iff not supplied; no conversion error escapes; exact acceptance sets of Boolean / SSN / enumeration / regex inputs (verified derivative matcher for the two shipped regexes). The model of the seven input classes and the store gate is compared with the real classes on adversarial strings (12k quick / 1.1M thorough incl. every code point) and the statement is evaluated on the real InputStore by file and by prompt route.',
    note='Trusted: Lean kernel; model of inputs.py validated differentially; character classes from the running interpreter (regenerated each run).',
    technique='Lean 4 proofs over all strings (per-class characterisations) + differential correspondence', ref='7/C11')
CLAIMED['C12'] = dict(
    text='Machine-checked proof (Lean 4): the model of TypedField.value / FloatField.value lets through only values of exactly the declared type (bool is not int, int is not float, subclasses rejected), maps None / blank text to the type empty value, rejects everything else with TypeError, and rounds money after the type check (rounded values are fixed points of rounding, given idempotence of round, proved for the F64 model). With C03 (nothing is stored on error; every stored value is the wrapper output) this gives the property for every solution. Compared with the real Field classes on stub definitions returning every kind of Python value; all values of real returns are audited.',
    note='Trusted: Lean kernel; model of fields.py validated differentially; idempotence of round(x, n) on binary64 proved in Proofs/F64Lemmas under its stated range.',
    technique='Lean 4 case analysis on the typed-field wrapper + differential correspondence', ref='7/C12')
CLAIMED['C17'] = dict(
    text='Reflection proof: the catalogue of every year (classes, instances, declared year, names, metadata, input/line names, status-keyed threshold tables) is REGENERATED from the working tree on every run and every consistency obligation (184) is closed by decide +kernel in Lean over Nat-coded sorted tables, with soundness theorems giving each check its meaning (e.g. thresholdsTotal_sound: for each of the five statuses exactly one key matches and Form.threshold first-match returns it). list-forms / list-form-inputs output is parsed back with the real configparser for every form and instance.',
    note='Trusted: Lean kernel; tools/catalogue.py introspection and the Lean text generator (cross-checked against an independent oracle over the real objects on every run). 2021/2022 hard-code status amounts in code (no tables), covered via the translated programs instead.',
    technique='regenerated tables + decide +kernel reflection with proved-sound checkers', ref='7/C17')
CLAIMED['C18'] = dict(
    text='Reflection proof: all ~1,800 PDF mappings and the field trees of the 39 bundled templates (names, kinds, /MaxLen, on-states, accessibility text with parsed line labels) are REGENERATED on every run and every obligation (507: targets exist, no field driven twice, kinds, length limits, export values, choice lists, labels, mapped lines exist, fileable forms complete, exclusive groups at most one on for every value of the driving line) is closed by decide +kernel with proved-sound checkers. The same checks are evaluated independently on the real objects.',
    note='Trusted: Lean kernel; own PDF/XFA extractor (two routes cross-checked: AcroForm chain vs XFA tree, plus the pdftk listings in the form sources) and label grammar; two documented template-text errata excluded from the label check; one recorded naming finding (Schedule B 7b).',
    technique='regenerated tables + decide +kernel reflection with proved-sound checkers', ref='7/C18')
CLAIMED['C06'] = dict(
    text='Machine-checked proof (Lean 4) that the dependency bookkeeping refines a multiset of (dependency, waiter) pairs for EVERY history of add_unmet / meet / next() (generator steps interleaved with registrations): a waiter is released only for a met dependency, every registered wait on a met dependency is released exactly once by a drain, none is lost or released twice, the generator never crashes and a drain ends within waiters+1 steps; plus: a prompt happens only for an absent input and an answered input stays present (at most one answered prompt per input), blocked lines are reported. PARTIAL: termination of the outer loop and the per-line attempt bound are not proved — they are explored on the real solver (generated cyclic / self-referential / dangling programs, refusing prompts) with counters and a watchdog.',
    note='Trusted: Lean kernel; tracker and solver models validated differentially (tracker stream incl. bounded-exhaustive histories). Termination and attempt bound: exploration only.',
    technique='Lean 4 refinement proof over all tracker histories + exploration of work bounds on the real solver', ref='7/C06')
CLAIMED['C07'] = dict(
    text='Reflection + general proof: TAX_TABLE and TAX_WORKSHEET_VALUES of the three years are REGENERATED from the working tree (decimal literals exact) and checked in the Lean kernel (decide +kernel) against independently entered bracket schedules: rows contiguous from 0 to 100000, every cell = tax at the row midpoint rounded half-up, columns non-decreasing, each worksheet row identical to the bracket formula as a linear function on its interval, junctions, QSS = MFJ. General theorems lift this to EVERY rational income in [0, 1e12]: defined, equal to the schedule, non-decreasing, marginal rate bound. The real figure_tax is compared with an exact-Fraction copy of the schedule on every row, every bracket edge +- a cent and sampled incomes (thorough: every whole dollar).',
    note='Trusted: Lean kernel; Spec/Brackets.lean (Rev. Proc. values); tools/gen_c07.py (probes the real figure_tax against its reading of the code). Theorems are over the exact-rational reading; float evaluation covered by the oracle and the F64 model.',
    technique='regenerated tables + decide +kernel reflection, lifted by general Lean theorems', ref='7/C07')
CLAIMED['C13'] = dict(
    text='Machine-checked proof (Lean 4) on the solver model: a prompt is issued only for an input that is declared, absent, and read by every line quoted as needing it (prompt_is_demand_exact); the final inputs are exactly the file plus answers to inputs the file lacked; a re-run (any schedule) on the written-back inputs acquires no new input and yields the identical verdict, values, lines, forms and diagnostics (rerun_silent_and_identical, via the least-closed-state argument across two different files); inputs an evaluation does not read cannot influence it. Write-back/read-back of the file itself is Ini/Cli round-trip lemmas. Checked on real runs: prompts vs recorded reads, real write-back + re-solve incl. resumed sessions, dropping never-read inputs.',
    note='Trusted: Lean kernel; solver and Ini models validated differentially; prompt absent or total for the re-run theorem.',
    technique='Lean 4 invariant + confluence proof across two input files + differential correspondence', ref='7/C13')
CLAIMED['C14'] = dict(
    text='Machine-checked proof (Lean 4) for the file layer: for every list of (form, line, text) triples with distinct keys and clean texts, the model of to_config + solution[habutax] + write parses back, the tax year reads back as the integer written, every triple is found under its (form, line) with its text and nothing else is found (solution_reads_back). Value layer: booleans / integers / text / enumerations read back exactly (proved); money reads back exactly given float(\'%.nf\' % x) == x on rounded x, which is a stated hypothesis (PARTIAL) validated bit-exactly by the f64 and fields streams. Every real solution explored is written and read back through the same year line definitions as the PDF filler does.',
    note='Trusted: Lean kernel; Ini/Cli/Fields/F64 models validated differentially (cli, fields, f64 streams). Partial: decimal print/parse round trip of binary64 is a hypothesis, not a theorem.',
    technique='Lean 4 round-trip proof over the INI model + differential correspondence (partial for float text)', ref='7/C14')
CLAIMED['C20'] = dict(
    text='Machine-checked proof (Lean 4) over the INI/CLI model: for every initial file, every sequence of answers to absent inputs and EVERY prefix of it (interruption at any prompt index), the store the finally-block writes keeps everything the file provided, holds every answer given so far as typed, parses back (clean answers) to exactly file + answers-so-far, and after re-reading every answered input is provided (a re-run does not ask again). The model of the written file is compared byte for byte with the real `habutax solve --prompt-missing --writeback-input`, run in-process and interrupted at every prompt index by Ctrl-C, EOF, an exception, an unsupported form and failing lines, followed by parse-back and re-run checks.',
    note='Trusted: Lean kernel; Ini/Cli models validated differentially. Not modelled: the process being killed during the write itself (file opened with truncation) - outside the listed interruption kinds.',
    technique='Lean 4 induction over the answer script (all prefixes) + differential correspondence with injected interruptions', ref='7/C20')
CLAIMED['C15'] = dict(
    text='Machine-checked proof (Lean 4), in EXACT INTEGER CENTS through a proved bridge between binary64 arithmetic and cents (F64Cents: round(a+-b, 2) of cent-valued doubles is the double of the exact cent sum, comparisons agree, for amounts up to 1e13 cents): the translated programs of Form 1040 lines 34, 35a, 36, 37 of each year are checked by the kernel (rfl on the REGENERATED terms) to have the shapes whose meaning is proved once; hence in every state the solver returns, stored overpayment minus amount owed = payments minus tax, both non-negative, at most one positive, and refund + applied-to-next-year = overpayment with both non-negative, for ANY requested amount. PARTIAL: the NC balance and non-negativity of the remaining lines are checked on explored solved returns only (no verified sign analysis yet).',
    note='Trusted: Lean kernel; translator and DSL evaluator (validated by the real stream: real solver vs model on shipped forms, bit-exact values); F64 model (bit-exact stream incl. cents family). CatWF of the translated catalogue is proved (Dsl.mkCat_wf).',
    technique='Lean 4 proof over regenerated line programs + binary64-to-cents bridge; exploration for the uncovered lines', ref='7/C15')
CLAIMED['C16'] = dict(
    text='Machine-checked proof (Lean 4) in exact cents over the REGENERATED programs of Form 1040 (shapes checked by rfl each run): line 25a evaluates, for any number k <= 64 of W-2 copies, to the double of the SUM of the copies\' box-2 cents (symbolic evaluation of the comprehension sum([v[f"w-2:{n}.box_2"] for n in range(k)]) through the DSL evaluator, CPython\'s compensated float sum and the cents bridge), hence depends only on the multiset of amounts: renumbering the copies leaves it unchanged (renumbering_keeps_withholding); and in every state the solver returns, refund minus owed = 25a + 25b + 25c + 26 + 32 - 24 in cents (solved_net_is_payments_minus_tax), so each extra cent withheld moves it by exactly one cent when the other five lines keep their values. PARTIAL: independence of those five lines from W-2 box 2, renumbering invariance of the other per-payer totals and listing lines, and monotonicity of total tax in wages/deductions are decided by a metamorphic oracle on real solved returns (all permutations of 2-3 copies, sampled increments), not by a theorem; the tax function itself is proved non-decreasing in C07.',
    note='Trusted: Lean kernel; translator + DSL evaluator + F64 model (validated by the real and f64 streams on every run). The oracle compares only pairs in which both returns solve, as the property says.',
    technique='Lean 4 symbolic evaluation of regenerated line programs + binary64-to-cents bridge; metamorphic exploration for the relations not proved', ref='7/C16')
CLAIMED['C02'] = dict(
    text='Reflection + meaning proof: the instruction table (476 instructions: template accessibility text of the bundled PDFs parsed by a fixed pattern set, plus 77 cited transcriptions of worksheets and NC forms) and the translated line programs are REGENERATED from the working tree on every run; for each (line, instruction) the Lean kernel checks (decide +kernel) that the program has the canonical arithmetic shape of the instruction up to operand order, comparison orientation and the ways of writing a floor at zero (matchesInstr), or that the code is outside the arithmetic fragment (covered = false, listed). For the certified fragment (carry/add/sub/floor/cap/smaller/larger/cond; 255 of 476) Spec.line_matches_instruction proves what a match MEANS: for all stores with cent-valued operands up to 1e13 cents the line evaluates (DSL evaluator + FloatField wrapper + binary64 arithmetic) to the double of exactly the cents the instruction yields; lifted to every state the solver returns (solved_line_is_what_the_form_says, via C03). PARTIAL: sum-comprehensions, rate multiplications, guards/declines and NC whole-dollar lines have the syntactic match only; every instruction is additionally applied in exact rational arithmetic to the values of real solutions (14 scenario kinds x 3 years).',
    note='Trusted: Lean kernel; the instruction table as entered (parser patterns + transcriptions with citations); translator + DSL evaluator + F64 model (validated by the real/dsl/f64 streams). 175 template sentences are unparsed and listed with reasons; 34 lines are uncovered by the matcher and decided by the oracle only.',
    technique='regenerated instruction table x regenerated programs: decide +kernel shape matching with a proved-sound meaning for the certified fragment; exact-arithmetic oracle on real solutions', ref='7/C02')
CLAIMED['C08'] = dict(
    text='Reflection proof against an independent table: tools/c08_statutory.json (68 statutory amounts x 3 years x 5 statuses, each with a citation: Rev. Proc. 2020-45/2021-45/2022-38, form instructions, NC D-401), mirrored as Spec/Statutory.lean, is compared IN THE LEAN KERNEL with the REGENERATED programs: for every (year, status, amount, site) - threshold-table entries through the model of Form.threshold, echo lines, gates (limit, limit +- a cent/dollar), coefficient lines, the NC child-deduction step table - the real translated line program is evaluated on a tiny typed store at the published bounds (721 obligations, 1,100 evaluations, decide +kernel, batched), with run_agrees proving that such an evaluation speaks for every solver state agreeing on the names read. A site survey over the IR classifies every numeric literal >= 100 and every rate as checked / ignored with reason / uncovered. Independently, one real solve per triple and bound observes the same behaviour end to end, and amounts printed in the bundled templates are compared with the table.',
    note='Trusted: Lean kernel; the table as entered (5 amounts unverified and skipped, listed); site survey + reviewed site map; translator/evaluator (validated by the streams; every kernel evaluation is also compared with the real line function while generating). Known finding: the bundled ty2022/f8995.pdf is the 2021 revision (prints 2021 QBI thresholds).',
    technique='independent published-amounts table x regenerated programs: decide +kernel evaluation at the bounds + real-solve oracle per triple', ref='7/C08')
NOT_YET = {}
ALL = [f'C{i:02d}' for i in range(1, 21)]

manifest = {
    'version': 1,
    'setup_cmd': 'PYTHONDONTWRITEBYTECODE=1 HABUTAX_VERIF=1 /venv/bin/python -W ignore tools/harness/generate.py && cd lean && lake build 2>&1 | tail -5',
    'hooks': {
        'guard': 'HABUTAX_VERIF',
        'enable': 'set HABUTAX_VERIF=1 in the environment before importing habutax (the checks do this themselves); a harness then installs habutax.solver._verif_schedule',
        'baseline_off_cmd': 'cd /repo && env -u HABUTAX_VERIF /venv/bin/python -m pytest -ra -q -p no:cacheprovider --timeout=900 --continue-on-collection-errors',
        'source_commits': ['7c77b59'],
        'add_only': True,
    },
    'engines': [
        {'name': 'lean-proofs', 'path': 'lean', 'serves_properties': sorted(CLAIMED), 'kind_free_text': 'Lean 4 model + theorems (lake project, no Mathlib in model files)'},
        {'name': 'correspondence-harness', 'path': 'tools/harness', 'serves_properties': sorted(CLAIMED), 'kind_free_text': 'differential harness: real habutax in-process vs compiled Lean driver over a line protocol; statement oracles and failing-input search'},
    ],
    'checks': [],
    'notes': 'See DESIGN.md. Known findings and fixed defects: known_findings.json.',
    'not_applicable': [],
}
for pid in ALL:
    if pid in CLAIMED:
        c = CLAIMED[pid]
        manifest['checks'].append({
            'property_id': pid,
            'quick_cmd': f'{PY} {pid} quick',
            'thorough_cmd': f'{PY} {pid} thorough',
            'evidence_file': f'evidence/{pid}.json',
            'replay_cmd_template': f'{PY} {pid} --replay {{path}}',
            'engine': 'lean-proofs',
            'level_claimed': {'category': c.get('category', 'proof'), 'text': c['text'], 'design_ref': c['ref']},
            'level_note': c['note'],
            'technique': c['technique'],
        })
    else:
        manifest['not_applicable'].append({'property_id': pid, 'reason': NOT_YET.get(pid, 'check under construction in this session; not claimed until its theorems and correspondence are in place')})
json.dump(manifest, open(os.path.join(VERIF, 'MANIFEST.json'), 'w'), indent=1)
print('wrote MANIFEST.json with', len(manifest['checks']), 'checks')
