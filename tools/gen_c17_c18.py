#!/usr/bin/env python3
"""Generate the Lean reflection obligations for C17 (catalogue consistency, status look-ups total) and
C18 (PDF mappings agree with the bundled templates).

    python gen_c17_c18.py [--catalogue cat.json] [--templates tpl.json] [--out-dir DIR]

Reads the catalogue mirror (tools/catalogue.py) and the template field trees (tools/pdf_extract.py) -- when a
JSON file is not given it is produced in-process from $HABUTAX_REPO -- and EMITS, under
<out-dir> (default /verif/lean/HabuVerif/Gen):

    C17_<year>.lean   C18_<year>.lean   C17C18.lean (imports the six)
    c17_c18_failed.json        obligations that are FALSE on this tree, with witnesses
    c17_c18_obligations.json   every emitted theorem with its status and the counts behind it

Every obligation is `theorem <id> : <check> <data> = true := by decide +kernel` over Nat-coded, sorted,
chunked tables (checks: HabuVerif/Refl/C17C18Checks.lean, meaning: HabuVerif/Proofs/C17C18ChecksLemmas.lean).
The same check is first evaluated here in Python (a line-by-line mirror of the Lean definition).  When it fails,

    -- FAILED-OBLIGATION <id> <witness>
    theorem <id> : <check> <data> = false := by decide +kernel          (the proved negation)
    theorem <id>_rest : <check> (drop <failing rows> <data>) = true := by decide +kernel

are emitted instead, so the other obligations -- and the other rows of the same table -- keep being checked.
If the Python mirror and the Lean definition ever disagree the build of the generated module breaks (in either
direction), which is the intended alarm.

Only files written by this generator are removed from <out-dir> before writing.
Output is deterministic: no timestamps, sorted tables, fixed chunk size.
"""
import argparse
import json
import os
import re
import sys

HERE = os.path.dirname(os.path.abspath(__file__))
if HERE not in sys.path:
    sys.path.insert(0, HERE)

from pdf_extract import line_label_of_name  # noqa: E402

CHUNK = 200
YEARS = ('2021', '2022', '2023')
RESERVED_FORM_NAMES = ('habutax', 'DEFAULT')

TFIELD_KIND = {'Tx': 0, 'Btn': 1, 'Ch': 2}
MAPPING_KIND = {'TextPDFField': 0, 'ButtonPDFField': 1, 'ChoicePDFField': 2, 'OptionlessButtonPDFField': 3}


# --------------------------------------------------------------------------------------------------
# coding and the Python mirror of Refl/SortedTables.lean
# --------------------------------------------------------------------------------------------------
def encode(s):
    """0x01 followed by the UTF-8 bytes, big-endian  (== Refl.encode)"""
    return int.from_bytes(b'\x01' + s.encode('utf-8'), 'big')


def bytes_of(code):
    raw = code.to_bytes((code.bit_length() + 7) // 8, 'big')
    return list(raw[1:])


def name_ok(code):
    if code < 256:
        return False
    return all(b < 128 and not (65 <= b <= 90) and b != 46 for b in bytes_of(code))


def strict_sorted(l):
    return all(l[i] < l[i + 1] for i in range(len(l) - 1))


def subset_sorted(a, b):
    i = j = 0
    while True:
        if i >= len(a):
            return True
        if j >= len(b):
            return False
        if a[i] == b[j]:
            i += 1
            j += 1
        elif b[j] < a[i]:
            j += 1
        else:
            return False


def lookup_sorted(t, key):
    for k, v in t:
        if k == key:
            return v
        if key < k:
            return None
    return None


def join_all(p, left, right):
    """mirror of Refl.joinAll / joinGo: left = [(key, row)], right = [(key, row)] (merge, conservative)"""
    i = 0
    for bk, b in right:
        while True:
            if i >= len(left):
                return True
            xk, x = left[i]
            if xk == bk:
                if not p(x, b):
                    return False
                i += 1
                break          # consumes the right row too
            elif bk < xk:
                break          # next right row
            else:
                return False
    return i >= len(left)


def nodup(l):
    return all(l[i] not in l[i + 1:] for i in range(len(l)))


def at_most_one(row):
    return sum(1 for b in row if b) <= 1


# --------------------------------------------------------------------------------------------------
# Lean text helpers
# --------------------------------------------------------------------------------------------------
def lean_ident(s):
    out = re.sub(r'[^A-Za-z0-9]', '_', s)
    if not out or out[0].isdigit():
        out = 'f' + out
    return out


def comment_safe(s):
    s = str(s).replace('\n', ' ').replace('\r', ' ')
    s = s.replace('-/', '- /').replace('/-', '/ -')
    return s.encode('ascii', 'backslashreplace').decode('ascii')


def lean_opt(v):
    return 'none' if v is None else f'some {v}'


def lean_bool(b):
    return 'true' if b else 'false'


def lean_natlist(l):
    return '[' + ', '.join(str(x) for x in l) + ']'


class Module(object):
    def __init__(self, name, imports, doc):
        self.name = name
        self.lines = []
        for i in imports:
            self.lines.append(f'import {i}')
        self.lines.append('/-!')
        self.lines.extend(doc)
        self.lines.append('-/')
        self.lines.append('set_option autoImplicit false')
        self.lines.append('set_option maxRecDepth 100000')
        self.lines.append('')
        self.lines.append('namespace HabuVerif.Gen')
        self.lines.append('open HabuVerif.Refl')
        self.lines.append('')

    def add(self, *ls):
        self.lines.extend(ls)

    def table(self, ident, typ, rows, doc=None):
        """rows: list of (lean term, comment).  Emits chunked defs and the concatenation."""
        if doc:
            self.add(f'/-- {comment_safe(doc)} -/')
        if len(rows) <= CHUNK:
            self._chunk(ident, typ, rows)
        else:
            names = []
            for n, start in enumerate(range(0, len(rows), CHUNK)):
                cn = f'{ident}_c{n}'
                names.append(cn)
                self._chunk(cn, typ, rows[start:start + CHUNK])
            self.add(f'def {ident} : {typ} := ' + ' ++ '.join(names))
        self.add('')

    def _chunk(self, ident, typ, rows):
        if not rows:
            self.add(f'def {ident} : {typ} := []')
            return
        self.add(f'def {ident} : {typ} := [')
        for i, (term, com) in enumerate(rows):
            sep = ',' if i + 1 < len(rows) else ''
            c = f'  -- {comment_safe(com)}' if com else ''
            self.add(f'  {term}{sep}{c}')
        self.add(']')

    def text(self):
        return '\n'.join(self.lines + ['', 'end HabuVerif.Gen', ''])


class Registry(object):
    def __init__(self):
        self.obligations = []
        self.failed = []

    def emit(self, mod, oid, prop, year, form, check, expr_fn, data_ok, witnesses, rest_expr=None, rest_ok=None,
             counts=None):
        """expr_fn: Lean Boolean expression (string).  data_ok: Python's verdict.
        witnesses: list of dicts (only when not data_ok).  rest_expr: expression with failing rows dropped."""
        rec = {'id': oid, 'property': prop, 'year': int(year), 'form': form, 'check': check,
               'holds': bool(data_ok), 'module': mod.name, 'counts': counts or {}}
        if data_ok:
            mod.add(f'theorem {oid} : {expr_fn} = true := by decide +kernel')
        else:
            for w in witnesses:
                mod.add(f'-- FAILED-OBLIGATION {oid} {comment_safe(json.dumps(w, sort_keys=True))}')
            mod.add(f'theorem {oid} : {expr_fn} = false := by decide +kernel')
            rec['witnesses'] = witnesses
            if rest_expr is not None:
                if rest_ok is None or rest_ok:
                    mod.add(f'theorem {oid}_rest : {rest_expr} = true := by decide +kernel')
                    rec['rest'] = oid + '_rest'
                else:  # pragma: no cover  (dropping the failing rows must make it pass)
                    raise AssertionError(f'{oid}: rest still fails')
            self.failed.append({'id': oid, 'property': prop, 'year': int(year), 'form': form, 'check': check,
                                'witnesses': witnesses})
        mod.add('')
        self.obligations.append(rec)


# --------------------------------------------------------------------------------------------------
# C17
# --------------------------------------------------------------------------------------------------
def status_member_code(enum_id, member):
    return encode(f'{enum_id}.{member}')


def form_is_fileable(frec):
    return any(i.get('needs_filing') in ('true', 'depends') for i in frec['instances'] if i['ok'])


def gen_c17(year, yrec, templates, reg):
    Y = year
    mod = Module(f'HabuVerif.Gen.C17_{Y}', ['HabuVerif.Refl.C17C18Checks'], [
        f'# C17 obligations for tax year {Y}  (GENERATED by tools/gen_c17_c18.py -- do not edit)',
        '',
        'Catalogue facts, input / line names of every form instance, the year\'s filing statuses and the',
        'status-keyed threshold tables, all read from the live Python objects; names are Nat codes.',
    ])
    forms = yrec['forms']
    # ---- catalogue facts --------------------------------------------------------------------
    rows = []
    facts = []
    for f in forms:
        fname = f['form_name'] if isinstance(f['form_name'], str) else repr(f['form_name'])
        code = encode(fname)
        insts = f['instances']
        inst_ok = all(i['ok'] for i in insts) and len(insts) > 0
        fileable = form_is_fileable(f)
        ok_insts = [i for i in insts if i['ok']]
        has_tpl = bool(ok_insts) and all(bool(i['pdf_file']) and i.get('pdf_file_exists') and
                                         i['pdf_file'] in templates and not templates[i['pdf_file']].get('error')
                                         for i in ok_insts)
        nmap = min([len(i['pdf_fields']) for i in ok_insts], default=0)
        fact = {
            'name': fname, 'code': code, 'class': f['class'],
            'taxYear': f['tax_year'] if isinstance(f['tax_year'], int) and not isinstance(f['tax_year'], bool) and f['tax_year'] >= 0 else None,
            'hasDescription': isinstance(f['description'], str) and len(f['description'].strip()) > 0,
            'hasLongDescription': isinstance(f['long_description'], str) and len(f['long_description'].strip()) > 0,
            'hasJurisdiction': f['jurisdiction'] is not None,
            'instancesOk': inst_ok, 'fileable': fileable,
            'hasSeqNo': isinstance(f['sequence_no'], (int, float)) and not isinstance(f['sequence_no'], bool),
            'hasTemplate': has_tpl, 'nMappings': nmap,
            'raw_tax_year': f['tax_year'], 'errors': [i['error'] for i in insts if not i['ok']],
        }
        facts.append(fact)
        term = ('{ name := %d, taxYear := %s, hasDescription := %s, hasLongDescription := %s, hasJurisdiction := %s, '
                'instancesOk := %s, fileable := %s, hasSeqNo := %s, hasTemplate := %s, nMappings := %d }' % (
                    code, lean_opt(fact['taxYear']), lean_bool(fact['hasDescription']),
                    lean_bool(fact['hasLongDescription']), lean_bool(fact['hasJurisdiction']),
                    lean_bool(inst_ok), lean_bool(fileable), lean_bool(fact['hasSeqNo']), lean_bool(has_tpl), nmap))
        rows.append((term, f"{f['class']} \"{fname}\""))
    cat = f'catalogue_{Y}'
    mod.table(cat, 'Catalogue', rows, f'class attributes and construction results of available_forms[{Y}], source order')

    def cat_check(oid, check, lean_fn, pred, wit, drop=True):
        bad = [x for x in facts if not pred(x)]
        ok = not bad
        wits = [dict(wit(x), form=x['name'], cls=x['class']) for x in bad]
        badcodes = sorted({x['code'] for x in bad})
        rest = f'{lean_fn} (dropForms {lean_natlist(badcodes)} {cat})' if drop else None
        rest_ok = all(pred(x) for x in facts if x['code'] not in badcodes)
        reg.emit(mod, oid, 'C17', Y, None, check, f'{lean_fn} {cat}', ok, wits, rest, rest_ok,
                 counts={'forms': len(facts)})

    cat_check(f'c17_instantiate_{Y}', 'every class instantiates for each allowed instance', 'allInstantiate',
              lambda x: x['instancesOk'], lambda x: {'what': 'construction failed', 'errors': x['errors']})
    cat_check(f'c17_tax_year_{Y}', 'tax_year equals the year of the directory', f'yearsAgree {Y}',
              lambda x: x['taxYear'] == int(Y),
              lambda x: {'what': 'tax_year differs from the year directory', 'expected': int(Y), 'found': x['raw_tax_year']})
    # uniqueness is a property of the whole list
    names = [x['code'] for x in facts]
    dups = sorted({x['name'] for x in facts if names.count(x['code']) > 1})
    dupcodes = sorted({encode(n) for n in dups})
    reg.emit(mod, f'c17_names_unique_{Y}', 'C17', Y, None, 'form names are unique', f'namesUnique {cat}',
             nodup(names), [{'what': 'duplicate form_name', 'form': n} for n in dups],
             f'namesUnique (dropForms {lean_natlist(dupcodes)} {cat})', True, counts={'forms': len(facts)})
    res = [encode(r) for r in RESERVED_FORM_NAMES]
    mod.add(f'/-- section names the solution file uses for itself: {", ".join(RESERVED_FORM_NAMES)} -/')
    mod.add(f'def reservedNames_{Y} : List Nat := {lean_natlist(res)}')
    mod.add('')
    cat_check(f'c17_names_not_reserved_{Y}', 'no form is called habutax or DEFAULT', f'namesNotReserved reservedNames_{Y}',
              lambda x: x['code'] not in res, lambda x: {'what': 'reserved form name'})
    cat_check(f'c17_metadata_{Y}', 'description, long description and jurisdiction present', 'metadataPresent',
              lambda x: x['hasDescription'] and x['hasLongDescription'] and x['hasJurisdiction'],
              lambda x: {'what': 'metadata missing', 'description': x['hasDescription'],
                         'long_description': x['hasLongDescription'], 'jurisdiction': x['hasJurisdiction']})
    cat_check(f'c17_fileable_seqno_{Y}', 'every fileable form has a sequence number', 'fileableHaveSeqNo',
              lambda x: (not x['fileable']) or x['hasSeqNo'], lambda x: {'what': 'fileable form without sequence_no'})

    # ---- input / line names per instance ---------------------------------------------------
    used = {}
    n_inputs = n_lines = 0
    for f in forms:
        for i in f['instances']:
            if not i['ok']:
                continue
            fid = lean_ident(i['name'])
            k = used.get(fid, 0)
            used[fid] = k + 1
            if k:
                fid = f'{fid}_{k}'
            i['_fid'] = fid
            for kind, key, label in (('inputs', 'inputs', 'input'), ('lines', 'fields', 'line')):
                nm = sorted([x['base'] for x in i[key]], key=encode)
                codes = [encode(n) for n in nm]
                if kind == 'inputs':
                    n_inputs += len(nm)
                else:
                    n_lines += len(nm)
                ident = f'{kind}_{Y}_{fid}'
                mod.table(ident, 'List Nat', [(str(c), n) for c, n in zip(codes, nm)],
                          f'{label} names of {i["name"]} sorted by code, duplicates kept')
                bad = []
                wits = []
                for n, c in zip(nm, codes):
                    reasons = []
                    if codes.count(c) > 1:
                        reasons.append('duplicate')
                    if not name_ok(c):
                        if n != n.lower():
                            reasons.append('not lower-case')
                        if '.' in n:
                            reasons.append('contains a dot')
                        if n == '':
                            reasons.append('empty')
                        if any(ord(ch) > 127 for ch in n):
                            reasons.append('non-ASCII (lower-case not decidable by the byte check)')
                    if reasons and c not in bad:
                        bad.append(c)
                        wits.append({'what': f'{label} name ' + ', '.join(reasons), 'name': n})
                ok = strict_sorted(codes) and all(name_ok(c) for c in codes)
                assert ok == (not bad)
                reg.emit(mod, f'c17_{kind}_clean_{Y}_{fid}', 'C17', Y, i['name'],
                         f'{label} names duplicate-free, lower-case, dot-free', f'namesClean {ident}', ok, wits,
                         f'namesClean (dropNames {lean_natlist(sorted(bad))} {ident})', True,
                         counts={'names': len(nm)})

    # ---- statuses and threshold tables ------------------------------------------------------
    se = yrec.get('status_enum')
    if se is None:
        statuses, sid, sname = [], None, None
    else:
        sid, sname = se['id'], se['name']
        statuses = [(m, status_member_code(sid, m)) for m in se['members']]
    mod.table(f'statuses_{Y}', 'List Nat', [(str(c), f'{sid}.{m}') for m, c in statuses],
              f'members of the enum of the 1040 `filing_status` input of {Y}: {sid}')
    scodes = [c for _, c in statuses]
    reg.emit(mod, f'c17_five_statuses_{Y}', 'C17', Y, '1040', 'the year has five distinct filing statuses',
             f'fiveStatuses statuses_{Y}', len(scodes) == 5 and nodup(scodes),
             [{'what': 'filing status enum of the 1040 does not have five distinct members',
               'found': [m for m, _ in statuses], 'enum': sid}], None, None, counts={'statuses': len(scodes)})

    tables = []
    not_status_keyed = []
    scalars = 0
    for f in forms:
        for i in f['instances']:
            if not i['ok']:
                continue
            for tname, t in i['thresholds'].items():
                if 'table' not in t:
                    scalars += 1
                    continue
                # status-keyed: some key member belongs to an enum with the name of the year's status enum
                enums = [e for e in t.get('key_enums', [])]
                is_status = False
                for row in t['table']:
                    for e in row['key_enums']:
                        if e is not None and sname is not None and (e == sid or e.split('/')[0].split(':')[-1] == sname
                                                                    or e.startswith('habutax.enum.filing_status')):
                            is_status = True
                if not is_status:
                    not_status_keyed.append(f'{i["name"]}.{tname}')
                    continue
                keys = []
                for row in t['table']:
                    keys.append([(f'{e}.{m}', encode(f'{e}.{m}')) for e, m in zip(row['key_enums'], row['keys'])])
                tables.append({'name': f'{i["name"]}.{tname}', 'code': encode(f'{i["name"]}.{tname}'), 'keys': keys,
                               'rows': t['table']})
    trow = []
    for t in tables:
        term = '(%d, [%s])' % (t['code'], ', '.join(lean_natlist([c for _, c in k]) for k in t['keys']))
        trow.append((term, t['name'] + ': ' + ' | '.join(','.join(n.rsplit('.', 1)[1] for n, _ in k) for k in t['keys'])))
    mod.table(f'tables_{Y}', 'List (Nat × Table)', trow,
              f'status-keyed threshold tables of {Y}: per dict key (in dict order) the members it stands for')

    def table_total(t):
        return all(sum(1 for k in t['keys'] if s in [c for _, c in k]) == 1 for s in scodes)

    badt = [t for t in tables if not table_total(t)]
    wits = []
    for t in badt:
        for m, s in statuses:
            hits = [','.join(n.rsplit('.', 1)[1] for n, _ in k) for k in t['keys'] if s in [c for _, c in k]]
            if len(hits) != 1:
                wits.append({'what': 'status matched by %d keys' % len(hits), 'table': t['name'], 'status': m,
                             'matching_keys': hits, 'expected': 1, 'found': len(hits),
                             'key_enums': sorted({n.rsplit('.', 1)[0] for k in t['keys'] for n, _ in k}),
                             'year_enum': sid})
    badcodes = sorted({t['code'] for t in badt})
    reg.emit(mod, f'c17_thresholds_total_{Y}', 'C17', Y, None,
             'every status-keyed threshold table has exactly one key per filing status',
             f'thresholdsTotal statuses_{Y} tables_{Y}', not badt, wits,
             f'thresholdsTotal statuses_{Y} (dropTables {lean_natlist(badcodes)} tables_{Y})', True,
             counts={'tables': len(tables), 'scalars': scalars, 'not_status_keyed': not_status_keyed,
                     'pairs': len(tables) * len(scodes)})
    return mod, {'forms': len(facts), 'inputs': n_inputs, 'lines': n_lines, 'tables': len(tables)}


# --------------------------------------------------------------------------------------------------
# C18
# --------------------------------------------------------------------------------------------------
def template_rows(tpl):
    rows = []
    for f in tpl.get('fields', []):
        kind = TFIELD_KIND.get(f['type'], 4)
        if f['type'] == 'Btn' and f.get('button_kind') == 'push':
            kind = 3
        states = []
        if f['type'] == 'Btn':
            states = [encode(s) for s in f.get('on_states', [])]
        elif f['type'] == 'Ch':
            for o in f.get('options', []):
                states.append(encode(o[0] if isinstance(o, list) else o))
        label = f.get('label')
        rows.append({'name': f['name'], 'code': encode(f['name']), 'kind': kind,
                     'maxLen': f.get('max_len'), 'states': states, 'state_names': f.get('on_states') or
                     [o[0] if isinstance(o, list) else o for o in f.get('options', [])],
                     'label': label, 'label_code': encode(label) if label is not None else None,
                     'text': f.get('access_text')})
    rows.sort(key=lambda r: r['code'])
    return rows


def stem_of_target(target):
    """name stem used to identify exclusive groups: IRS `...c1_3[2]` -> `...c1_3`; NC `..._rs1yes`/`..._rs1no` -> `..._rs1`"""
    m = re.match(r'^(.*)\[\d+\]$', target)
    if m:
        return m.group(1), 'index'
    m = re.match(r'^(.*?)(yes|no)$', target)
    if m:
        return m.group(1), 'yes/no'
    return target, 'none'


def gen_c18(year, yrec, templates, reg):
    Y = year
    mod = Module(f'HabuVerif.Gen.C18_{Y}', ['HabuVerif.Refl.C17C18Checks', f'HabuVerif.Gen.C17_{Y}'], [
        f'# C18 obligations for tax year {Y}  (GENERATED by tools/gen_c17_c18.py -- do not edit)',
        '',
        'Template field trees parsed from the bundled PDFs (tools/pdf_extract.py) and the `pdf_fields` lists of',
        'the live form objects; names are Nat codes, tables are sorted by code and sortedness is re-checked here.',
    ])
    forms = yrec['forms']
    stats = {'mappings': 0, 'labelled_pairs': 0, 'maxlen_pairs': 0, 'buttons': 0, 'groups': 0, 'group_rows': 0}
    # ---- fileable forms have template and mappings --------------------------------------------
    facts = []
    for f in forms:
        ok_insts = [i for i in f['instances'] if i['ok']]
        fileable = form_is_fileable(f)
        has_tpl = bool(ok_insts) and all(bool(i['pdf_file']) and i.get('pdf_file_exists') and
                                         i['pdf_file'] in templates and not templates[i['pdf_file']].get('error')
                                         for i in ok_insts)
        nmap = min([len(i['pdf_fields']) for i in ok_insts], default=0)
        facts.append({'name': f['form_name'], 'code': encode(str(f['form_name'])), 'fileable': fileable,
                      'hasTemplate': has_tpl, 'nMappings': nmap,
                      'pdf': sorted({str(i['pdf_file']) for i in ok_insts})})
    bad = [x for x in facts if x['fileable'] and not (x['hasTemplate'] and x['nMappings'] > 0)]
    badcodes = sorted({x['code'] for x in bad})
    reg.emit(mod, f'c18_fileable_complete_{Y}', 'C18', Y, None,
             'every form that can require filing has a template and mappings',
             f'fileableComplete catalogue_{Y}', not bad,
             [{'what': 'fileable form without template or mappings', 'form': x['name'], 'template': x['hasTemplate'],
               'mappings': x['nMappings'], 'pdf_file': x['pdf']} for x in bad],
             f'fileableComplete (dropForms {lean_natlist(badcodes)} catalogue_{Y})', True,
             counts={'fileable': sum(1 for x in facts if x['fileable'])})

    # ---- all line names of the year ----------------------------------------------------------
    yf = {}
    for f in forms:
        for i in f['instances']:
            if i['ok']:
                for fl in i['fields']:
                    full = f'{i["name"]}.{fl["base"]}'
                    yf[encode(full)] = full
    yf_codes = sorted(yf)
    mod.table(f'yearFields_{Y}', 'List Nat', [(str(c), yf[c]) for c in yf_codes],
              f'fully qualified names of all lines of all form instances of {Y}, sorted by code')
    reg.emit(mod, f'c18_year_fields_sorted_{Y}', 'C18', Y, None, 'the table of line names is strictly sorted',
             f'strictSorted yearFields_{Y}', strict_sorted(yf_codes), [], None, None, counts={'lines': len(yf_codes)})

    # ---- templates -----------------------------------------------------------------------------
    tids = {}
    tpl_rows = {}
    used_pdfs = []
    for f in forms:
        for i in f['instances']:
            if i['ok'] and i['pdf_file'] and i['pdf_file'] not in used_pdfs:
                used_pdfs.append(i['pdf_file'])
    for pdf in sorted(used_pdfs):
        tid = lean_ident(os.path.splitext(os.path.basename(pdf))[0])
        tids[pdf] = tid
        tpl = templates.get(pdf)
        if tpl is None or tpl.get('error'):
            tpl_rows[pdf] = []
            mod.add(f'-- template {comment_safe(pdf)} could not be parsed: {comment_safe((tpl or {}).get("error", "missing"))}')
        else:
            tpl_rows[pdf] = template_rows(tpl)
        rows = []
        for r in tpl_rows[pdf]:
            term = '(%d, ⟨%d, %s, %s, %s⟩)' % (r['code'], r['kind'], lean_opt(r['maxLen']), lean_natlist(r['states']),
                                              lean_opt(r['label_code']))
            rows.append((term, f"{r['name']} kind={r['kind']} max={r['maxLen']} states={r['state_names']} label={r['label']}"))
        mod.table(f'template_{Y}_{tid}', 'Template', rows,
                  f'terminal fields of {pdf} (name code, kind, /MaxLen, on-states or options, line label)')
        codes = [r['code'] for r in tpl_rows[pdf]]
        dup = sorted({r['name'] for r in tpl_rows[pdf] if codes.count(r['code']) > 1})
        reg.emit(mod, f'c18_template_sorted_{Y}_{tid}', 'C18', Y, None,
                 f'the field names of {os.path.basename(pdf)} are pairwise different (table strictly sorted)',
                 f'templateSorted template_{Y}_{tid}', strict_sorted(codes),
                 [{'what': 'duplicate template field name', 'template': pdf, 'names': dup}], None, None,
                 counts={'fields': len(codes), 'labelled': sum(1 for r in tpl_rows[pdf] if r['label'] is not None)})

    # ---- per form instance ---------------------------------------------------------------------
    button_errors = []
    for f in forms:
        for i in f['instances']:
            if not i['ok']:
                continue
            if not i['pdf_fields'] and not i['pdf_file']:
                continue
            fid = i['_fid']
            pdf = i['pdf_file']
            trows = tpl_rows.get(pdf, [])
            tname = f'template_{Y}_{tids[pdf]}' if pdf in tids else None
            ttab = [(r['code'], r) for r in trows]
            if tname is None:
                tname = f'noTemplate_{Y}_{fid}'
                mod.add(f'/-- {comment_safe(i["name"])} has mappings but no pdf_file -/')
                mod.add(f'def {tname} : Template := []')
                mod.add('')
            maps = []
            for idx, p in enumerate(i['pdf_fields']):
                line_full = p['line'] if '.' in p['line'] else f'{i["name"]}.{p["line"]}'
                ll = line_label_of_name(p['line'])
                ml = p['max_length']
                maps.append({
                    'idx': idx, 'target': p['target'], 'code': encode(p['target']), 'kind': MAPPING_KIND.get(p['kind'], 4),
                    'kind_name': p['kind'],
                    'maxLength': ml if isinstance(ml, int) and not isinstance(ml, bool) and ml >= 0 else None,
                    'raw_max_length': ml,
                    'trueValue': encode(p['true_value']) if p['true_value'] is not None else None,
                    'true_value': p['true_value'],
                    'choices': [encode(c) for c in (p['choices'] or [])], 'choice_names': p['choices'] or [],
                    'lineLabel': encode(ll) if ll is not None else None, 'line_label': ll,
                    'line': p['line'], 'line_full': line_full, 'line_code': encode(line_full),
                })
            stats['mappings'] += len(maps)
            smaps = sorted(maps, key=lambda m: (m['code'], m['idx']))
            rows = []
            for m in smaps:
                term = '(%d, ⟨%d, %s, %s, %s, %s, %d⟩)' % (m['code'], m['kind'], lean_opt(m['maxLength']),
                                                          lean_opt(m['trueValue']), lean_natlist(m['choices']),
                                                          lean_opt(m['lineLabel']), m['line_code'])
                rows.append((term, f"{m['target']} <- {m['line_full']} {m['kind_name']} max={m['raw_max_length']} "
                                   f"true={m['true_value']} label={m['line_label']}"))
            mname = f'mappings_{Y}_{fid}'
            mod.table(mname, 'Mappings', rows,
                      f'pdf_fields of {i["name"]} sorted by target code (duplicates kept); template {pdf}')
            mcodes = [m['code'] for m in smaps]

            def emit(check, short, lean_fn, failing, wit, counts=None, two=True):
                """failing: list of mapping dicts that fail; rest = same check with those targets dropped"""
                badk = sorted({m['code'] for m in failing})
                args = f'{mname} {tname}' if two else mname
                rest_args = f'(dropKeys {lean_natlist(badk)} {mname}) {tname}' if two else f'(dropKeys {lean_natlist(badk)} {mname})'
                reg.emit(mod, f'c18_{short}_{Y}_{fid}', 'C18', Y, i['name'], check, f'{lean_fn} {args}', not failing,
                         [dict(wit(m), target=m['target'], line=m['line'], template=pdf) for m in failing],
                         f'{lean_fn} {rest_args}', True, counts=dict(counts or {}, mappings=len(maps)))

            # no double drive
            dd = [m for m in smaps if mcodes.count(m['code']) > 1]
            emit('no template field is driven by two mappings', 'no_double_drive', 'noDoubleDrive', dd,
                 lambda m: {'what': 'template field driven by more than one mapping',
                            'lines': [x['line'] for x in smaps if x['code'] == m['code']]}, two=False)
            # targets exist  (mirror of subsetSorted: conservative on duplicates -> evaluate the mirror itself)
            tcodes = [r['code'] for r in trows]
            tset = set(tcodes)
            # mirror of keysSubset (one merge pass): a missing target fails, and so does a repeated one
            missing = [m for m in smaps if m['code'] not in tset or mcodes.count(m['code']) > 1]
            assert subset_sorted(mcodes, tcodes) == (not missing)
            assert subset_sorted([c for c in mcodes if c not in {m['code'] for m in missing}], tcodes)
            emit('every mapping targets a field that exists in the template', 'targets_exist', 'targetsExist', missing,
                 lambda m: {'what': 'target not found in the template' if m['code'] not in tset else 'duplicate target',
                            'expected': 'a terminal field of the template', 'found': None})

            def look(m):
                return lookup_sorted(ttab, m['code'])

            unjoinable = [m for m in smaps if m['code'] not in tset or mcodes.count(m['code']) > 1]
            lmaps = [(m['code'], m) for m in smaps]

            def emit_join(check, short, lean_fn, p, applicable, wit, counts=None):
                """p(mapping, template row) mirrors the Lean predicate; rows without a (unique) partner fail too"""
                failing = [m for m in smaps if m in unjoinable or not p(m, look(m))]
                assert join_all(p, lmaps, ttab) == (not failing), (lean_fn, i['name'])
                badk = {m['code'] for m in failing}
                assert join_all(p, [(k, m) for k, m in lmaps if k not in badk], ttab)

                def w(m):
                    if m in unjoinable:
                        return {'what': 'no unique template field for this target (see targets_exist / no_double_drive)'}
                    return wit(m)
                emit(check, short, lean_fn, failing, w, counts=dict(counts or {}, applicable=len(applicable)))

            # kinds
            emit_join('the mapping class fits the widget type', 'kinds', 'kindsAgree',
                      lambda m, t: m['kind'] == t['kind'] and m['kind'] < 4, smaps,
                      lambda m: {'what': 'mapping class does not fit the widget', 'expected': m['kind_name'],
                                 'found': look(m)['kind']})
            # max length
            def maxlen_p(m, t):
                if m['kind'] != 0 or t['maxLen'] is None:
                    return True
                return m['maxLength'] is not None and m['maxLength'] <= t['maxLen']
            pairs = [m for m in smaps if look(m) is not None and m['kind'] == 0 and look(m)['maxLen'] is not None]
            stats['maxlen_pairs'] += len(pairs)
            emit_join('a length-limited widget is driven by a mapping with a limit that is not larger', 'maxlen', 'maxLenOk',
                      maxlen_p, pairs,
                      lambda m: {'what': 'template limits the length, mapping declares none or a larger one',
                                 'expected': look(m)['maxLen'], 'found': m['raw_max_length']},
                      counts={'limited_widgets': len(pairs),
                              'equal': sum(1 for m in pairs if m['maxLength'] == look(m)['maxLen']),
                              'stricter': sum(1 for m in pairs if m['maxLength'] is not None and m['maxLength'] < look(m)['maxLen']),
                              'mapping_limit_without_template_limit': sum(
                                  1 for m in smaps if m['kind'] == 0 and look(m) is not None
                                  and look(m)['maxLen'] is None and m['maxLength'] is not None)})
            # true values
            btn = [m for m in smaps if m['kind'] == 1 and look(m) is not None]
            stats['buttons'] += len(btn)
            emit_join('the value written for a checked box is an on-state of the widget', 'true_values', 'trueValuesOk',
                      lambda m, t: m['kind'] != 1 or (m['trueValue'] is not None and m['trueValue'] in t['states']), btn,
                      lambda m: {'what': 'true value is not an on-state of the widget', 'expected': look(m)['state_names'],
                                 'found': m['true_value']}, counts={'buttons': len(btn)})
            # choices
            ch = [m for m in smaps if m['kind'] == 2 and look(m) is not None]
            emit_join('every choice a mapping may write is an option of the widget', 'choices', 'choicesOk',
                      lambda m, t: m['kind'] != 2 or all(c in t['states'] for c in m['choices']), ch,
                      lambda m: {'what': 'choice not among the widget options', 'expected': look(m)['state_names'],
                                 'found': [c for c in m['choice_names'] if encode(c) not in look(m)['states']]},
                      counts={'choice_fields': len(ch)})
            # labels
            lab = [m for m in smaps if look(m) is not None and m['lineLabel'] is not None and look(m)['label_code'] is not None]
            stats['labelled_pairs'] += len(lab)
            emit_join('where the template labels the widget with a line, the mapped line is that line', 'labels', 'labelsAgree',
                      lambda m, t: m['lineLabel'] is None or t['label_code'] is None or m['lineLabel'] == t['label_code'], lab,
                      lambda m: {'what': 'template line label differs from the mapped line', 'expected': look(m)['label'],
                                 'found': m['line_label'], 'text': look(m)['text']},
                      counts={'labelled_pairs': len(lab),
                              'template_unlabelled': sum(1 for m in smaps if look(m) is not None and look(m)['label_code'] is None),
                              'line_unlabelled': sum(1 for m in smaps if m['lineLabel'] is None)})
            # lines exist
            lcodes = sorted({m['line_code'] for m in smaps})
            lname = f'mappingLines_{Y}_{fid}'
            full = {m['line_code']: m['line_full'] for m in smaps}
            mod.table(lname, 'List Nat', [(str(c), full[c]) for c in lcodes],
                      f'fully qualified lines read by the mappings of {i["name"]}, sorted, duplicate-free')
            reg.emit(mod, f'c18_lines_cover_{Y}_{fid}', 'C18', Y, i['name'], 'the line list covers the mapping table',
                     f'linesCover {mname} {lname}', True, [], None, None, counts={'lines': len(lcodes)})
            yfs = set(yf_codes)
            missing_lines = [c for c in lcodes if c not in yfs]
            keep = [c for c in lcodes if c in yfs]
            reg.emit(mod, f'c18_lines_exist_{Y}_{fid}', 'C18', Y, i['name'], 'every mapped line exists',
                     f'linesExist {lname} yearFields_{Y}', subset_sorted(lcodes, yf_codes),
                     [{'what': 'mapped line does not exist in any form of the year', 'line': full[c],
                       'targets': [m['target'] for m in smaps if m['line_code'] == c]} for c in missing_lines],
                     f'linesExist (dropNames {lean_natlist(missing_lines)} {lname}) yearFields_{Y}',
                     subset_sorted(keep, yf_codes), counts={'lines': len(lcodes)})
            # exclusive groups
            bm = i.get('button_matrix') or []
            groups = {}
            for idx, p in enumerate(i['pdf_fields']):
                if p['kind'] != 'ButtonPDFField':
                    continue
                b = bm[idx] if idx < len(bm) else None
                if not b:
                    continue
                for dv, err in zip(b['domain'], b['error']):
                    if err:
                        button_errors.append({'form': i['name'], 'target': p['target'], 'line': b['line'],
                                              'value': dv, 'error': err})
                stem, how = stem_of_target(p['target'])
                groups.setdefault((b['line'], stem), []).append((p, b, how))
            grows = []
            gw = []
            ngroups = 0
            for (line, stem), members in groups.items():
                if len(members) < 2:
                    continue
                ngroups += 1
                dom = members[0][1]['domain']
                matrix = []
                for vi, dv in enumerate(dom):
                    row = [bool(b['on'][vi]) for _, b, _ in members]
                    matrix.append(row)
                    if not at_most_one(row):
                        gw.append({'what': 'more than one box of an exclusive group is on', 'group': stem,
                                   'line': line, 'value': dv, 'expected': 'at most one on',
                                   'found': [p['target'] for (p, _, _), on in zip(members, row) if on]})
                stats['group_rows'] += len(matrix)
                gid = encode(f'{line}|{stem}')
                term = '(%d, [%s])' % (gid, ', '.join('[' + ', '.join(lean_bool(x) for x in r) + ']' for r in matrix))
                grows.append((term, gid, f'{stem}[{",".join(p["target"][len(stem):] for p, _, _ in members)}] driven by {line} '
                                         f'for {dom}: on = {[[p["true_value"] if x else "Off" for (p, _, _), x in zip(members, r)] for r in matrix]}'))
            stats['groups'] += ngroups
            gname = f'groups_{Y}_{fid}'
            mod.table(gname, 'Groups', [(t, c) for t, _, c in grows],
                      f'exclusive groups of {i["name"]}: same driving line and same name stem; rows = values of the line, columns = boxes')
            badg = sorted({encode(f'{w["line"]}|{w["group"]}') for w in gw})
            reg.emit(mod, f'c18_exclusive_{Y}_{fid}', 'C18', Y, i['name'],
                     'within a group of exclusive boxes at most one is on, for every value of the driving line',
                     f'groupsExclusive {gname}', not gw, gw,
                     f'groupsExclusive (dropKeys {lean_natlist(badg)} {gname})', True,
                     counts={'groups': ngroups, 'rows': sum(t.count('], [') + 1 for t, _, _ in grows)})
    mod.add(f'/-- number of (button, value) pairs for which the real `ButtonPDFField.value` raised -/')
    mod.add(f'def buttonEvalErrors_{Y} : Nat := {len(button_errors)}')
    mod.add('')
    reg.emit(mod, f'c18_button_values_total_{Y}', 'C18', Y, None,
             'every button value function returns for every value of its driving line',
             f'(buttonEvalErrors_{Y} == 0)', not button_errors,
             [dict(w, what='button value function raised') for w in button_errors], None, None,
             counts={'errors': len(button_errors)})
    return mod, stats


# --------------------------------------------------------------------------------------------------
def load_or_build(catalogue_path, templates_path):
    if catalogue_path:
        with open(catalogue_path) as fh:
            cat = json.load(fh)
    else:
        import catalogue as _cat
        cat = json.loads(json.dumps(_cat.build(with_cli=False)))
    if templates_path:
        with open(templates_path) as fh:
            tpl = json.load(fh)
    else:
        import pdf_extract as _pe
        tpl = json.loads(json.dumps(_pe.extract_all()))
    return cat, tpl


OWN_FILES = re.compile(r'^(C17_\d{4}\.lean|C18_\d{4}\.lean|C17C18\.lean|c17_c18_failed\.json|c17_c18_obligations\.json)$')


def generate(cat, tpl, out_dir):
    os.makedirs(out_dir, exist_ok=True)
    for fn in os.listdir(out_dir):
        if OWN_FILES.match(fn):
            os.remove(os.path.join(out_dir, fn))
    reg = Registry()
    summary = {}
    mods = []
    for Y in YEARS:
        yrec = cat['years'].get(Y)
        if yrec is None:
            continue
        m17, s17 = gen_c17(Y, yrec, tpl, reg)
        m18, s18 = gen_c18(Y, yrec, tpl, reg)
        mods += [m17, m18]
        summary[Y] = {'c17': s17, 'c18': s18}
    agg = ['import ' + m.name for m in mods]
    agg += ['/-!', '# C17 / C18 generated obligations (GENERATED by tools/gen_c17_c18.py -- do not edit)', '',
            f'{len(reg.obligations)} obligations, {len(reg.failed)} of them false on this tree (proved negations; see',
            '`c17_c18_failed.json`).', '-/', '']
    files = {'C17C18.lean': '\n'.join(agg)}
    for m in mods:
        files[m.name.rsplit('.', 1)[1] + '.lean'] = m.text()
    files['c17_c18_failed.json'] = json.dumps(reg.failed, indent=1, sort_keys=True) + '\n'
    files['c17_c18_obligations.json'] = json.dumps({'summary': summary, 'obligations': reg.obligations},
                                                   indent=1, sort_keys=True) + '\n'
    for fn, text in files.items():
        with open(os.path.join(out_dir, fn), 'w') as fh:
            fh.write(text)
    return reg, summary


def main(argv=None):
    ap = argparse.ArgumentParser()
    ap.add_argument('--catalogue')
    ap.add_argument('--templates')
    ap.add_argument('--out-dir', default='/verif/lean/HabuVerif/Gen')
    ap.add_argument('--quiet', action='store_true')
    args = ap.parse_args(argv)
    cat, tpl = load_or_build(args.catalogue, args.templates)
    reg, summary = generate(cat, tpl, args.out_dir)
    if not args.quiet:
        print(json.dumps({'obligations': len(reg.obligations), 'failed': [f['id'] for f in reg.failed],
                          'summary': summary}, indent=1))
    return 0


if __name__ == '__main__':
    sys.exit(main())
