#!/usr/bin/env python3
"""C08: where do the shipped forms USE a statutory amount?

    python c08_sites.py [--json FILE] [--year Y] [--uncovered]

Two kinds of site are found, per tax year, on the working tree at $HABUTAX_REPO (default /repo):

  * `threshold`  every entry of a form's `thresholds = {...}` block (read off the translator's intermediate
                 representation, i.e. the live `Form._thresholds`, and cross-checked against the catalogue mirror
                 tools/catalogue.py): scalar, or table keyed by filing status (single members or tuples);
  * `inline`     every numeric literal inside a line definition (lambda, local `def`, and the helpers it calls, which
                 the translator inlines, so a helper shared by three lines gives three sites) that is
                     - an int or float with |x| >= 100, or
                     - a float strictly between 0 and 1 (a rate), 0.001 (the "is it non-zero" epsilon) included and
                       tagged `epsilon`,
                 together with the set of filing statuses under which the literal is REACHED: the enclosing
                 `if/elif/else`, conditional expressions and `and/or` short-circuits whose condition is a test of the
                 filing-status input (`== / is / in [...] / != / not in`, `not`, `and`, `or` of those) are decided per
                 status; any other condition counts as "may hold".  `x if c else y` inside a comparison is handled the
                 same way.  Literals in `range(...)`/index positions below 100 are not amounts and are not listed.

Each site is then looked up in the reviewed mapping `c08_map.json`:

  * a threshold site is `checked` when the map names its amount id (and the table has a published value);
  * an inline site is `checked` when its (form, line) has checks for that year and the literal equals the published
    value (times a multiplier the check declares: `times`, `derived`) of an amount those checks mention, under a
    status the literal is reached for;  `ignored` when the map lists it under `ignore` with the reason (structural
    constants such as the 0.001 epsilon, a rounding unit, an amount that belongs to another property);  `mismatch`
    when the line is mapped, the literal is NOT a published value and an obligation of the line fails on this tree;
  * everything else is `uncovered` and printed with its value, so a reader sees what C08 does not check.

Nothing here decides whether an amount is right: that is gen_c08.py (kernel evaluation against Spec/Statutory.lean)
and harness/c08_oracle.py (real solves against c08_statutory.json).
"""
import argparse
import json
import os
import struct
import sys

HERE = os.path.dirname(os.path.abspath(__file__))
if HERE not in sys.path:
    sys.path.insert(0, HERE)

YEARS = (2021, 2022, 2023)
MAP_PATH = os.path.join(HERE, 'c08_map.json')

STATUS_CODE = {
    'Single': 'single', 'MarriedFilingJointly': 'mfj', 'MarriedFilingSeparately': 'mfs', 'HeadOfHousehold': 'hoh',
    'QualifyingSurvivingSpouse': 'qss', 'QualifyingWidowWidower': 'qss',
}
STATUS_ORDER = ('single', 'mfj', 'mfs', 'hoh', 'qss')


def _repo():
    return os.environ.get('HABUTAX_REPO', '/repo')


def load_ir(year):
    """the translator's intermediate representation of one year (classes, lines as DSL terms, thresholds)"""
    repo = _repo()
    if not sys.path or sys.path[0] != repo:
        sys.path.insert(0, repo)
    sys.dont_write_bytecode = True
    import warnings
    with warnings.catch_warnings():
        warnings.simplefilter('ignore')
        import translate
        ir, _rep = translate.translate_year(year)
    return json.loads(json.dumps(ir))


def status_enum_of(ir):
    """(enum id, [member names]) of the year's filing-status enum"""
    for e, ms in ir['enums']:
        if e.startswith('filing_status'):
            return e, list(ms)
    raise KeyError('no filing_status enum in the year')


def float_of_hex(h):
    return struct.unpack('>d', bytes.fromhex(h))[0]


def const_number(v):
    """numeric value of an IR constant, or None"""
    if v[0] == 'int':
        return int(v[1])
    if v[0] == 'float':
        return float_of_hex(v[1])
    return None


# --------------------------------------------------------------------------------------------------
# three-valued evaluation of filing-status conditions
# --------------------------------------------------------------------------------------------------
STATUS_ALIASES = set()     # local variables currently bound to the filing-status input (`status = i['1040.filing_status']`)


def _is_status_read(e):
    if e[0] == 'var' and e[1] in STATUS_ALIASES:
        return True
    return e[0] == 'readI' and e[1][0] == 'const' and e[1][1][0] == 'str' and \
        e[1][1][1].split('.')[-1] == 'filing_status'


def _members(e):
    """member names of a constant enum value / list / tuple of them, else None"""
    if e[0] == 'const' and e[1][0] == 'enumv':
        return [e[1][2]]
    if e[0] in ('list', 'tuple'):
        out = []
        for x in e[1]:
            m = _members(x)
            if m is None or len(m) != 1:
                return None
            out += m
        return out
    if e[0] == 'const' and e[1][0] in ('list', 'tuple'):
        out = []
        for x in e[1][1]:
            if x[0] != 'enumv':
                return None
            out.append(x[2])
        return out
    return None


def cond_for_status(e, member):
    """True / False / None (unknown) for condition `e` when the filing status is `member`"""
    k = e[0]
    if k == 'cmp' and len(e[2]) == 1:
        left, op, right = e[1], e[2][0], e[3][0]
        if _is_status_read(left):
            ms = _members(right)
            if ms is not None:
                if op in ('eq', 'is_') and len(ms) == 1 and right[0] == 'const':
                    return member == ms[0]
                if op in ('ne', 'isNot') and len(ms) == 1 and right[0] == 'const':
                    return member != ms[0]
                if op == 'in_':
                    return member in ms
                if op == 'notIn':
                    return member not in ms
        return None
    if k == 'not':
        r = cond_for_status(e[1], member)
        return None if r is None else (not r)
    if k == 'and':
        a, b = cond_for_status(e[1], member), cond_for_status(e[2], member)
        if a is False or b is False:
            return False
        if a is True and b is True:
            return True
        return None
    if k == 'or':
        a, b = cond_for_status(e[1], member), cond_for_status(e[2], member)
        if a is True or b is True:
            return True
        if a is False and b is False:
            return False
        return None
    return None


# --------------------------------------------------------------------------------------------------
# walking the DSL
# --------------------------------------------------------------------------------------------------
def interesting(x):
    if isinstance(x, bool):
        return None
    if isinstance(x, int):
        return 'amount' if abs(x) >= 100 else None
    if isinstance(x, float):
        if x != x or x in (float('inf'), float('-inf')):
            return None
        if abs(x) >= 100:
            return 'amount'
        if x == 0.001:
            return 'epsilon'
        if 0.0 < abs(x) < 1.0:
            return 'rate'
    return None


class Walker(object):
    def __init__(self, members):
        self.members = members
        self.found = []       # (value, typ, class, frozenset(reaching members), context)

    def const(self, v, reach, ctx):
        x = const_number(v)
        if x is None:
            if v[0] in ('list', 'tuple'):
                for y in v[1]:
                    self.const(y, reach, ctx)
            return
        cls = interesting(x)
        if cls is not None:
            self.found.append((x, v[0], cls, frozenset(reach), ctx))

    def split(self, c, reach):
        yes = {m for m in reach if cond_for_status(c, m) is not False}
        no = {m for m in reach if cond_for_status(c, m) is not True}
        return yes, no

    def expr(self, e, reach, ctx='value'):
        if not reach:
            return
        k = e[0]
        if k == 'const':
            self.const(e[1], reach, ctx)
        elif k in ('var', 'instance', 'global', 'unsupported', 'raise'):
            pass
        elif k in ('readI', 'readV', 'neg', 'pos', 'not', 'attrFail', 'loadedForm'):
            self.expr(e[1], reach, ctx)
        elif k == 'attr':
            self.expr(e[1], reach, ctx)
        elif k == 'fstr':
            for p in e[1]:
                self.expr(p, reach, 'text')
        elif k == 'bin':
            self.expr(e[2], reach, ctx)
            self.expr(e[3], reach, ctx)
        elif k in ('and', 'or'):
            self.expr(e[1], reach, ctx)
            yes, no = self.split(e[1], reach)
            self.expr(e[2], yes if k == 'and' else no, ctx)
        elif k == 'cmp':
            self.expr(e[1], reach, 'compare')
            for r in e[3]:
                self.expr(r, reach, 'compare')
        elif k == 'ite':
            self.expr(e[1], reach, ctx)
            yes, no = self.split(e[1], reach)
            self.expr(e[2], yes, ctx)
            self.expr(e[3], no, ctx)
        elif k == 'call':
            c2 = 'index' if e[1] == 'range' else ctx
            for a in e[2]:
                self.expr(a, reach, c2)
        elif k == 'method':
            self.expr(e[2], reach, ctx)
            for a in e[3]:
                self.expr(a, reach, ctx)
        elif k == 'threshold':
            self.expr(e[1], reach, ctx)
            if e[2]:
                self.expr(e[3], reach, ctx)
        elif k == 'thresholdOf':
            self.expr(e[1], reach, ctx)
            self.expr(e[2], reach, ctx)
            if e[3]:
                self.expr(e[4], reach, ctx)
        elif k in ('notImpl', 'tuple', 'list'):
            for a in e[1]:
                self.expr(a, reach, ctx)
        elif k == 'dict':
            for v in e[1]:
                self.const(v, reach, 'key')
            for a in e[2]:
                self.expr(a, reach, ctx)
        elif k == 'index':
            self.expr(e[1], reach, ctx)
            self.expr(e[2], reach, 'index')
        elif k == 'slice':
            self.expr(e[1], reach, ctx)
            self.expr(e[2], reach, 'index')
            self.expr(e[3], reach, 'index')
        elif k in ('listComp', 'sumGen'):
            self.expr(e[1], reach, ctx)
            self.expr(e[3], reach, ctx)
            for c in e[4]:
                self.expr(c, reach, ctx)
        elif k == 'callHelper':
            for a in e[2]:
                self.expr(a, reach, ctx)
            for _n, v in e[3]:
                self.const(v, reach, 'default')
            self.block(e[4], reach)
        else:  # pragma: no cover
            raise ValueError(f'c08_sites: unknown expression node {k!r}')

    def block(self, stmts, reach):
        """returns the statuses that can fall through the end of the block"""
        for s in stmts:
            if not reach:
                return reach
            reach = self.stmt(s, reach)
        return reach

    def stmt(self, s, reach):
        k = s[0]
        if k == 'assign':
            self.expr(s[2], reach)
            if _is_status_read(s[2]) and s[2][0] == 'readI':
                STATUS_ALIASES.add(s[1])
            else:
                STATUS_ALIASES.discard(s[1])
        elif k == 'unpack':
            self.expr(s[2], reach)
        elif k == 'aug':
            self.expr(s[3], reach)
        elif k == 'ifS':
            self.expr(s[1], reach, 'condition')
            yes, no = self.split(s[1], reach)
            a = self.block(s[2], yes)
            b = self.block(s[3], no)
            return set(a) | set(b)
        elif k == 'forS':
            self.expr(s[2], reach)
            self.block(s[3], reach)
        elif k == 'ret':
            self.expr(s[1], reach)
            return set()
        elif k in ('expr', 'assertS'):
            self.expr(s[1], reach)
            if k == 'assertS' and len(s) > 2:
                self.expr(s[2], reach, 'text')
            if k == 'expr' and s[1][0] == 'notImpl':
                return set()
        elif k == 'append':
            self.expr(s[2], reach)
        elif k in ('continueS', 'breakS', 'pass'):
            pass
        else:  # pragma: no cover
            raise ValueError(f'c08_sites: unknown statement node {k!r}')
        return reach


def fmt_num(x):
    if isinstance(x, float) and x == int(x) and abs(x) < 1e15:
        return str(int(x))
    return repr(x)


def thresholds_of(ir):
    """[(form, name, rows)] with rows = [(statuses or None for scalar, value, typ)]"""
    out = []
    for c in ir['classes']:
        for name, t in c['thresholds']:
            rows = []
            if t[0] == 'scalar':
                rows.append((None, const_number(t[1]), t[1][0], None))
            else:
                for key, v in t[1]:
                    ms = [key[1]] if key[0] == 'one' else key[1]
                    names = [m[2] if m[0] == 'enumv' else repr(m) for m in ms]
                    rows.append((names, const_number(v), v[0], key[0]))
            out.append((c['name'], name, rows))
    return out


def find_sites(year, ir=None):
    ir = ir or load_ir(year)
    enum_id, members = status_enum_of(ir)
    sites = []
    for form, name, rows in thresholds_of(ir):
        for names, value, typ, keykind in rows:
            sites.append({'year': year, 'kind': 'threshold', 'form': form, 'name': name,
                          'statuses': None if names is None else [STATUS_CODE.get(n, n) for n in names],
                          'members': names, 'value': value, 'type': typ})
    for c in ir['classes']:
        for l in c['lines']:
            w = Walker(members)
            STATUS_ALIASES.clear()
            for _n, v in l['defaults']:
                w.const(v, set(members), 'default')
            w.block(l['body'], set(members))
            seen = {}
            for x, typ, cls, reach, ctx in w.found:
                key = (repr(x), typ, cls)
                if key in seen:
                    seen[key]['members'] = sorted(set(seen[key]['members']) | set(reach), key=members.index)
                    seen[key]['count'] += 1
                    if ctx not in seen[key]['contexts']:
                        seen[key]['contexts'].append(ctx)
                    continue
                rec = {'year': year, 'kind': 'inline', 'form': c['name'], 'line': l['name'], 'value': x, 'type': typ,
                       'class': cls, 'members': sorted(reach, key=members.index), 'contexts': [ctx], 'count': 1}
                seen[key] = rec
                sites.append(rec)
            for rec in seen.values():
                rec['statuses'] = [STATUS_CODE[m] for m in rec['members']]
    return sites


# --------------------------------------------------------------------------------------------------
# the reviewed mapping
# --------------------------------------------------------------------------------------------------
def load_map(path=MAP_PATH):
    with open(path, encoding='utf-8') as fh:
        return json.load(fh)


def applies(entry, year):
    ys = entry.get('years')
    return ys is None or year in ys


def same_number(a, b):
    try:
        return float(a) == float(b)
    except (TypeError, ValueError):
        return False


def mentioned_amounts(chk):
    """(amount id, multiplier, offset) triples a check of the map mentions: its primary amount, and every
    `{"amt": id, "times": k, "plus": d}` in its stores / expectations (shorthands `echo`, `gate`, `coef` expanded)
    and in its `derived` list"""
    from fractions import Fraction
    import gen_c08
    out = [(chk['amount'], Fraction(1), Fraction(0))]

    def walk(node):
        if isinstance(node, dict):
            if 'amt' in node:
                out.append((node['amt'], Fraction(str(node.get('times', '1'))) / Fraction(str(node.get('div', '1'))),
                            Fraction(str(node.get('plus', '0')))))
            for v in node.values():
                walk(v)
        elif isinstance(node, list):
            for v in node:
                walk(v)

    walk(gen_c08.expand_points(chk))
    walk({k: chk.get(k) for k in ('inputs', 'values', 'derived')})
    return out


def classify(sites, cmap, stat=None, failed_sites=()):
    """give every site a `state`:
         checked    mapped, and the literal is the published value (times a declared multiplier) of a mapped amount
         ignored    listed in the map with a reason (structural constant, other property)
         mismatch   mapped, an obligation of the site is false on this tree and the literal is not a published value
         uncovered  not mapped, or mapped but no check explains the literal, or no confident published value
       and `covered_by` (amount ids / 'ignore:<why>')."""
    from fractions import Fraction
    if stat is None:
        import gen_c08
        stat = gen_c08.Statutory(gen_c08.load_statutory())
    th = {}
    for e in cmap.get('thresholds', []):
        th.setdefault((e['form'], e['name']), []).append(e)
    lines = {}
    for e in cmap.get('lines', []):
        lines.setdefault((e['form'], e['line']), []).append(e)
    ignores = {}
    for e in cmap.get('ignore', []):
        ignores.setdefault((e['form'], e['line']), []).append(e)
    failed_sites = set(failed_sites)
    failed_lines = set()
    for k in failed_sites:
        if k.startswith('ln:'):
            fpart, line = k[3:].split('.', 1)
            failed_lines.add((fpart.split(':')[0], line))

    def published(year, aid, statuses):
        vals = set()
        for st in (statuses or STATUS_ORDER):
            v = stat.amount(year, st, aid)
            if v is not None:
                vals.add(v)
        return vals

    for s in sites:
        s['covered_by'] = None
        s['state'] = 'uncovered'
        y = s['year']
        if s['kind'] == 'threshold':
            for e in th.get((s['form'], s['name']), []):
                if not applies(e, y):
                    continue
                if e.get('amount'):
                    s['covered_by'] = [e['amount']]
                    key = f"th:{s['form']}.{s['name']}"
                    pub = published(y, e['amount'], s['statuses'])
                    if not pub:
                        s['state'] = 'uncovered'
                        s['why'] = 'no confident published value'
                    elif key in failed_sites and not any(same_number(s['value'], v * Fraction(str(e.get('times', '1')))) for v in pub):
                        s['state'] = 'mismatch'
                    else:
                        s['state'] = 'checked'
                elif e.get('ignore'):
                    s['covered_by'] = ['ignore:' + e['ignore']]
                    s['state'] = 'ignored'
            continue
        where = (s['form'], s['line'])
        if s.get('class') == 'epsilon':
            s['covered_by'] = ['ignore:is-it-non-zero epsilon (0.001)']
            s['state'] = 'ignored'
            continue
        for ig in ignores.get(where, []) + ignores.get((s['form'], '*'), []):
            if applies(ig, y) and any(same_number(s['value'], c) for c in ig['values']):
                s['covered_by'] = ['ignore:' + ig['why']]
                s['state'] = 'ignored'
        if s['state'] == 'ignored':
            continue
        entries = [e for e in lines.get(where, []) if applies(e, y)]
        hit = []
        mapped = False
        for e in entries:
            for chk in e.get('checks', []):
                if not applies(chk, y):
                    continue
                mapped = True
                for aid, times, plus in mentioned_amounts(chk):
                    if any(same_number(s['value'], v * times) for v in published(y, aid, s['statuses'])):
                        hit.append(aid)
        if hit:
            s['covered_by'] = sorted(set(hit))
            s['state'] = 'checked'
        elif mapped:
            failed_here = (s['form'], s['line']) in failed_lines
            s['state'] = 'mismatch' if failed_here else 'uncovered'
            if not failed_here:
                s['why'] = 'the line is mapped but none of its checks explains this literal'
    return sites


def known_failed_sites():
    """sites of the obligations the last generator run found false (Gen/c08_failed.json), per year"""
    path = os.path.join(os.path.dirname(HERE), 'lean', 'HabuVerif', 'Gen', 'c08_failed.json')
    out = {}
    try:
        with open(path, encoding='utf-8') as fh:
            for f in json.load(fh):
                out.setdefault(int(f['year']), set()).add(f['site'])
    except (OSError, ValueError, KeyError):
        pass
    return out


def survey(years=YEARS, cmap=None):
    cmap = cmap if cmap is not None else (load_map() if os.path.exists(MAP_PATH) else {})
    failed = known_failed_sites()
    out = {}
    for y in years:
        out[str(y)] = classify(find_sites(y), cmap, failed_sites=failed.get(y, ()))
    return out


def summary(sv):
    res = {}
    for y, sites in sv.items():
        res[y] = {'sites': len(sites),
                  'checked': sum(1 for s in sites if s['state'] == 'checked'),
                  'mismatch': sum(1 for s in sites if s['state'] == 'mismatch'),
                  'ignored_with_reason': sum(1 for s in sites if s['state'] == 'ignored'),
                  'uncovered': sum(1 for s in sites if s['state'] == 'uncovered'),
                  'threshold_sites': sum(1 for s in sites if s['kind'] == 'threshold'),
                  'inline_sites': sum(1 for s in sites if s['kind'] == 'inline')}
    return res


def describe(s):
    where = f"{s['form']}.{s.get('line', '')}" if s['kind'] == 'inline' else f"{s['form']} thresholds[{s['name']!r}]"
    st = 'all' if s['statuses'] is None or len(s['statuses']) == 5 else ','.join(s['statuses'])
    extra = '' if s['kind'] == 'threshold' else f" {s['class']} {'/'.join(s['contexts'])}"
    return f"{s['year']} {where}: {fmt_num(s['value'])} [{st}]{extra}"


def main(argv=None):
    ap = argparse.ArgumentParser()
    ap.add_argument('--json')
    ap.add_argument('--year', type=int)
    ap.add_argument('--uncovered', action='store_true', help='print only the uncovered sites')
    ap.add_argument('--all', action='store_true', help='print every site with its coverage')
    args = ap.parse_args(argv)
    years = (args.year,) if args.year else YEARS
    sv = survey(years)
    if args.json:
        with open(args.json, 'w', encoding='utf-8') as fh:
            json.dump({'summary': summary(sv), 'sites': sv}, fh, indent=1, sort_keys=True, default=list)
            fh.write('\n')
    if args.all or args.uncovered:
        for y, sites in sv.items():
            for s in sites:
                if args.uncovered and s['state'] in ('checked', 'ignored'):
                    continue
                print(describe(s), '->', s['state'].upper(), ','.join(s['covered_by'] or []), s.get('why', ''))
    print(json.dumps(summary(sv), indent=1))
    return 0


if __name__ == '__main__':
    sys.exit(main())
