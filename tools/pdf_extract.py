#!/usr/bin/env python3
"""Minimal PDF form-field extractor (no third-party library, no pdftk).

For every template PDF under $HABUTAX_REPO/habutax/forms/ty20*/ (the `instructions/`
directories are skipped) it returns the terminal form fields named the way
`pdftk dump_data_fields` names them (fully-qualified /T chain joined with '.'),
with type, /MaxLen, button on-states, choice options, tooltip (/TU) and -- for IRS
templates, which carry an XFA packet -- the <speak>/<toolTip> text of the XFA field
with the same SOM path, plus a LINE LABEL parsed from the accessibility text by a
small fixed grammar (never guessed: ambiguous -> none).

Two independent routes are compared where possible:
  route A  AcroForm: Catalog -> /AcroForm -> /Fields -> /Kids ... (/T chain)
  route B  XFA template packet: subform/field/exclGroup tree with SOM indices
and any template where the two name sets differ is reported under "disagreements".

    python pdf_extract.py --out templates.json

Output: {"<pdf path relative to the repo>": {"fields": [...], "routes": {...},
         "disagreements": [...], "stats": {...}}, ...}

The object layer is a real (if small) PDF parser: tokenizer for all eight object
kinds, classic xref tables, xref streams (with PNG predictors), object streams,
incremental updates (the xref chain is followed through /Prev; a brute-force scan of
`n g obj` is used as a cross-check and as a fallback when the xref is unusable).
Anything the parser does not understand raises PDFError for that file and is
recorded as {"error": ...}: it never silently yields a partial tree.
"""
import argparse
import json
import os
import re
import sys
import zlib
import xml.etree.ElementTree as ET


class PDFError(Exception):
    pass


# --------------------------------------------------------------------------------------
# object model
# --------------------------------------------------------------------------------------
class Name(str):
    """A PDF name object (without the leading slash)."""
    __slots__ = ()

    def __repr__(self):
        return '/' + str.__str__(self)


class Ref(object):
    __slots__ = ('num', 'gen')

    def __init__(self, num, gen):
        self.num = num
        self.gen = gen

    def __repr__(self):
        return f'{self.num} {self.gen} R'

    def __eq__(self, other):
        return isinstance(other, Ref) and (self.num, self.gen) == (other.num, other.gen)

    def __hash__(self):
        return hash((self.num, self.gen))


class PStr(bytes):
    """A PDF string object (raw bytes after un-escaping)."""
    __slots__ = ()


class Stream(object):
    __slots__ = ('dict', 'raw')

    def __init__(self, d, raw):
        self.dict = d
        self.raw = raw


WS = b'\x00\t\n\x0c\r '
DELIM = b'()<>[]{}/%'

# PDFDocEncoding differs from latin-1 only in 0x18-0x1f and 0x80-0xa0
_PDFDOC = {
    0x18: '˘', 0x19: 'ˇ', 0x1a: 'ˆ', 0x1b: '˙', 0x1c: '˝', 0x1d: '˛',
    0x1e: '˚', 0x1f: '˜', 0x80: '•', 0x81: '†', 0x82: '‡', 0x83: '…',
    0x84: '—', 0x85: '–', 0x86: 'ƒ', 0x87: '⁄', 0x88: '‹', 0x89: '›',
    0x8a: '−', 0x8b: '‰', 0x8c: '„', 0x8d: '“', 0x8e: '”', 0x8f: '‘',
    0x90: '’', 0x91: '‚', 0x92: '™', 0x93: 'ﬁ', 0x94: 'ﬂ', 0x95: 'Ł',
    0x96: 'Œ', 0x97: 'Š', 0x98: 'Ÿ', 0x99: 'Ž', 0x9a: 'ı', 0x9b: 'ł',
    0x9c: 'œ', 0x9d: 'š', 0x9e: 'ž', 0xa0: '€',
}


def text_string(b):
    """Decode a PDF text string (UTF-16BE with BOM, UTF-8 with BOM, else PDFDocEncoding)."""
    if b is None:
        return None
    if not isinstance(b, (bytes, bytearray)):
        raise PDFError(f'text string expected, found {type(b).__name__}')
    b = bytes(b)
    if b[:2] == b'\xfe\xff':
        return b[2:].decode('utf-16-be')
    if b[:2] == b'\xff\xfe':
        return b[2:].decode('utf-16-le')
    if b[:3] == b'\xef\xbb\xbf':
        return b[3:].decode('utf-8')
    return ''.join(_PDFDOC.get(c, chr(c)) for c in b)


class Lexer(object):
    def __init__(self, data, pos=0):
        self.d = data
        self.p = pos

    def skip_ws(self):
        d = self.d
        n = len(d)
        while self.p < n:
            c = d[self.p]
            if c in WS:
                self.p += 1
            elif c == 0x25:  # % comment to end of line
                while self.p < n and d[self.p] not in b'\r\n':
                    self.p += 1
            else:
                break

    def peek(self):
        self.skip_ws()
        return self.d[self.p:self.p + 1]

    def _regular(self):
        d = self.d
        s = self.p
        n = len(d)
        while self.p < n and d[self.p] not in WS and d[self.p] not in DELIM:
            self.p += 1
        return d[s:self.p]

    def parse_object(self):
        """Parse one object at the current position (indirect references included)."""
        self.skip_ws()
        d = self.d
        if self.p >= len(d):
            raise PDFError('unexpected end of data')
        c = d[self.p]
        if c == 0x2f:  # /
            self.p += 1
            raw = self._regular()
            if b'#' in raw:
                raw = re.sub(rb'#([0-9A-Fa-f]{2})', lambda m: bytes([int(m.group(1), 16)]), raw)
            return Name(raw.decode('latin-1'))
        if c == 0x28:  # (
            return self._literal_string()
        if c == 0x3c:  # <
            if d[self.p + 1:self.p + 2] == b'<':
                return self._dict()
            return self._hex_string()
        if c == 0x5b:  # [
            self.p += 1
            out = []
            while True:
                self.skip_ws()
                if self.p >= len(d):
                    raise PDFError('unterminated array')
                if d[self.p] == 0x5d:
                    self.p += 1
                    return out
                out.append(self.parse_object())
        if c in b'+-.0123456789':
            return self._number_or_ref()
        tok = self._regular()
        if tok == b'true':
            return True
        if tok == b'false':
            return False
        if tok == b'null':
            return None
        raise PDFError(f'unexpected token {tok[:20]!r} at {self.p}')

    def _number_or_ref(self):
        tok = self._regular()
        try:
            if re.fullmatch(rb'[+-]?\d+', tok):
                val = int(tok)
            else:
                val = float(tok)
        except ValueError:
            raise PDFError(f'bad number {tok!r}')
        if isinstance(val, int) and val >= 0 and tok[:1] not in b'+-':
            save = self.p
            m = re.compile(rb'[\x00\t\n\x0c\r ]+(\d+)[\x00\t\n\x0c\r ]+R(?![^\x00\t\n\x0c\r ()<>\[\]{}/%])').match(self.d, self.p)
            if m:
                self.p = m.end()
                return Ref(val, int(m.group(1)))
            self.p = save
        return val

    def _literal_string(self):
        d = self.d
        assert d[self.p] == 0x28
        self.p += 1
        depth = 1
        out = bytearray()
        n = len(d)
        while True:
            if self.p >= n:
                raise PDFError('unterminated string')
            c = d[self.p]
            self.p += 1
            if c == 0x5c:  # backslash
                if self.p >= n:
                    raise PDFError('unterminated string')
                e = d[self.p]
                self.p += 1
                if e in b'nrtbf':
                    out.append({0x6e: 10, 0x72: 13, 0x74: 9, 0x62: 8, 0x66: 12}[e])
                elif e in b'()\\':
                    out.append(e)
                elif e in b'01234567':
                    v = e - 0x30
                    k = 0
                    while k < 2 and self.p < n and d[self.p] in b'01234567':
                        v = v * 8 + d[self.p] - 0x30
                        self.p += 1
                        k += 1
                    out.append(v & 0xff)
                elif e == 0x0d:
                    if self.p < n and d[self.p] == 0x0a:
                        self.p += 1
                elif e == 0x0a:
                    pass
                else:
                    out.append(e)
            elif c == 0x28:
                depth += 1
                out.append(c)
            elif c == 0x29:
                depth -= 1
                if depth == 0:
                    return PStr(bytes(out))
                out.append(c)
            elif c == 0x0d:
                # an unescaped end-of-line in a string is read as \n
                if self.p < n and d[self.p] == 0x0a:
                    self.p += 1
                out.append(0x0a)
            else:
                out.append(c)

    def _hex_string(self):
        d = self.d
        end = d.find(b'>', self.p)
        if end < 0:
            raise PDFError('unterminated hex string')
        body = bytes(c for c in d[self.p + 1:end] if c not in WS)
        if not re.fullmatch(rb'[0-9A-Fa-f]*', body):
            raise PDFError('bad hex string')
        if len(body) % 2:
            body += b'0'
        self.p = end + 1
        return PStr(bytes.fromhex(body.decode('ascii')))

    def _dict(self):
        d = self.d
        assert d[self.p:self.p + 2] == b'<<'
        self.p += 2
        out = {}
        while True:
            self.skip_ws()
            if self.p >= len(d):
                raise PDFError('unterminated dictionary')
            if d[self.p:self.p + 2] == b'>>':
                self.p += 2
                return out
            k = self.parse_object()
            if not isinstance(k, Name):
                raise PDFError(f'dictionary key is not a name: {k!r}')
            v = self.parse_object()
            out[str(k)] = v

    def parse_indirect(self):
        """Parse `n g obj ... endobj` at the current position -> (num, gen, object)."""
        self.skip_ws()
        m = re.compile(rb'(\d+)[\x00\t\n\x0c\r ]+(\d+)[\x00\t\n\x0c\r ]+obj').match(self.d, self.p)
        if not m:
            raise PDFError(f'indirect object expected at {self.p}')
        num, gen = int(m.group(1)), int(m.group(2))
        self.p = m.end()
        obj = self.parse_object()
        self.skip_ws()
        if self.d[self.p:self.p + 6] == b'stream':
            if not isinstance(obj, dict):
                raise PDFError('stream without dictionary')
            self.p += 6
            if self.d[self.p:self.p + 2] == b'\r\n':
                self.p += 2
            elif self.d[self.p:self.p + 1] in (b'\n', b'\r'):
                self.p += 1
            start = self.p
            obj = Stream(obj, (start, None))
            return num, gen, obj
        return num, gen, obj


def _png_unpredict(data, columns, colors=1, bpc=8):
    bpp = max(1, colors * bpc // 8)
    rowlen = (columns * colors * bpc + 7) // 8
    out = bytearray()
    prev = bytearray(rowlen)
    pos = 0
    while pos < len(data):
        ft = data[pos]
        row = bytearray(data[pos + 1:pos + 1 + rowlen])
        if len(row) < rowlen:
            break
        pos += 1 + rowlen
        if ft == 0:
            pass
        elif ft == 1:
            for i in range(bpp, rowlen):
                row[i] = (row[i] + row[i - bpp]) & 0xff
        elif ft == 2:
            for i in range(rowlen):
                row[i] = (row[i] + prev[i]) & 0xff
        elif ft == 3:
            for i in range(rowlen):
                left = row[i - bpp] if i >= bpp else 0
                row[i] = (row[i] + ((left + prev[i]) >> 1)) & 0xff
        elif ft == 4:
            for i in range(rowlen):
                a = row[i - bpp] if i >= bpp else 0
                b = prev[i]
                c = prev[i - bpp] if i >= bpp else 0
                p = a + b - c
                pa, pb, pc = abs(p - a), abs(p - b), abs(p - c)
                pr = a if (pa <= pb and pa <= pc) else (b if pb <= pc else c)
                row[i] = (row[i] + pr) & 0xff
        else:
            raise PDFError(f'bad PNG predictor row type {ft}')
        out += row
        prev = row
    return bytes(out)


class PDF(object):
    def __init__(self, data):
        self.data = data
        self.objects = {}       # num -> object (resolved lazily)
        self.xref = {}          # num -> ('f', offset) | ('c', stream num, index)
        self.trailer = {}
        self._objstm_cache = {}
        self.notes = []
        self.scan = self._scan_objects()
        try:
            self._read_xref_chain()
            self.route = 'xref'
        except PDFError as e:
            self.notes.append(f'xref unusable ({e}); falling back to object scan')
            self.xref = {}
            self.route = 'scan'
            self._xref_from_scan()

    # ---- locating objects --------------------------------------------------------
    def _scan_objects(self):
        """offsets of every `n g obj` in the file (last definition wins)"""
        out = {}
        for m in re.finditer(rb'(?<![0-9])(\d+)[\x00\t\n\x0c\r ]+(\d+)[\x00\t\n\x0c\r ]+obj(?=[\x00\t\n\x0c\r <\[(/]|\d)', self.data):
            out.setdefault(int(m.group(1)), []).append(m.start())
        return out

    def _xref_from_scan(self):
        for num, offs in self.scan.items():
            self.xref[num] = ('f', offs[-1])
        # trailer: the last `trailer` keyword or the last XRef stream
        t = self.data.rfind(b'trailer')
        if t >= 0:
            self.trailer = Lexer(self.data, t + 7).parse_object()
        # objects in object streams
        for num in sorted(self.scan):
            try:
                obj = self._load_at(self.scan[num][-1], num)
            except PDFError:
                continue
            if isinstance(obj, Stream) and obj.dict.get('Type') == 'XRef' and 'Root' in obj.dict:
                if not self.trailer or 'Root' not in self.trailer:
                    self.trailer = obj.dict
            if isinstance(obj, Stream) and obj.dict.get('Type') == 'ObjStm':
                for idx, (onum, _) in enumerate(self._objstm_index(num)):
                    if onum not in self.scan:
                        self.xref[onum] = ('c', num, idx)

    def _read_xref_chain(self):
        m = None
        for m in re.finditer(rb'startxref[\x00\t\n\x0c\r ]+(\d+)', self.data):
            pass
        if m is None:
            raise PDFError('no startxref')
        pos = int(m.group(1))
        seen = set()
        first = True
        while pos is not None:
            if pos in seen:
                raise PDFError('xref loop')
            seen.add(pos)
            lx = Lexer(self.data, pos)
            lx.skip_ws()
            if self.data[lx.p:lx.p + 4] == b'xref':
                trailer = self._read_classic_xref(lx.p + 4)
                if 'XRefStm' in trailer:
                    self._read_xref_stream(trailer['XRefStm'])
            else:
                trailer = self._read_xref_stream(pos)
            if first:
                self.trailer = trailer
                first = False
            pos = trailer.get('Prev')
            if pos is not None and not isinstance(pos, int):
                raise PDFError('bad /Prev')
        if 'Root' not in self.trailer:
            raise PDFError('no /Root in trailer')

    def _read_classic_xref(self, p):
        lx = Lexer(self.data, p)
        while True:
            lx.skip_ws()
            if self.data[lx.p:lx.p + 7] == b'trailer':
                lx.p += 7
                t = lx.parse_object()
                if not isinstance(t, dict):
                    raise PDFError('bad trailer')
                return t
            m = re.compile(rb'(\d+)[\x00\t\n\x0c\r ]+(\d+)[\x00\t\n\x0c\r ]*').match(self.data, lx.p)
            if not m:
                raise PDFError('bad xref subsection')
            start, count = int(m.group(1)), int(m.group(2))
            lx.p = m.end()
            for i in range(count):
                e = re.compile(rb'(\d{10}) (\d{5}) ([nf])[\x00\t\n\x0c\r ]*').match(self.data, lx.p)
                if not e:
                    raise PDFError('bad xref entry')
                lx.p = e.end()
                if e.group(3) == b'n':
                    self.xref.setdefault(start + i, ('f', int(e.group(1))))
                else:
                    self.xref.setdefault(start + i, ('free',))

    def _read_xref_stream(self, pos):
        lx = Lexer(self.data, pos)
        num, gen, obj = lx.parse_indirect()
        if not isinstance(obj, Stream) or obj.dict.get('Type') != 'XRef':
            raise PDFError('xref stream expected')
        d = obj.dict
        data = self._stream_data(obj, allow_indirect_length=False)
        w = d.get('W')
        size = d.get('Size')
        index = d.get('Index', [0, size])
        if not (isinstance(w, list) and len(w) == 3):
            raise PDFError('bad /W')
        rl = sum(w)
        p = 0
        for k in range(0, len(index), 2):
            start, count = index[k], index[k + 1]
            for i in range(count):
                rec = data[p:p + rl]
                if len(rec) < rl:
                    raise PDFError('short xref stream')
                p += rl
                f = []
                q = 0
                for wi in w:
                    f.append(int.from_bytes(rec[q:q + wi], 'big') if wi else None)
                    q += wi
                typ = 1 if f[0] is None else f[0]
                if typ == 0:
                    self.xref.setdefault(start + i, ('free',))
                elif typ == 1:
                    self.xref.setdefault(start + i, ('f', f[1]))
                elif typ == 2:
                    self.xref.setdefault(start + i, ('c', f[1], f[2] or 0))
                else:
                    pass
        return d

    # ---- loading objects ----------------------------------------------------------
    def _load_at(self, offset, expect_num=None):
        lx = Lexer(self.data, offset)
        num, gen, obj = lx.parse_indirect()
        if expect_num is not None and num != expect_num:
            raise PDFError(f'object {expect_num} expected at {offset}, found {num}')
        return obj

    def _stream_data(self, st, allow_indirect_length=True):
        start = st.raw[0]
        length = st.dict.get('Length')
        if isinstance(length, Ref):
            if not allow_indirect_length:
                length = None
            else:
                length = self.get(length)
        end = None
        if isinstance(length, int):
            end = start + length
            tail = self.data[end:end + 20].lstrip(b'\r\n \t')
            if not tail.startswith(b'endstream'):
                end = None
        if end is None:
            e = self.data.find(b'endstream', start)
            if e < 0:
                raise PDFError('endstream not found')
            end = e
            while end > start and self.data[end - 1] in b'\r\n':
                end -= 1
                if self.data[end] == 0x0a and end > start and self.data[end - 1] == 0x0d:
                    end -= 1
                break
        raw = self.data[start:end]
        filters = st.dict.get('Filter', [])
        parms = st.dict.get('DecodeParms', st.dict.get('DP'))
        if isinstance(filters, Ref):
            filters = self.get(filters)
        if isinstance(parms, Ref):
            parms = self.get(parms)
        if not isinstance(filters, list):
            filters = [filters]
        if not isinstance(parms, list):
            parms = [parms] * len(filters)
        for flt, prm in zip(filters, parms):
            if isinstance(prm, Ref):
                prm = self.get(prm)
            if flt in ('FlateDecode', 'Fl'):
                try:
                    raw = zlib.decompress(raw)
                except zlib.error:
                    dobj = zlib.decompressobj()
                    try:
                        raw = dobj.decompress(raw)
                    except zlib.error as e:
                        raise PDFError(f'flate error: {e}')
                if prm:
                    pred = prm.get('Predictor', 1)
                    if pred >= 10:
                        raw = _png_unpredict(raw, prm.get('Columns', 1), prm.get('Colors', 1), prm.get('BitsPerComponent', 8))
                    elif pred != 1:
                        raise PDFError(f'unsupported predictor {pred}')
            elif flt in ('ASCIIHexDecode', 'AHx'):
                body = bytes(c for c in raw.split(b'>')[0] if c not in WS)
                if len(body) % 2:
                    body += b'0'
                raw = bytes.fromhex(body.decode('ascii'))
            else:
                raise PDFError(f'unsupported stream filter {flt}')
        return raw

    def _objstm_index(self, stm_num):
        if stm_num in self._objstm_cache:
            return self._objstm_cache[stm_num][0]
        st = self._get_num(stm_num)
        if not isinstance(st, Stream) or st.dict.get('Type') != 'ObjStm':
            raise PDFError(f'object {stm_num} is not an object stream')
        data = self._stream_data(st)
        n = st.dict['N']
        first = st.dict['First']
        head = data[:first].split()
        if len(head) < 2 * n:
            raise PDFError('short object stream header')
        idx = [(int(head[2 * i]), int(head[2 * i + 1])) for i in range(n)]
        self._objstm_cache[stm_num] = (idx, data, first)
        return idx

    def _get_num(self, num):
        if num in self.objects:
            return self.objects[num]
        e = self.xref.get(num)
        if e is None or e[0] == 'free':
            obj = None
        elif e[0] == 'f':
            obj = self._load_at(e[1], num)
        else:
            idx = self._objstm_index(e[1])
            _, data, first = self._objstm_cache[e[1]]
            k = e[2]
            if k >= len(idx) or idx[k][0] != num:
                # tolerate a wrong index by searching the stream's own table
                ks = [j for j, (on, _) in enumerate(idx) if on == num]
                if not ks:
                    raise PDFError(f'object {num} not in object stream {e[1]}')
                k = ks[0]
            obj = Lexer(data, first + idx[k][1]).parse_object()
        self.objects[num] = obj
        return obj

    def get(self, o):
        """resolve indirect references (repeatedly)"""
        n = 0
        while isinstance(o, Ref):
            o = self._get_num(o.num)
            n += 1
            if n > 50:
                raise PDFError('reference loop')
        return o

    def stream_bytes(self, o):
        o = self.get(o)
        if not isinstance(o, Stream):
            raise PDFError('stream expected')
        return self._stream_data(o)


# --------------------------------------------------------------------------------------
# route A: AcroForm field tree
# --------------------------------------------------------------------------------------
def _inherit(pdf, node, key, chain):
    for d in [node] + chain[::-1]:
        if key in d:
            return pdf.get(d[key])
    return None


def _ap_states(pdf, widget):
    """names of the appearance states of a widget (keys of /AP /N and /AP /D)"""
    states = []
    ap = pdf.get(widget.get('AP'))
    if isinstance(ap, dict):
        for sub in ('N', 'D'):
            s = pdf.get(ap.get(sub))
            if isinstance(s, dict):
                for k in s:
                    if k not in states:
                        states.append(k)
    return states


def acroform_fields(pdf):
    root = pdf.get(pdf.trailer.get('Root'))
    if not isinstance(root, dict):
        raise PDFError('no document catalog')
    af = pdf.get(root.get('AcroForm'))
    if not isinstance(af, dict):
        return None, []
    fields_arr = pdf.get(af.get('Fields')) or []
    out = []
    seen = set()

    def walk(ref, chain, names):
        node = pdf.get(ref)
        if not isinstance(node, dict):
            raise PDFError('field is not a dictionary')
        key = ref.num if isinstance(ref, Ref) else id(node)
        if key in seen:
            raise PDFError('field tree is not a tree')
        seen.add(key)
        t = node.get('T')
        t = pdf.get(t)
        my_names = names + ([text_string(t)] if t is not None else [])
        kids = pdf.get(node.get('Kids')) or []
        kid_nodes = [pdf.get(k) for k in kids]
        # a kid is a sub-FIELD when it has /T, otherwise a pure widget of this field
        field_kids = [k for k, kn in zip(kids, kid_nodes) if isinstance(kn, dict) and 'T' in kn]
        widget_kids = [kn for kn in kid_nodes if isinstance(kn, dict) and 'T' not in kn]
        if field_kids and widget_kids:
            raise PDFError(f'field {".".join(my_names)} mixes named kids and widgets')
        if field_kids:
            for k in field_kids:
                walk(k, chain + [node], my_names)
            return
        # terminal field
        ft = _inherit(pdf, node, 'FT', chain)
        ff = _inherit(pdf, node, 'Ff', chain) or 0
        maxlen = _inherit(pdf, node, 'MaxLen', chain)
        tu = pdf.get(node.get('TU'))
        widgets = widget_kids if widget_kids else [node]
        rec = {
            'name': '.'.join(my_names),
            'type': str(ft) if ft is not None else None,
            'flags': ff,
            'max_len': maxlen if isinstance(maxlen, int) else None,
            'tooltip': (text_string(tu) or None) if tu is not None else None,
            'n_widgets': len(widgets),
            'obj': ref.num if isinstance(ref, Ref) else None,
        }
        if ft == 'Btn':
            is_push = bool(ff & (1 << 16))
            is_radio = bool(ff & (1 << 15))
            rec['button_kind'] = 'push' if is_push else ('radio' if is_radio else 'check')
            states = []
            kid_states = []
            for w in widgets:
                ws = [s for s in _ap_states(pdf, w) if s != 'Off']
                kid_states.append(ws)
                for s in ws:
                    if s not in states:
                        states.append(s)
            rec['on_states'] = states
            rec['kid_states'] = kid_states if widget_kids else None
            opt = pdf.get(node.get('Opt'))
            if isinstance(opt, list):
                rec['opt'] = [text_string(pdf.get(o)) for o in opt]
        if ft == 'Ch':
            opt = _inherit(pdf, node, 'Opt', chain)
            opts = []
            if isinstance(opt, list):
                for o in opt:
                    o = pdf.get(o)
                    if isinstance(o, list):
                        # [export value, display text]
                        opts.append([text_string(pdf.get(o[0])), text_string(pdf.get(o[1]))])
                    else:
                        opts.append(text_string(o))
            rec['options'] = opts
            rec['combo'] = bool(ff & (1 << 17))
        out.append(rec)

    for f in fields_arr:
        walk(f, [], [])
    return af, out


# --------------------------------------------------------------------------------------
# route B: XFA template
# --------------------------------------------------------------------------------------
def _local(tag):
    return tag.rsplit('}', 1)[-1]


def xfa_packets(pdf, af):
    xfa = pdf.get(af.get('XFA')) if af else None
    if xfa is None:
        return None
    if isinstance(xfa, Stream):
        return {'xdp': pdf._stream_data(xfa)}
    if not isinstance(xfa, list) or len(xfa) % 2:
        raise PDFError('bad /XFA array')
    out = {}
    for i in range(0, len(xfa), 2):
        name = text_string(pdf.get(xfa[i]))
        out.setdefault(name, b'')
        out[name] += pdf.stream_bytes(xfa[i + 1])
    return out


def _elem_text(e):
    return ''.join(e.itertext()) if e is not None else None


def xfa_fields(template_bytes):
    """Walk the XFA template; return [{name (SOM path), kind, speak, tooltip, items, max_chars, comb}]"""
    root = ET.fromstring(template_bytes)
    if _local(root.tag) != 'template':
        # whole-xdp packet
        t = [e for e in root.iter() if _local(e.tag) == 'template']
        if not t:
            raise PDFError('no XFA template element')
        root = t[0]
    out = []

    CONTAINERS = ('subform', 'subformSet', 'area', 'exclGroup')

    def child(e, name):
        for c in e:
            if _local(c.tag) == name:
                return c
        return None

    def assist_texts(e):
        a = child(e, 'assist')
        if a is None:
            return None, None
        return _elem_text(child(a, 'speak')), _elem_text(child(a, 'toolTip'))

    def walk(e, path):
        # index children by name among same-named named siblings (SOM [n])
        counts = {}
        for c in e:
            tag = _local(c.tag)
            if tag not in CONTAINERS and tag not in ('field', 'draw'):
                continue
            name = c.get('name')
            if tag in ('area', 'subformSet') and name is None:
                # transparent containers
                walk(c, path)
                continue
            if name is None:
                if tag in ('subform', 'exclGroup'):
                    # unnamed subform: children are scoped to the parent for naming purposes
                    walk(c, path)
                continue
            idx = counts.get(name, 0)
            counts[name] = idx + 1
            seg = f'{name}[{idx}]'
            if tag == 'draw':
                continue
            if tag == 'field':
                speak, tip = assist_texts(c)
                ui = child(c, 'ui')
                kind = None
                max_chars = None
                comb = None
                if ui is not None:
                    for u in ui:
                        lt = _local(u.tag)
                        if lt in ('textEdit', 'checkButton', 'choiceList', 'numericEdit', 'dateTimeEdit',
                                  'button', 'signature', 'barcode', 'imageEdit', 'passwordEdit'):
                            kind = lt
                            cb = child(u, 'comb')
                            if cb is not None and cb.get('numberOfCells'):
                                comb = int(cb.get('numberOfCells'))
                val = child(c, 'value')
                if val is not None:
                    for v in val:
                        if v.get('maxChars'):
                            max_chars = int(v.get('maxChars'))
                items = []
                for it in c:
                    if _local(it.tag) == 'items':
                        items.append([_elem_text(x) for x in it])
                out.append({'name': '.'.join(path + [seg]), 'kind': kind, 'speak': speak, 'tooltip': tip,
                            'items': items, 'max_chars': max_chars, 'comb': comb, 'excl_group': None})
            elif tag == 'exclGroup':
                speak, tip = assist_texts(c)
                members = []
                for f in c:
                    if _local(f.tag) == 'field':
                        fs, ftip = assist_texts(f)
                        its = [[_elem_text(x) for x in it] for it in f if _local(it.tag) == 'items']
                        members.append({'name': f.get('name'), 'speak': fs, 'tooltip': ftip, 'items': its})
                out.append({'name': '.'.join(path + [seg]), 'kind': 'exclGroup', 'speak': speak, 'tooltip': tip,
                            'items': [], 'max_chars': None, 'comb': None, 'excl_group': members})
            else:
                walk(c, path + [seg])

    # the template's top-level subform is itself named (topmostSubform / form1)
    walk(root, [])
    return out


# --------------------------------------------------------------------------------------
# line labels
# --------------------------------------------------------------------------------------
# Grammar (fixed on the unchanged tree; see label_from_text.__doc__)
_PAGE = re.compile(r'^(?:Page|PAGE)\s+\d+\s*[.:,]\s*')
# a digit-free "title" sentence: "Refund. ", "Part I I. ", "Direct Deposit? ", "Amount You Owe. "
_TITLE = re.compile(r'^[^0-9.?]{1,160}[.?]\s+')
_LABEL = re.compile(r'^(?:(Line|LINE|line)\s+)?([1-9]\d?)(?:\s?([a-z])(?![A-Za-z]))?(?![0-9])\s*([.:)]|\s|$)')
_SUBITEM = re.compile(r'(?:^|[\s:(])[a-z]\.(?:\s|$)|(?:^|[.:]\s)[A-Z]\.(?:\s|$)')
MAX_TITLES = 4


def label_from_text(text):
    """Parse a leading line label from accessibility text.  Returns (label, reason).

    label is e.g. '1a', '12', '25d' (lower case, no space) or None.  Fixed, deliberately narrow
    grammar (anything else -> None, never a guess):

      text   := ["Page" N "."] title{0..4} label
      title  := a sentence without any digit, at most 160 characters, ended by "." or "?" and
                white space ("Refund. ", "Part I I. ", "Direct Deposit? See instructions. ")
      label  := ["Line "] NUM [[" "] LETTER] TERM
      NUM    := 1..99 without leading zero, not followed by another digit
      LETTER := one lower-case letter not followed by a letter ("8 a", "25d")
      TERM   := "." | ":" | ")"          (or white space / end of text when "Line" introduced it)

    Ambiguity rules (-> None):
      * a bare NUM (no LETTER) whose remaining text contains a sub-item marker such as
        ": a. " or ". A. " ("25. Federal income tax withheld from: a. Form(s) W-2." is line 25a,
        but the grammar cannot know that) ;
      * a NUM followed only by white space without the word "Line" ("2 Taxable interest").
    """
    if not text:
        return None, 'no text'
    t = text.strip()
    m = _PAGE.match(t)
    if m:
        t = t[m.end():]
    for _ in range(MAX_TITLES + 1):
        m = _LABEL.match(t)
        if m:
            break
        tm = _TITLE.match(t)
        if not tm:
            return None, 'no leading label'
        t = t[tm.end():]
    else:
        return None, 'no leading label'
    m = _LABEL.match(t)
    if not m:
        return None, 'no leading label'
    had_line, num, letter, term = m.group(1), m.group(2), m.group(3), m.group(4)
    if term not in ('.', ':', ')') and not had_line:
        return None, 'number without punctuation'
    rest = t[m.end():]
    if letter is None and _SUBITEM.search(rest):
        return None, 'bare number followed by a lettered sub-item'
    return num + (letter or ''), 'ok'


_LINE_NAME = re.compile(r'^([1-9]\d?[a-z]?)(?:_(.+))?$')
_DERIVED = re.compile(r'^(?:gt|lt|ge|le|eq|ne)_\d+[a-z]?$')


def line_label_of_name(line_name):
    """Line label carried by a habutax line NAME (the mapping side of the label check).

    '7' -> '7', '25d' -> '25d', '7_checkbox' -> '7', '8b_desc' -> '8b', '1_payer_0' -> '1';
    qualified names ('1040.you_ssn'), descriptive names ('first_name') and derived predicates
    over two lines ('8_gt_11') carry no label -> None."""
    if '.' in line_name:
        return None
    m = _LINE_NAME.match(line_name)
    if not m:
        return None
    if m.group(2) is not None and _DERIVED.match(m.group(2)):
        return None
    return m.group(1)


# NC templates carry no tooltip; the widget NAME carries the line: y_d400wf_li6_good -> '6',
# y_d400wf_li10b_good -> '10b', y_d400wf_li12a_pg1_good -> '12a', y_d400_sch_a_wf_li7a -> '7a'.  Only the
# pattern `_li<NUM><letter?>[_pg<n>|_page<n>][_good]` at the END of the name is read.
_NC_NAME = re.compile(r'_li([1-9]\d?)([a-z]?)(?:_(?:pg|page)\d+)?(?:_good)?$')


def label_from_nc_name(name):
    m = _NC_NAME.search(name)
    if not m:
        return None
    return m.group(1) + m.group(2)


# --------------------------------------------------------------------------------------
# per-file extraction
# --------------------------------------------------------------------------------------
def extract(path):
    with open(path, 'rb') as fh:
        data = fh.read()
    pdf = PDF(data)
    af, fields = acroform_fields(pdf)
    res = {'fields': [], 'routes': {}, 'disagreements': [], 'stats': {}, 'notes': list(pdf.notes)}
    res['routes']['object_route'] = pdf.route
    res['routes']['acroform'] = len(fields)
    # cross-check of the object layer: every object found by scanning that the xref also
    # knows must be at the offset the xref says (for the live generation)
    if pdf.route == 'xref':
        bad = 0
        for num, e in pdf.xref.items():
            if e[0] == 'f' and (num not in pdf.scan or e[1] not in pdf.scan[num]):
                # tolerate leading white space before the object header
                m = re.compile(rb'[\x00\t\n\x0c\r ]*(\d+)').match(data, e[1])
                if not (m and int(m.group(1)) == num):
                    bad += 1
        res['stats']['xref_entries_not_at_scanned_offset'] = bad
    res['stats']['objects'] = len([1 for e in pdf.xref.values() if e[0] != 'free'])

    xfa = None
    packets = xfa_packets(pdf, af) if af else None
    if packets is not None:
        if 'template' in packets:
            xfa = xfa_fields(packets['template'])
        elif 'xdp' in packets:
            xfa = xfa_fields(packets['xdp'])
        res['routes']['xfa_packets'] = sorted(packets)
    res['routes']['xfa'] = None if xfa is None else len(xfa)

    xfa_by_name = {}
    if xfa is not None:
        for x in xfa:
            if x['name'] in xfa_by_name:
                res['disagreements'].append({'what': 'duplicate XFA SOM name', 'name': x['name']})
            xfa_by_name[x['name']] = x

    names_a = [f['name'] for f in fields]
    if len(set(names_a)) != len(names_a):
        dup = sorted({n for n in names_a if names_a.count(n) > 1})
        res['disagreements'].append({'what': 'duplicate AcroForm field name', 'names': dup})

    if xfa is not None:
        # XFA exclGroup <-> AcroForm radio parent; XFA field <-> AcroForm terminal field.
        set_a = set(names_a)
        set_b = set(xfa_by_name)
        # push buttons / barcodes exist on both sides normally; compare verbatim
        only_a = sorted(set_a - set_b)
        only_b = sorted(set_b - set_a)
        if only_a or only_b:
            res['disagreements'].append({'what': 'AcroForm and XFA name sets differ',
                                         'only_acroform': only_a, 'only_xfa': only_b})
        res['stats']['names_common'] = len(set_a & set_b)

    labelled = 0
    for f in fields:
        rec = dict(f)
        x = xfa_by_name.get(f['name'])
        rec['xfa'] = None
        if x is not None:
            rec['xfa'] = {'kind': x['kind'], 'speak': x['speak'], 'tooltip': x['tooltip'],
                          'items': x['items'], 'max_chars': x['max_chars'], 'comb': x['comb'],
                          'excl_group': x['excl_group']}
            # second opinion on on-states and max length
            if f['type'] == 'Btn' and x['kind'] == 'checkButton' and x['items']:
                xon = x['items'][0][0] if x['items'][0] else None
                if xon is not None and f.get('on_states') and xon not in f['on_states']:
                    res['disagreements'].append({'what': 'on-state differs', 'name': f['name'],
                                                 'acroform': f['on_states'], 'xfa': xon})
            xm = x['max_chars'] if x['max_chars'] is not None else x['comb']
            if f['type'] == 'Tx' and (xm or None) != (f['max_len'] or None):
                if x['max_chars'] is not None and f['max_len'] is not None and x['max_chars'] != f['max_len']:
                    res['disagreements'].append({'what': 'max length differs', 'name': f['name'],
                                                 'acroform': f['max_len'], 'xfa_maxChars': x['max_chars'], 'xfa_comb': x['comb']})
        # label: from the accessibility text (speak, else toolTip, else /TU); the two sources must agree
        texts = []
        if x is not None:
            if x['speak']:
                texts.append(('speak', x['speak']))
            if x['tooltip']:
                texts.append(('toolTip', x['tooltip']))
        if f['tooltip']:
            texts.append(('TU', f['tooltip']))
        label = None
        label_src = None
        labels = []
        for src, t in texts:
            lab, why = label_from_text(t)
            labels.append((src, lab))
        found = {lab for _, lab in labels if lab is not None}
        if len(found) == 1:
            label = found.pop()
            label_src = [s for s, lab in labels if lab == label][0]
        elif len(found) > 1:
            label = None
            label_src = 'conflict'
        if label is None and not texts:
            nl = label_from_nc_name(f['name'])
            if nl is not None:
                label = nl
                label_src = 'nc-name'
        rec['label'] = label
        rec['label_source'] = label_src
        rec['access_text'] = texts[0][1] if texts else None
        if label is not None:
            labelled += 1
        res['fields'].append(rec)
    res['stats']['labelled'] = labelled
    res['stats']['fields'] = len(fields)
    return res


def template_paths(repo):
    base = os.path.join(repo, 'habutax', 'forms')
    out = []
    for ydir in sorted(os.listdir(base)):
        if not re.fullmatch(r'ty20\d\d', ydir):
            continue
        d = os.path.join(base, ydir)
        for fn in sorted(os.listdir(d)):
            if fn.lower().endswith('.pdf') and os.path.isfile(os.path.join(d, fn)):
                out.append(os.path.join(d, fn))
    return out


def extract_all(repo=None):
    repo = repo or os.environ.get('HABUTAX_REPO', '/repo')
    out = {}
    for p in template_paths(repo):
        rel = os.path.relpath(p, repo)
        try:
            out[rel] = extract(p)
        except (PDFError, ET.ParseError, zlib.error, RecursionError, KeyError, IndexError, TypeError, ValueError) as e:
            out[rel] = {'error': f'{type(e).__name__}: {e}', 'fields': [], 'routes': {}, 'disagreements': [],
                        'stats': {}, 'notes': []}
    return out


_SRC_ENTRY = re.compile(r"^\s*#?\s*#?\s*(Text|Button|Choice|OptionlessButton)PDFField\('((?:[^'\\]|\\.)*)',\s*'((?:[^'\\]|\\.)*)'(.*)$")


def source_crosscheck(extracted, repo=None):
    """Third route: the form sources keep the complete `pdftk dump_data_fields` listing of every template
    (entries that habutax does not fill are commented out).  Compare every such entry -- commented or not --
    with the extracted tree: name found, widget type, max_length, button on-state, choice list.
    Returns {"entries": n, "templates": n, "disagreements": [...]}.  Pure text scan; nothing is imported."""
    import ast
    repo = repo or os.environ.get('HABUTAX_REPO', '/repo')
    base = os.path.join(repo, 'habutax', 'forms')
    out = {'entries': 0, 'templates': 0, 'disagreements': [], 'template_fields_not_listed': {}}
    for ydir in sorted(os.listdir(base)):
        if not re.fullmatch(r'ty20\d\d', ydir):
            continue
        for fn in sorted(os.listdir(os.path.join(base, ydir))):
            if not fn.endswith('.py'):
                continue
            with open(os.path.join(base, ydir, fn), encoding='utf-8') as fh:
                src = fh.read()
            m = re.search(r"pdf_file = os\.path\.join\(os\.path\.dirname\(__file__\), '([^']+)'\)", src)
            if not m:
                continue
            rel = os.path.join('habutax', 'forms', ydir, m.group(1))
            tpl = extracted.get(rel)
            if tpl is None:
                out['disagreements'].append({'what': 'template named in source was not extracted', 'template': rel})
                continue
            out['templates'] += 1
            tf = {x['name']: x for x in tpl['fields']}
            seen = set()
            for line in src.split('\n'):
                mm = _SRC_ENTRY.match(line)
                if not mm:
                    continue
                kind, name, _val, rest = mm.groups()
                out['entries'] += 1
                seen.add(name)
                x = tf.get(name)
                if x is None:
                    out['disagreements'].append({'what': 'source entry not found in the extracted template', 'template': rel, 'name': name})
                    continue
                want = {'Text': 'Tx', 'Button': 'Btn', 'Choice': 'Ch', 'OptionlessButton': 'Btn'}[kind]
                if x['type'] != want:
                    out['disagreements'].append({'what': 'widget type', 'template': rel, 'name': name, 'source': kind, 'extracted': x['type']})
                ml = re.search(r'max_length=(\d+)', rest)
                if kind == 'Text' and (int(ml.group(1)) if ml else None) != x['max_len']:
                    out['disagreements'].append({'what': 'max length', 'template': rel, 'name': name,
                                                 'source': ml.group(1) if ml else None, 'extracted': x['max_len']})
                if kind == 'Button':
                    tv = re.match(r"\s*,\s*'([^']*)'", rest)
                    if not tv or [tv.group(1)] != x.get('on_states'):
                        out['disagreements'].append({'what': 'on-state', 'template': rel, 'name': name,
                                                     'source': tv.group(1) if tv else None, 'extracted': x.get('on_states')})
                if kind == 'Choice':
                    ch = re.match(r'\s*,\s*(\[[^\]]*\])', rest)
                    opts = [o[0] if isinstance(o, list) else o for o in x.get('options', [])]
                    try:
                        lst = ast.literal_eval(ch.group(1)) if ch else None
                    except (ValueError, SyntaxError):
                        lst = None
                    if lst != opts:
                        out['disagreements'].append({'what': 'choice list', 'template': rel, 'name': name,
                                                     'source': lst, 'extracted': opts})
            missing = sorted(n for n in tf if n not in seen)
            if missing:
                # informational: Schedule B builds its rows in a loop, so they are not literal source entries
                out['template_fields_not_listed'][rel] = len(missing)
    return out


def main(argv=None):
    ap = argparse.ArgumentParser()
    ap.add_argument('--out', required=True)
    ap.add_argument('--repo', default=None)
    ap.add_argument('--summary', action='store_true', help='print a per-template summary on stderr')
    args = ap.parse_args(argv)
    res = extract_all(args.repo)
    tmp = args.out + '.tmp'
    with open(tmp, 'w') as fh:
        json.dump(res, fh, indent=1, sort_keys=True, ensure_ascii=True)
        fh.write('\n')
    os.replace(tmp, args.out)
    if args.summary:
        for k, v in res.items():
            print(k, v.get('error') or '', v['routes'], v['stats'], 'disagreements:', len(v['disagreements']), file=sys.stderr)
    return 0


if __name__ == '__main__':
    sys.exit(main())
