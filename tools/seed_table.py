#!/usr/bin/env python3
"""Development-time helper: markdown table of the seeds of the given rounds for DESIGN.md section 12 from seeded/*/meta.json and
seeded/RESULTS.json.    tools/seed_table.py d e"""
import json
import os
import sys

VERIF = os.path.dirname(os.path.dirname(os.path.abspath(__file__)))
FIRST = {  # what the checks reported when the seed was first run, before any strengthening
    'C02d': 'tie broke, no input', 'C04d': 'missed', 'C06d': 'tie broke, no input', 'C08d': 'caught', 'C09d': 'caught', 'C10d': 'caught',
    'C12d': 'caught', 'C15d': 'missed', 'C16d': 'missed', 'C17d': 'caught', 'C18d': 'caught', 'C19d': 'missed', 'C20d': 'tie broke, no input',
    'C01e': 'caught', 'C02e': 'missed', 'C03e': 'caught', 'C04e': 'caught', 'C05e': 'missed (masked by a known finding)', 'C06e': 'hung',
    'C07e': 'caught', 'C08e': 'caught', 'C09e': 'missed', 'C10e': 'caught', 'C11e': 'tie broke, no input', 'C12e': 'tie broke, no input',
    'C13e': 'tie broke, no input', 'C14e': 'caught', 'C15e': 'missed', 'C16e': 'missed', 'C17e': 'caught', 'C18e': 'caught', 'C19e': 'missed',
    'C20e': 'caught',
    'C01f': 'missed', 'C02f': 'caught', 'C03f': 'caught', 'C09f': 'caught', 'C10f': 'caught', 'C13f': 'caught', 'C15f': 'caught',
    'C16f': 'missed', 'C17f': 'caught', 'C18f': 'caught',
    'C01g': 'missed', 'C03g': 'missed', 'C04g': 'caught', 'C05g': 'tie broke, no input', 'C06g': 'caught', 'C07g': 'tie broke, no input',
    'C08g': 'caught', 'C09g': 'missed', 'C11g': 'missed', 'C12g': 'missed', 'C13g': 'caught', 'C14g': 'caught', 'C15g': 'caught',
    'C16g': 'missed', 'C19g': 'missed', 'C20g': 'caught',
    'C02g': 'missed', 'C10g': 'tie broke, no input', 'C17g': 'caught', 'C18g': 'caught'}
SHORT = {
    'C02d': '2021 Schedule A line 8e drops line 8d', 'C04d': 'unset enumeration lines dropped from the returned solution',
    'C06d': 'waiters of a REFUSED input are released (meet moved out of the if)', 'C08d': '2021 EIC one-child limits transposed between MFJ and the others',
    'C09d': '2021 form_8959_required no longer raises for RRTA / self-employment', 'C10d': 'stale enumeration member in a 2021-only worksheet',
    'C12d': 'blank convention weakened to the exact empty string', 'C15d': '2021 Schedule 8812 additional tax can go negative',
    'C16d': '2022 line 25b sums the 1099-INT withholding over the 1099-DIV count', 'C17d': 'duplicate input name in the 2022 Form 1099-G',
    'C18d': 'NC D-400 page-2 surname box may exceed its template length', 'C19d': '2023 Form 8959 attachment sequence number transposed',
    'C20d': 'write-back drops sections whose answers are all blank',
    'C01e': 'unmet_field_dependencies() reports the INPUT tracker', 'C02e': '2023 Form 8995 line 13: max(0, a-b) became max(0, a)-b',
    'C03e': 'accessor pair cached per base form name: w-2:0 reads through w-2:1', 'C04e': 'forms registered under the base name (w-2, not w-2:0)',
    'C05e': '2023 lines 2b/3b also look at which forms the solver has loaded', 'C06e': 'unknown line of a loaded form: the form is reloaded and re-queued for ever',
    'C07e': 'one 2021 tax-table cell (HoH, 54,200) off by 3', 'C08e': '2021 Schedule A compares the status with the 2022+ enumeration (MFS SALT cap 10,000)',
    'C09e': '2021 line 1: only the LAST W-2 decides the statutory-employee gate', 'C10e': "2022 Form 8889 line 6 calls not_implemented on the Form object",
    'C11e': 'SSNInput.valid uses str.isdigit (accepts non-ASCII digits)', 'C12e': 'FloatField.value blanks results below 0.001 before rounding (places 5)',
    'C13e': 'input file parser created with interpolation on', 'C14e': 'EnumField.to_string writes None for a blank member',
    'C15e': '2022 Form 8606 line 15a subtracts line 13 instead of 12', 'C16e': '2023 line 25c: Additional Medicare withholding REPLACES other withholding',
    'C17e': "2023 Form 8889 valid_instances says 'taxpayer', the constructor wants 'you'", 'C18e': '2023 filing-status check boxes use the 2022 export values',
    'C19e': 'fill_pdfs reads the solution with interpolation on', 'C20e': 'input file parser gets inline # comments',
    'C01f': '`habutax solve` names only the FIRST kind of problem (if/elif)', 'C02f': '2022 NC Schedule A line 7d subtracts the wrong way round',
    'C03f': 'a line that hit not_implemented() is stored as its blank value and its waiters are released',
    'C09f': '2022 Schedule B line 8 (foreign trust) returns the answer instead of not_implemented()',
    'C10f': '2023 Credit Limit Worksheet A reads Schedule 3 lines through i[...] (RecursionError)',
    'C13f': 'the needed_by list shown at the prompt accumulates over the questions of a pass',
    'C15f': '2022 NC D-400 line 26a (tax due) computed as payments minus tax', 'C16f': '2021 Schedule A line 5a adds 1099-G box 4 (FEDERAL withholding) to the state taxes',
    'C17f': 'duplicate line name in the 2023 NC D-400', 'C18f': '2023 Schedule 8812: the two widgets of line 16b transposed',
    'C01g': 'UnmetDependency / MissingInput become KeyErrors: `v.get(k)` and `k in v` swallow the demand',
    'C03g': 'ValueStore.to_config strips the text it writes: returned text lines differ from what their definitions yield',
    'C04g': 'MissingInputSpecification retried only once: a line reading inputs of two unseen forms is silently dropped',
    'C05g': '2023 tax table: last-row memo ignoring the status column (second solve in one process)',
    'C06g': 'ValueStore treats a stored None (blank enumeration line) as unmet: its waiters wait for ever',
    'C07g': '2023 tax table: last-row memo keyed by the amount alone (next call with another status)',
    'C08g': '2023 capital-gain worksheet: MFS 15%/20% breakpoint derived as half the joint one (276,925, not 276,900)',
    'C09g': '2023 Form 1116 election limit: QualifyingSurvivingSpouse moved to the 600 row',
    'C11g': 'InputStore memoises parsed values: stale after del / config change / update_input_spec',
    'C12g': 'lines of input-only forms stored straight from the input: money unrounded (sub-cent inputs)',
    'C13g': 'InvalidInput subclasses MissingInput: an unparsable supplied value is prompted for and overwritten',
    'C14g': 'fill-pdfs gets --year with a default: the year recorded in the solution is never used',
    'C15g': '2023 Schedule A line 4: the 7.5% floor replaced by "blank when no expenses"',
    'C16g': '2022 capital-gain worksheet line 10: min(line 1, line 4) became line 4 (tax falls as wages rise)',
    'C19g': 'TextPDFField length guard measures value.lstrip("-")',
    'C20g': 'answers of a prompt round committed to the store only at the end of the round (lost on EOF)',
    'C02g': '2022 NC Child Deduction Table as a closed formula with floor division (an AGI exactly on a limit drops a band)',
    'C10g': '2022 need-6251 worksheet line 2 reads Schedule A line 5, which does not exist (itemizing branch only)',
    'C17g': '2023 catalogue imports the 2022 Form 1099-INT class (declares tax_year 2022)',
    'C18g': '2023 Form 1040: line 30 mapped onto the line-29 widget (one box driven twice)'}


def main(rounds):
    res = json.load(open(os.path.join(VERIF, 'seeded', 'RESULTS.json')))
    print('| Seed | Change | first contact | now (violations) | what the check reports |')
    print('|---|---|---|---|---|')
    for sid in sorted(os.listdir(os.path.join(VERIF, 'seeded'))):
        if len(sid) != 4 or sid[3] not in rounds:
            continue
        r = res.get(sid, {})
        now = 'not run'
        if r.get('applies') and 'violations' in r:
            if r['violations'] == 0:
                now = 'MISSED'
            elif r.get('with_failing_input', 0) == 0:
                now = f"tie broke, no input ({r['violations']})"
            else:
                now = f"caught ({r['violations']})"
        what = (r.get('what') or [''])[0].replace('|', '/').replace('\n', ' ')[:150]
        print(f"| {sid} | {SHORT.get(sid, '')} | {FIRST.get(sid, '')} | {now} | {what} |")


if __name__ == '__main__':
    main(sys.argv[1:] or ['d', 'e'])
