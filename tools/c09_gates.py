#!/venv/bin/python
"""C09 gate survey: which inputs guard a `not_implemented()` call, and how the reviewed gate list relates to them.

    python c09_gates.py [--years 2021,2022,2023] [--json] [--out FILE]

(a) SURVEY (syntactic, regenerated from the working tree on every run).  The translated programs of all form
    classes (`translate.translate_year`, the same IR that becomes lean/HabuVerif/Gen/Forms<year>_<k>.lean) are
    walked; for every `notImpl` node the conditions on the syntactic path to it are collected (conditional
    expressions, `if` statements incl. the fall-through after a returning branch, `and`/`or` short circuits,
    comprehension filters, loop iterables, helper bodies -- helpers are already inlined by the translator).  Every
    input read inside such a condition -- directly, through a local variable the condition mentions, or inside a
    helper the condition calls -- is reported with the polarity under which the call is reached:

        'yes'      the call needs the input to be truthy           (`if i['x']: self.not_implemented()`)
        'no'       the call needs the input to be falsy            (`... if not i['x'] and ...`)
        '> c' ...  the call needs an amount / count above a limit  (`i['x'] > 500.0`)
        'cond'     the input only takes part in a compound condition (comparison with other data, a count that
                   bounds a loop, an enum that selects a row ...)

(b) REVIEWED LIST  tools/c09_gates.json  (committed; built by review of the input descriptions): per year the gates
    (input, the answer that DECLARES the unsupported situation, reason, optional `when` for gates that only count
    under a further condition) and `not_gates` (inputs of the survey that merely select between implemented paths).

The module is imported by gen_c09.py and harness/c09_oracle.py:  `survey(year)`, `load_reviewed()`, `compare()`.
(a) must be a superset of (b): `compare()` reports gates of (b) that the survey does not find on the current tree
(a dropped or rewritten gate) and survey inputs that (b) does not classify (a new gate nobody reviewed).
"""
import json
import os
import sys

HERE = os.path.dirname(os.path.abspath(__file__))
if HERE not in sys.path:
    sys.path.insert(0, HERE)

YEARS = (2021, 2022, 2023)
REVIEWED = os.path.join(HERE, 'c09_gates.json')

_ir_cache = {}


def year_ir(year):
    if year not in _ir_cache:
        import translate
        ir, _rep = translate.translate_year(year)
        _ir_cache[year] = ir
    return _ir_cache[year]


# ---------------------------------------------------------------------------------------------- IR walking

def sub_exprs(e):
    """direct sub-expressions of an IR expression (helper bodies excluded)"""
    k = e[0]
    if k in ('const', 'var', 'raise', 'instance', 'global', 'unsupported'):
        return []
    if k in ('readI', 'readV', 'neg', 'pos', 'not', 'attrFail', 'loadedForm'):
        return [e[1]]
    if k in ('fstr', 'notImpl', 'tuple', 'list'):
        return list(e[1])
    if k == 'bin':
        return [e[2], e[3]]
    if k in ('and', 'or', 'index'):
        return [e[1], e[2]]
    if k == 'cmp':
        return [e[1]] + list(e[3])
    if k in ('ite', 'slice'):
        return [e[1], e[2], e[3]]
    if k == 'call':
        return list(e[2])
    if k == 'method':
        return [e[2]] + list(e[3])
    if k == 'attr':
        return [e[1]]
    if k == 'threshold':
        return [e[1], e[3]]
    if k == 'thresholdOf':
        return [e[1], e[2], e[4]]
    if k == 'dict':
        return list(e[2])
    if k in ('listComp', 'sumGen'):
        return [e[1], e[3]] + list(e[4])
    if k == 'callHelper':
        return list(e[2])
    raise ValueError(e)


def key_pattern(e):
    """the name expression of a read as a pattern string: constants verbatim, holes as `{}`"""
    if e[0] == 'const' and e[1][0] == 'str':
        return e[1][1]
    if e[0] == 'fstr':
        out = []
        for p in e[1]:
            if p[0] == 'const' and p[1][0] == 'str':
                out.append(p[1][1])
            else:
                out.append('{}')
        return ''.join(out)
    return '{}'


def stmts_exprs(block):
    """all expressions of a statement list, recursively (incl. helper bodies)"""
    for s in block:
        k = s[0]
        if k in ('assign', 'append'):
            yield s[2]
        elif k == 'unpack':
            yield s[2]
        elif k == 'aug':
            yield s[3]
        elif k == 'ifS':
            yield s[1]
            yield from stmts_exprs(s[2])
            yield from stmts_exprs(s[3])
        elif k == 'forS':
            yield s[2]
            yield from stmts_exprs(s[3])
        elif k in ('ret', 'expr'):
            yield s[1]
        elif k == 'assertS':
            yield s[1]
            if len(s) > 2:
                yield s[2]


def all_nodes(e):
    """every expression node below e, helper bodies included"""
    yield e
    for x in sub_exprs(e):
        yield from all_nodes(x)
    if e[0] == 'callHelper':
        for x in stmts_exprs(e[4]):
            yield from all_nodes(x)


def reads_in(e, which='readI'):
    return [key_pattern(n[1]) for n in all_nodes(e) if n[0] == which]


def vars_in(e):
    return [n[1] for n in all_nodes(e) if n[0] == 'var']


def assignments(block, acc=None, guards=()):
    """variable -> list of expressions it is assigned from / updated with, anywhere in the block; the conditions
    under which the assignment happens count as sources too (`flag = False; for ...: if v[x]: flag = True`)"""
    acc = {} if acc is None else acc

    def put(x, e):
        acc.setdefault(x, []).append(e)
        for g in guards:
            acc[x].append(g)
    for s in block:
        k = s[0]
        if k == 'assign':
            put(s[1], s[2])
        elif k == 'unpack':
            for x in s[1]:
                put(x, s[2])
        elif k == 'aug':
            put(s[1], s[3])
        elif k == 'append':
            put(s[1], s[2])
        elif k == 'ifS':
            assignments(s[2], acc, tuple(guards) + (s[1],))
            assignments(s[3], acc, tuple(guards) + (s[1],))
        elif k == 'forS':
            for x in s[1]:
                put(x, s[2])
            assignments(s[3], acc, tuple(guards) + (s[2],))
    return acc


def definitely_leaves(block):
    """does every path through the block end in return / not_implemented / raise?"""
    for s in block:
        k = s[0]
        if k == 'ret':
            return True
        if k == 'expr' and s[1][0] in ('notImpl', 'raise'):
            return True
        if k == 'ifS' and definitely_leaves(s[2]) and definitely_leaves(s[3]):
            return True
    return False


class Walker:
    """collects (guards, scope assignments) for every notImpl node of one line"""

    def __init__(self):
        self.hits = []       # list of (guards, assigns)   guards: list of (expr, polarity)

    def expr(self, e, guards, assigns):
        k = e[0]
        if k == 'notImpl':
            for a in e[1]:
                self.expr(a, guards, assigns)
            self.hits.append((list(guards), assigns))
            return
        if k == 'ite':
            self.expr(e[1], guards, assigns)
            self.expr(e[2], guards + [(e[1], True)], assigns)
            self.expr(e[3], guards + [(e[1], False)], assigns)
            return
        if k == 'and':
            self.expr(e[1], guards, assigns)
            self.expr(e[2], guards + [(e[1], True)], assigns)
            return
        if k == 'or':
            self.expr(e[1], guards, assigns)
            self.expr(e[2], guards + [(e[1], False)], assigns)
            return
        if k in ('listComp', 'sumGen'):
            self.expr(e[3], guards, assigns)
            g = guards + [(e[3], 'iter')]
            for c in e[4]:
                self.expr(c, g, assigns)
                g = g + [(c, True)]
            self.expr(e[1], g, assigns)
            return
        if k == 'callHelper':
            for a in e[2]:
                self.expr(a, guards, assigns)
            inner = assignments(e[4])
            # parameters are bound to the argument expressions
            for p, a in zip(e[1], e[2]):
                inner.setdefault(p, []).append(a)
            # a helper sees only its own locals, but an argument may mention the caller's
            merged = dict(assigns)
            merged.update(inner)
            self.block(e[4], guards, merged)
            return
        for x in sub_exprs(e):
            self.expr(x, guards, assigns)

    def block(self, block, guards, assigns):
        guards = list(guards)
        for s in block:
            k = s[0]
            if k in ('assign', 'append'):
                self.expr(s[2], guards, assigns)
            elif k == 'unpack':
                self.expr(s[2], guards, assigns)
            elif k == 'aug':
                self.expr(s[3], guards, assigns)
            elif k in ('ret', 'expr', 'assertS'):
                self.expr(s[1], guards, assigns)
                if k == 'assertS':
                    if len(s) > 2:
                        self.expr(s[2], guards + [(s[1], False)], assigns)
                    guards = guards + [(s[1], True)]
            elif k == 'ifS':
                self.expr(s[1], guards, assigns)
                self.block(s[2], guards + [(s[1], True)], assigns)
                self.block(s[3], guards + [(s[1], False)], assigns)
                thn, els = definitely_leaves(s[2]), definitely_leaves(s[3])
                if thn and not els:
                    guards = guards + [(s[1], False)]
                elif els and not thn:
                    guards = guards + [(s[1], True)]
            elif k == 'forS':
                self.expr(s[2], guards, assigns)
                self.block(s[3], guards + [(s[2], 'iter')], assigns)


def const_num(e):
    if e[0] == 'const' and e[1][0] == 'int':
        return e[1][1]
    if e[0] == 'const' and e[1][0] == 'float':
        return float(e[1][2])
    if e[0] == 'threshold' and e[1][0] == 'const':
        return 'threshold(%s)' % e[1][1][1]
    return None


FLIP = {'gt': 'le', 'le': 'gt', 'lt': 'ge', 'ge': 'lt', 'eq': 'ne', 'ne': 'eq'}
SYM = {'gt': '>', 'ge': '>=', 'lt': '<', 'le': '<=', 'eq': '==', 'ne': '!='}
MIRROR = {'gt': 'lt', 'lt': 'gt', 'ge': 'le', 'le': 'ge', 'eq': 'eq', 'ne': 'ne'}


def polarities(cond, pol, out, assigns, seen):
    """append (input pattern, polarity string) for the inputs in `cond`, reached under polarity `pol`"""
    k = cond[0]
    if pol == 'iter':
        for x in reads_in(cond):
            out.append((x, 'cond'))
        _through_vars(cond, out, assigns, seen)
        return
    if k == 'readI':
        out.append((key_pattern(cond[1]), 'yes' if pol else 'no'))
        for x in reads_in(cond[1]):
            out.append((x, 'cond'))
        return
    if k == 'not':
        polarities(cond[1], not pol, out, assigns, seen)
        return
    if k == 'and' and pol is True or k == 'or' and pol is False:
        polarities(cond[1], pol, out, assigns, seen)
        polarities(cond[2], pol, out, assigns, seen)
        return
    if k in ('and', 'or'):
        # reached when EITHER operand decides: the polarity of a single operand is not forced
        for sub in (cond[1], cond[2]):
            tmp = []
            polarities(sub, pol, tmp, assigns, seen)
            for x, p in tmp:
                out.append((x, p if p == 'cond' else p + '?'))
        return
    if k == 'cmp' and len(cond[2]) == 1 and cond[2][0] in FLIP:
        op = cond[2][0] if pol else FLIP[cond[2][0]]
        a, b = cond[1], cond[3][0]
        if a[0] == 'readI' and const_num(b) is not None:
            out.append((key_pattern(a[1]), f'{SYM[op]} {const_num(b)}'))
            return
        if b[0] == 'readI' and const_num(a) is not None:
            out.append((key_pattern(b[1]), f'{SYM[MIRROR[op]]} {const_num(a)}'))
            return
    for x in reads_in(cond):
        out.append((x, 'cond'))
    _through_vars(cond, out, assigns, seen)


def _through_vars(cond, out, assigns, seen):
    for x in reads_in(cond, 'readV'):
        out.append(('v:' + x, 'cond'))
    for v in vars_in(cond):
        if v in seen:
            continue
        seen.add(v)
        for src in assigns.get(v, []):
            for x in reads_in(src):
                out.append((x, 'cond'))
            _through_vars(src, out, assigns, seen)


def passthrough_inputs(ir):
    """'class.line' -> input patterns (qualified, class level) for lines that only hand inputs on: the body reads
    inputs, no line values, and contains no not_implemented() (`FloatField('2', lambda s, i, v: i['hsa_contributions'])`,
    `box_6 = i['box_6']`, `i['x'] if i['x'] > 0 else None`)"""
    out = {}
    inst = instanced_classes(ir)
    for c in ir['classes']:
        c2 = dict(c, _instanced=c['name'] in inst)
        for l in c['lines']:
            nodes = [n for e in stmts_exprs(l['body']) for n in all_nodes(e)]
            if any(n[0] in ('readV', 'notImpl', 'unsupported') for n in nodes):
                continue
            dfl = {n: v for n, v in l['defaults']}
            ins = []
            for n in nodes:
                if n[0] == 'readI':
                    key = n[1]
                    if key[0] == 'var' and key[1] in dfl and dfl[key[1]][0] == 'str':
                        key = ['const', dfl[key[1]]]      # `lambda s, i, v, base_name=name: i[base_name]`
                    ins.append(key_pattern(key))
            if ins:
                out[f'{c["name"]}.{l["name"]}'] = sorted({gate_id(*qualify(c2, p)) for p in ins})
    return out


def qualify(cls, pattern):
    """full name pattern of an input key read inside class `cls` (instances as `*`)"""
    if '.' in pattern:
        form, key = pattern.split('.', 1)
    else:
        form, key = cls['name'] + (':*' if cls['instRule'][0] == 'oneOf' or cls.get('_instanced') else ''), pattern
    return form, key


def gate_id(form, key):
    """class-level identifier: the instance part of the form is dropped (`8889:spouse.x`, `8889:{}.x` -> `8889.x`)"""
    return form.split(':')[0] + '.' + key


def instanced_classes(ir):
    """classes that are only ever used with an instance (w-2:0, 1099-int:3, 8889:you ...)"""
    names = set()
    for c in ir['classes']:
        for l in c['lines']:
            for e in stmts_exprs(l['body']):
                for n in all_nodes(e):
                    if n[0] in ('readI', 'readV'):
                        p = key_pattern(n[1])
                        if '.' in p and ':' in p.split('.')[0]:
                            names.add(p.split(':')[0])
    return names


def survey(year, ir=None):
    """-> {gate id: {'polarity': sorted list, 'lines': sorted list of 'class.line', 'required': bool (some reader is
    a required line), 'instances': sorted list of the instance parts seen in reads ('' = own form)}}"""
    ir = ir or year_ir(year)
    inst = instanced_classes(ir)
    passthru = passthrough_inputs(ir)
    res = {}
    for c in ir['classes']:
        c = dict(c, _instanced=c['name'] in inst)
        for l in c['lines']:
            w = Walker()
            w.block(l['body'], [], assignments(l['body']))
            for guards, assigns in w.hits:
                found = []
                seen = set()
                for cond, pol in guards:
                    polarities(cond, pol, found, assigns, seen)
                more = []
                for pat, pol in found:
                    if pat.startswith('v:'):
                        # a line value in the condition: follow it ONE step when that line merely hands inputs on
                        form, key = qualify(c, pat[2:])
                        for gid in passthru.get(gate_id(form, key), []):
                            more.append((gid, 'via ' + gate_id(form, key)))
                found = [(p, q) for p, q in found if not p.startswith('v:')]
                for gid, pol in more:
                    r = res.setdefault(gid, {'polarity': set(), 'lines': set(), 'required': False, 'instances': set()})
                    r['polarity'].add('cond')
                    r['lines'].add(f'{c["name"]}.{l["name"]}')
                    r['required'] = r['required'] or bool(l['required'])
                    r.setdefault('via', set()).add(pol[4:])
                for pat, pol in found:
                    form, key = qualify(c, pat)
                    gid = gate_id(form, key)
                    r = res.setdefault(gid, {'polarity': set(), 'lines': set(), 'required': False, 'instances': set()})
                    r['polarity'].add(pol)
                    r['lines'].add(f'{c["name"]}.{l["name"]}')
                    r['required'] = r['required'] or bool(l['required'])
                    r['instances'].add(form.split(':', 1)[1] if ':' in form else '')
    declared = declared_inputs(ir)
    out = {}
    for gid in sorted(res):
        r = res[gid]
        out[gid] = {'polarity': sorted(r['polarity']), 'lines': sorted(r['lines']), 'required': r['required'],
                    'instances': sorted(r['instances']), 'declared': gid in declared,
                    'kind': declared.get(gid), 'via': sorted(r.get('via', []))}
    return out


def declared_inputs(ir):
    """gate id -> input kind word, for every declared input (holes in names cannot occur in declarations)"""
    d = {}
    for c in ir['classes']:
        for name, kind in c['inputs']:
            d[f'{c["name"]}.{name}'] = kind[0]
    return d


def unguarded_notimpl(year, ir=None):
    """lines whose `not_implemented()` is reached with no input in any guard (guarded by line values only or not at
    all); informational"""
    ir = ir or year_ir(year)
    out = []
    for c in ir['classes']:
        for l in c['lines']:
            w = Walker()
            w.block(l['body'], [], assignments(l['body']))
            for guards, assigns in w.hits:
                found, seen = [], set()
                for cond, pol in guards:
                    polarities(cond, pol, found, assigns, seen)
                if not [f for f in found if not f[0].startswith('v:')]:
                    out.append(f'{c["name"]}.{l["name"]}')
    return sorted(set(out))


# ---------------------------------------------------------------------------------------------- reviewed list

def load_reviewed(path=REVIEWED):
    with open(path, encoding='utf-8') as f:
        return json.load(f)


def reviewed_gates(year, reviewed=None):
    """{gate id: entry} of the reviewed list for one year (entries valid for several years are shared)"""
    reviewed = reviewed or load_reviewed()
    out = {}
    for g in reviewed['gates']:
        if year in g['years']:
            out[g['input']] = g
    return out


def reviewed_not_gates(year, reviewed=None):
    reviewed = reviewed or load_reviewed()
    return {g['input']: g for g in reviewed['not_gates'] if year in g['years']}


def compare(years=YEARS, reviewed=None):
    """survey versus reviewed list, per year"""
    reviewed = reviewed or load_reviewed()
    rep = {}
    for y in years:
        sv = survey(y)
        gates = reviewed_gates(y, reviewed)
        notg = reviewed_not_gates(y, reviewed)
        declared = declared_inputs(year_ir(y))
        rep[str(y)] = {
            'survey': len(sv),
            'gates': len(gates),
            'not_gates': len([g for g in notg if g in sv]),
            # a reviewed gate the survey no longer finds: the guard was dropped or rewritten
            'gates_not_in_survey': sorted(g for g in gates if g not in sv and not gates[g].get('derived')),
            # a reviewed gate whose input is not declared any more
            'gates_not_declared': sorted(g for g in gates if g not in declared),
            # survey inputs nobody classified
            'unclassified': sorted(g for g in sv if g not in gates and g not in notg),
            # the polarity found differs from the reviewed declaring answer
            'polarity_mismatch': sorted(
                g for g in gates if g in sv and not polarity_compatible(gates[g], sv[g]['polarity'])),
        }
    return rep


def polarity_compatible(gate, pols):
    want = gate['declares']
    if want in ('yes', 'no'):
        return any(p.rstrip('?') == want for p in pols) or (gate.get('via') is not None and 'cond' in pols)
    # amount gates: the survey shows a comparison, a truth test of the amount, or a compound condition
    return any(p[0] in '<>=!' or p in ('cond', 'yes', 'yes?') for p in pols)


def main(argv):
    years = list(YEARS)
    as_json = False
    out = None
    args = list(argv)
    while args:
        a = args.pop(0)
        if a == '--years':
            years = [int(x) for x in args.pop(0).split(',')]
        elif a == '--json':
            as_json = True
        elif a == '--out':
            out = args.pop(0)
    result = {'survey': {str(y): survey(y) for y in years},
              'unguarded_not_implemented': {str(y): unguarded_notimpl(y) for y in years}}
    if os.path.exists(REVIEWED):
        result['compare'] = compare(years)
    text = json.dumps(result, indent=1, sort_keys=True)
    if out:
        with open(out, 'w', encoding='utf-8') as f:
            f.write(text)
    if as_json:
        print(text)
    else:
        for y in years:
            sv = result['survey'][str(y)]
            print(f'== {y}: {len(sv)} inputs guard a not_implemented() call')
            for gid, r in sv.items():
                flag = '' if r['declared'] else '  (NOT A DECLARED INPUT)'
                via = f'  via {",".join(r["via"])}' if r['via'] else ''
                print(f'  {gid:52s} {",".join(r["polarity"]):22s} {"req" if r["required"] else "opt"} '
                      f'{",".join(r["lines"][:4])}{"..." if len(r["lines"]) > 4 else ""}{via}{flag}')
            print('  not_implemented() guarded by no input:', ', '.join(result['unguarded_not_implemented'][str(y)]))
        if 'compare' in result:
            print(json.dumps(result['compare'], indent=1))
    return 0


if __name__ == '__main__':
    sys.exit(main(sys.argv[1:]))
