#!/usr/bin/env python3
"""Generate /verif/lean/HabuVerif/Gen/CharTable.lean from the RUNNING CPython.

Sweeps range(sys.maxunicode + 1) and records, as sorted disjoint ranges,

  spaces     chr(c).isspace()                       (= what str.strip() strips; cross-checked)
  decimals   int(chr(c))                            (Py_UNICODE_TODECIMAL as seen by int()/float())
  lowers     chr(c).lower()                         (full lower-case mapping, may expand)
  ignorable  _PyUnicode_IsCaseIgnorable(c)  \\  both probed through the Final_Sigma rule of
  cased      _PyUnicode_IsCased(c)          /   str.lower(), the only place habutax can observe them

`cased` is only recorded for characters that are not case-ignorable (the Final_Sigma scan never
asks for the others).  The encoding is decoded again in Python and compared with the interpreter
for every code point before the file is written.

usage: gen_chartable.py [output-file]
"""
import os
import sys

SIGMA, FINAL = 'Σ', 'ς'


def probe():
    n = sys.maxunicode + 1
    spaces, decimals, lowers, special, ign, cased = [], {}, {}, {}, [], []
    for c in range(n):
        ch = chr(c)
        sp = ch.isspace()
        if sp != (ch.strip() == '') or sp != (('a' + ch + 'b' + ch).strip() == 'a' + ch + 'b'):
            raise SystemExit(f'isspace/strip disagree at {c:#x}')
        if sp:
            spaces.append(c)
        try:
            d = int(ch)
        except ValueError:
            d = None
        if d is not None:
            if not 0 <= d <= 9:
                raise SystemExit(f'decimal out of range at {c:#x}')
            decimals[c] = d
        lo = ch.lower()
        if lo != ch:
            if len(lo) == 1:
                lowers[c] = ord(lo)
            else:
                special[c] = [ord(x) for x in lo]
        if 0xD800 <= c <= 0xDFFF:
            # lone surrogates cannot be represented in the model (nor encoded in UTF-8)
            if sp or d is not None or lo != ch:
                raise SystemExit(f'surrogate {c:#x} has properties')
            continue
        f1 = (ch + SIGMA).lower()[-1] == FINAL
        f4 = ('A' + SIGMA + ch + 'A').lower()[1] == FINAL
        if f1 and f4:
            raise SystemExit(f'inconsistent sigma probes at {c:#x}')
        if f1:
            cased.append(c)
        elif not f4:
            ign.append(c)
    return spaces, decimals, lowers, special, ign, cased


def ranges_of(sorted_codes):
    out = []
    for c in sorted_codes:
        if out and out[-1][1] == c - 1:
            out[-1][1] = c
        else:
            out.append([c, c])
    return [(a, b, 0, 0) for a, b in out]


def decimal_ranges(decimals):
    out = []
    for c in sorted(decimals):
        d = decimals[c]
        if out and out[-1][1] == c - 1 and out[-1][2] + (c - out[-1][0]) == d:
            out[-1][1] = c
        else:
            out.append([c, c, d])
    return [(a, b, v, 0) for a, b, v in out]


def lower_runs(lowers):
    items = sorted(lowers.items())
    out = []
    i = 0
    while i < len(items):
        c, t = items[i]
        step = 1
        j = i
        if i + 1 < len(items):
            c2, t2 = items[i + 1]
            if c2 - c in (1, 2) and t2 - c2 == t - c:
                step = c2 - c
                j = i + 1
                while j + 1 < len(items) and items[j + 1][0] == items[j][0] + step and \
                        items[j + 1][1] - items[j + 1][0] == t - c:
                    j += 1
        out.append((c, items[j][0], step, t))
        i = j + 1
    return out


def find(ranges, c):
    lo, hi = 0, len(ranges)
    while lo < hi:
        mid = (lo + hi) // 2
        r = ranges[mid]
        if c < r[0]:
            hi = mid
        elif c > r[1]:
            lo = mid + 1
        else:
            return r
    return None


def ascii_space(c):
    return c == 32 or 9 <= c <= 13 or 28 <= c <= 31


def selfcheck(spaces_r, dec_r, low_r, special, ign_r, cased_r):
    """decode exactly like CharTable.ofRanges and compare with the interpreter"""
    for rs in (spaces_r, dec_r, low_r, ign_r, cased_r):
        for a, b in zip(rs, rs[1:]):
            if not (a[0] <= a[1] < b[0]):
                raise SystemExit('ranges not sorted/disjoint')
    for c in range(sys.maxunicode + 1):
        if 0xD800 <= c <= 0xDFFF:
            continue
        ch = chr(c)
        sp = ascii_space(c) if c < 128 else find(spaces_r, c) is not None
        if sp != ch.isspace():
            raise SystemExit(f'space decode mismatch {c:#x}')
        r = find(dec_r, c)
        d = None if r is None else r[2] + (c - r[0])
        try:
            real = int(ch)
        except ValueError:
            real = None
        if d != real:
            raise SystemExit(f'decimal decode mismatch {c:#x}')
        if c < 128:
            lo = [c + 32] if 65 <= c <= 90 else [c]
        elif c in special:
            lo = special[c]
        else:
            r = find(low_r, c)
            if r is not None and (c - r[0]) % r[2] == 0:
                lo = [r[3] + (c - r[0])]
            else:
                lo = [c]
        if lo != [ord(x) for x in ch.lower()]:
            raise SystemExit(f'lower decode mismatch {c:#x}')


def fmt_ranges(name, rs):
    lines = [f'def {name} : Array (Nat × Nat × Nat × Nat) := #[']
    row = []
    for k, r in enumerate(rs):
        row.append(f'({r[0]},{r[1]},{r[2]},{r[3]})')
        if len(row) == 6 or k == len(rs) - 1:
            lines.append('  ' + ', '.join(row) + (',' if k != len(rs) - 1 else ''))
            row = []
    lines.append(']')
    return '\n'.join(lines)


def main():
    import unicodedata
    here = os.path.dirname(os.path.abspath(__file__))
    out = sys.argv[1] if len(sys.argv) > 1 else os.path.join(
        os.path.dirname(here), 'lean', 'HabuVerif', 'Gen', 'CharTable.lean')
    spaces, decimals, lowers, special, ign, cased = probe()
    spaces_r = ranges_of([c for c in spaces if c >= 128])
    dec_r = decimal_ranges(decimals)
    low_r = lower_runs({c: t for c, t in lowers.items() if c >= 128})
    special = {c: l for c, l in special.items()}
    if any(c < 128 for c in special):
        raise SystemExit('ASCII character with multi-character lower case')
    ign_r, cased_r = ranges_of(ign), ranges_of(cased)
    selfcheck(spaces_r, dec_r, low_r, special, ign_r, cased_r)
    maxd = sys.get_int_max_str_digits()
    sp = ', '.join(f'({c}, [{", ".join(map(str, l))}])' for c, l in sorted(special.items()))
    text = f'''import HabuVerif.Py.Str
/-!
GENERATED by tools/gen_chartable.py — do not edit.
Source: CPython {sys.version.split()[0]}, sys.maxunicode = {sys.maxunicode:#x}, unicodedata {unicodedata.unidata_version},
sys.get_int_max_str_digits() = {maxd}.
{len(spaces)} white-space characters, {len(decimals)} decimal digits, {len(lowers) + len(special)} characters with a lower-case
mapping ({len(special)} of them expanding), {len(ign)} case-ignorable, {len(cased)} cased (and not ignorable).
-/
set_option autoImplicit false
set_option maxRecDepth 100000

namespace HabuVerif.PyStr.Gen

{fmt_ranges('spaces', spaces_r)}

{fmt_ranges('decimals', dec_r)}

{fmt_ranges('lowers', low_r)}

{fmt_ranges('cased', cased_r)}

{fmt_ranges('ignorable', ign_r)}

def lowerSpecial : List (Nat × List Nat) := [{sp}]

def maxStrDigits : Nat := {maxd}

end HabuVerif.PyStr.Gen

namespace HabuVerif.PyStr

/-- the character table of the CPython that generated this file -/
def CharTable.cpython : CharTable :=
  CharTable.ofRanges Gen.spaces Gen.decimals Gen.lowers Gen.cased Gen.ignorable Gen.lowerSpecial
    Gen.maxStrDigits

end HabuVerif.PyStr
'''
    os.makedirs(os.path.dirname(out), exist_ok=True)
    tmp = out + '.tmp'
    with open(tmp, 'w', encoding='utf-8') as f:
        f.write(text)
    os.replace(tmp, out)


if __name__ == '__main__':
    main()
