#!/venv/bin/python
"""Generate the Lean obligations for C09 (declaring an unsupported situation never yields a solved return).

    python gen_c09.py [--out-dir DIR] [--years 2021,2022,2023] [--rebaseline] [--quiet]

For every gate of the reviewed list (tools/c09_gates.json) and every line of the translated programs that reads
the gate input under a constant name (the READERS), the abstract interpreter of lean/HabuVerif/Spec/Gates.lean is
run here in Python (a line-by-line mirror: `abs_expr`, `abs_stmt`, `abs_block` below) to decide

    never      `cannotReturn`       no path through the line returns a value while the gate is affirmative
    afterRead  `noReturnAfterRead`  no path on which the gate is read returns a value

and the strongest fact that holds is emitted, under <out-dir> (default lean/HabuVerif/Gen), as

    theorem o<k> : checkLine year<Y> "<class>" <inst> "<line>" "<gate>" <spec> .<mode> <required> = true := by decide +kernel
    theorem o<k>_sem : (for all stores in which the gate, if present, is affirmative) the line's tree never runs
                       to a value  := checkLine_never_sound o<k>     (resp. ... not after reading the gate)

together with one `theorem f<j> : formOk year<Y> "<class>" <inst> = true` per form (the class's naming assertions,
needed to know which class `mkCat` resolves the name to; expensive, hence stated once per form).  The
kernel-evaluated obligations are packed into part modules C09_<year>_<k>.lean of about 45 s each (they build in
parallel); C09_<year>.lean imports them and states what each obligation means (`o<k>_sem`).  Soundness of
`checkLine`: Proofs/GateLemmas.lean; solver corollaries `gate_blocks_form`, `gate_blocks_line`, `gate_read_blocks`
there.

EXPECTED obligations.  tools/c09_expected.json (committed; written by `--rebaseline` on the reviewed tree) lists the
obligations that held when the gate list was reviewed.  When one of them does not hold on the current tree
(a guard was dropped, inverted, weakened; the line vanished or stopped being required),

    -- FAILED-OBLIGATION o<k> <witness>
    theorem o<k> : checkLine ... = false := by decide +kernel            (the proved negation)

is emitted instead and the obligation is recorded in c09_failed.json, so everything else keeps being checked.
If this mirror and the Lean definition ever disagree, the build of the generated module breaks (in either
direction): the intended alarm.  Facts that hold but are not in the baseline are emitted as `extra`.

Per gate the result is summarised in c09_obligations.json:
    proved_form            a REQUIRED reader never returns: form loaded /\\ gate affirmative => not solved
    proved_line            some reader never returns (optional line): line demanded /\\ gate affirmative => not solved
    proved_read            every reader is `never` or `afterRead`: gate consulted /\\ affirmative => not solved
    analysis_inconclusive  no such reader (amounts that pass through a line value, float limits, compound
                           conditions): covered by the oracle (tools/harness/c09_oracle.py) only
Output is deterministic.  Only files written by this generator are replaced.
"""
import json
import os
import re
import sys

HERE = os.path.dirname(os.path.abspath(__file__))
if HERE not in sys.path:
    sys.path.insert(0, HERE)

import c09_gates  # noqa: E402

YEARS = (2021, 2022, 2023)
EXPECTED = os.path.join(HERE, 'c09_expected.json')
MAX_OUTCOMES = 4000          # above this many abstract outcomes the reader is not analysed (inconclusive)


# ======================================================================================================
# mirror of HabuVerif/Spec/Gates.lean
# ======================================================================================================
class TooBig(Exception):
    pass


UNK = ('unk',)
GATE = ('gate',)


def known(v):
    return ('known', v)


def val_truthy(v):
    """Val.truthy on an IR constant"""
    k = v[0]
    if k == 'none':
        return False
    if k == 'bool':
        return bool(v[1])
    if k == 'int':
        return v[1] != 0
    if k == 'float':
        return (int(v[1], 16) & ((1 << 63) - 1)) != 0        # F64.isZero: +-0.0 only
    if k == 'str':
        return v[1] != ''
    if k == 'enumv':
        return True
    if k in ('tuple', 'list'):
        return len(v[1]) > 0
    if k == 'dict':
        return len(v[1]) > 0
    raise ValueError(v)


def spec_of(declares, kind):
    """GateSpec for a `declares` word of the reviewed list and the input kind; None = not expressible"""
    if declares == 'yes':
        return ('isBool', True) if kind == 'bool' else None
    if declares == 'no':
        return ('isBool', False) if kind == 'bool' else None
    m = re.fullmatch(r'> (-?\d+)', declares)
    if m and kind == 'int':
        return ('intGt', int(m.group(1)))
    if declares == '> 0' and kind == 'float':
        return ('truthy',)
    return None


def spec_lean(spec):
    if spec[0] == 'isBool':
        return f'(.isBool {"true" if spec[1] else "false"})'
    if spec[0] == 'truthy':
        return '.truthy'
    if spec[0] == 'intGt':
        return f'(.intGt {spec[1]})' if spec[1] >= 0 else f'(.intGt ({spec[1]}))'
    raise ValueError(spec)


def spec_truth(spec):
    if spec[0] == 'isBool':
        return spec[1]
    if spec[0] == 'truthy':
        return True
    if spec[0] == 'intGt':
        return True if 0 <= spec[1] else None
    raise ValueError(spec)


def spec_cmp_const(spec, op, c):
    if spec[0] == 'intGt' and op == 'gt' and c[0] == 'int':
        return True if c[1] <= spec[1] else None
    return None


class G:
    """GCtx"""

    def __init__(self, form, inst, gate, spec):
        self.form = form
        self.inst = inst
        self.gate = gate
        self.spec = spec
        self.count = 0

    def form_name(self):
        return self.form if self.inst is None else f'{self.form}:{self.inst}'

    def qualify(self, s):
        return s if '.' in s else self.form_name() + '.' + s

    def tick(self, n):
        self.count += n
        if self.count > 60 * MAX_OUTCOMES:
            raise TooBig()


def truth(g, a):
    if a[0] == 'known':
        return val_truthy(a[1])
    if a[0] == 'gate':
        return spec_truth(g.spec)
    if a[0] == 'unkT':
        return a[1]
    return None


def a_pure(x):
    return [(x, False)]


def a_bind(g, m, h):
    out = []
    for x, f in m:
        for y, f2 in h(x):
            out.append((y, f or f2))
    g.tick(len(out) + 1)
    if len(out) > MAX_OUTCOMES:
        raise TooBig()
    return out


def flagged(m):
    return any(f for _x, f in m)


def branch(g, a, thn, els):
    """thn / els are thunks: like the Lean definition only the needed side matters for the result"""
    t = truth(g, a)
    if t is True:
        return thn()
    if t is False:
        return els()
    return thn() + els()


def cmp1(g, op, l, r):
    if l[0] == 'gate' and r[0] == 'known':
        b = spec_cmp_const(g.spec, op, r[1])
        return known(['bool', b]) if b is not None else UNK
    return UNK


def read_input(g, key):
    if key[0] == 'known' and key[1][0] == 'str':
        n = g.qualify(key[1][1])
        return [(GATE, True)] if n == g.gate else a_pure(UNK)
    return [(UNK, True)]


def env_get(env, x):
    for k, a in env:
        if k == x:
            return a
    return UNK


def env_set(env, x, a):
    return [(x, a)] + env


def result_of(r):
    if r[0] == 'ret':
        return a_pure(r[1])
    if r[0] == 'next':
        return a_pure(known(['none']))
    return []


def loop_outcomes(body):
    fl = flagged(body)
    out = [(('next', []), fl)]
    if any(o[0] == 'ret' for o, _f in body):
        out.append((('ret', UNK), fl))
    return out


def to_unk(g, m):
    return a_bind(g, m, lambda _x: a_pure(UNK))


def abs_expr(g, env, e):
    k = e[0]
    E = lambda x: abs_expr(g, env, x)          # noqa: E731
    if k == 'const':
        return a_pure(known(e[1]))
    if k == 'var':
        return a_pure(env_get(env, e[1]))
    if k == 'readI':
        return a_bind(g, E(e[1]), lambda key: read_input(g, key))
    if k == 'readV':
        return to_unk(g, E(e[1]))
    if k == 'fstr':
        return to_unk(g, abs_args(g, env, e[1]))
    if k == 'bin':
        return a_bind(g, E(e[2]), lambda _a: to_unk(g, E(e[3])))
    if k in ('neg', 'pos'):
        return to_unk(g, E(e[1]))
    if k == 'not':
        def h(x):
            t = truth(g, x)
            return a_pure(known(['bool', not t]) if t is not None else UNK)
        return a_bind(g, E(e[1]), h)
    if k == 'and':
        def h(x):
            t = truth(g, x)
            if t is True:
                return E(e[2])
            if t is False:
                return a_pure(x)
            return a_pure(('unkT', False)) + E(e[2])
        return a_bind(g, E(e[1]), h)
    if k == 'or':
        def h(x):
            t = truth(g, x)
            if t is True:
                return a_pure(x)
            if t is False:
                return E(e[2])
            return a_pure(('unkT', True)) + E(e[2])
        return a_bind(g, E(e[1]), h)
    if k == 'cmp':
        return a_bind(g, E(e[1]), lambda x: abs_cmp(g, env, x, e[2], e[3]))
    if k == 'ite':
        return a_bind(g, E(e[1]), lambda x: branch(g, x, lambda: E(e[2]), lambda: E(e[3])))
    if k == 'call':
        return to_unk(g, abs_args(g, env, e[2]))
    if k == 'method':
        return a_bind(g, E(e[2]), lambda _o: to_unk(g, abs_args(g, env, e[3])))
    if k == 'attr':
        return to_unk(g, E(e[1]))
    if k == 'attrFail':
        return a_bind(g, E(e[1]), lambda _o: [])
    if k == 'raise':
        return []
    if k == 'threshold':
        return a_bind(g, E(e[1]), lambda _n: to_unk(g, E(e[3])) if e[2] else a_pure(UNK))
    if k == 'thresholdOf':
        return a_bind(g, E(e[1]), lambda _f: a_bind(g, E(e[2]), lambda _n: to_unk(g, E(e[4])) if e[3] else a_pure(UNK)))
    if k == 'loadedForm':
        return a_bind(g, E(e[1]), lambda _f: a_pure(known(['none'])))
    if k == 'instance':
        return a_pure(UNK)
    if k == 'notImpl':
        return a_bind(g, abs_args(g, env, e[1]), lambda _u: [])
    if k in ('tuple', 'list'):
        return to_unk(g, abs_args(g, env, e[1]))
    if k == 'dict':
        return to_unk(g, abs_args(g, env, e[2]))
    if k == 'index':
        return a_bind(g, E(e[1]), lambda _a: to_unk(g, E(e[2])))
    if k == 'slice':
        return a_bind(g, E(e[1]), lambda _a: a_bind(g, E(e[2]), lambda _b: to_unk(g, E(e[3]))))
    if k in ('listComp', 'sumGen'):
        def h(_it):
            fl = flagged(abs_conds(g, [], e[4])) or flagged(abs_expr(g, [], e[1]))
            return [(UNK, fl)]
        return a_bind(g, E(e[3]), h)
    if k == 'callHelper':
        def h(_u):
            henv = [(n, known(v)) for n, v in e[3]] if len(e[1]) == 0 else []
            return a_bind(g, abs_block(g, henv, e[4]), result_of)
        return a_bind(g, abs_args(g, env, e[2]), h)
    if k == 'global':
        return a_pure(UNK)
    if k == 'unsupported':
        return []
    raise ValueError(e)


def abs_args(g, env, es):
    if not es:
        return a_pure(())
    return a_bind(g, abs_expr(g, env, es[0]), lambda _x: abs_args(g, env, es[1:]))


def abs_cmp(g, env, left, ops, es):
    if ops and es:
        def h(right):
            if len(ops) == 1:
                return a_pure(cmp1(g, ops[0], left, right))
            return a_pure(known(['bool', False])) + abs_cmp(g, env, right, ops[1:], es[1:])
        return a_bind(g, abs_expr(g, env, es[0]), h)
    if not ops and not es:
        return a_pure(known(['bool', True]))
    return []


def abs_conds(g, env, cs):
    if not cs:
        return a_pure(())

    def h(x):
        t = truth(g, x)
        if t is True:
            return abs_conds(g, env, cs[1:])
        if t is False:
            return a_pure(())
        return a_pure(()) + abs_conds(g, env, cs[1:])
    return a_bind(g, abs_expr(g, env, cs[0]), h)


def abs_stmt(g, env, s):
    k = s[0]
    if k == 'assign':
        return a_bind(g, abs_expr(g, env, s[2]), lambda a: a_pure(('next', env_set(env, s[1], a))))
    if k == 'unpack':
        return a_bind(g, abs_expr(g, env, s[2]), lambda _a: a_pure(('next', [])))
    if k == 'aug':
        return a_bind(g, abs_expr(g, env, s[3]), lambda _a: a_pure(('next', env_set(env, s[1], UNK))))
    if k == 'ifS':
        return a_bind(g, abs_expr(g, env, s[1]),
                      lambda x: branch(g, x, lambda: abs_block(g, env, s[2]), lambda: abs_block(g, env, s[3])))
    if k == 'forS':
        return a_bind(g, abs_expr(g, env, s[2]), lambda _it: loop_outcomes(abs_block(g, [], s[3])))
    if k == 'ret':
        return a_bind(g, abs_expr(g, env, s[1]), lambda a: a_pure(('ret', a)))
    if k == 'expr':
        return a_bind(g, abs_expr(g, env, s[1]), lambda _a: a_pure(('next', env)))
    if k == 'append':
        return a_bind(g, abs_expr(g, env, s[2]), lambda _a: a_pure(('next', env_set(env, s[1], UNK))))
    if k == 'assertS':
        def h(x):
            return [] if truth(g, x) is False else a_pure(('next', env))
        return a_bind(g, abs_expr(g, env, s[1]), h)
    if k == 'continueS':
        return a_pure(('cont', env))
    if k == 'breakS':
        return a_pure(('brk', env))
    if k == 'pass':
        return a_pure(('next', env))
    raise ValueError(s)


def abs_block(g, env, ss):
    if not ss:
        return a_pure(('next', env))

    def h(r):
        if r[0] == 'next':
            return abs_block(g, r[1], ss[1:])
        return a_pure(r)
    return a_bind(g, abs_stmt(g, env, ss[0]), h)


def abs_body(g, line):
    env = [(n, known(v)) for n, v in line['defaults']]
    return a_bind(g, abs_block(g, env, line['body']), result_of)


# ---------------------------------------------------------------------------------------- checkLine

def name_ok(s):
    return '.' not in s


def class_names_ok(c):
    return name_ok(c['name']) and all(name_ok(l['name']) for l in c['lines']) and all(name_ok(n) for n, _k in c['inputs'])


def accepts(rule, inst):
    if rule[0] == 'any':
        return True
    return inst is not None and inst in rule[1]


def split_on(ch, s):
    return s.split(ch)


def name_and_instance(f):
    parts = split_on(':', f)
    if len(parts) == 1:
        return parts[0], None
    if len(parts) == 2:
        return parts[0], parts[1]
    return None


def form_map_lookup(ir, cn):
    for cand in reversed(ir['classes']):          # YearDecl.formMap: the LAST class of that name wins
        if cand['name'] == cn:
            return cand
    return None


def resolve_loose(ir, f):
    """Gates.resolveLoose: (class, parsed instance) or None"""
    if not name_ok(f):
        return None
    ni = name_and_instance(f)
    if ni is None:
        return None
    c = form_map_lookup(ir, ni[0])
    if c is None or not accepts(c['instRule'], ni[1]):
        return None
    return c, ni[1]


def form_ok(ir, cname, inst):
    """Gates.formOk"""
    fname = cname if inst is None else f'{cname}:{inst}'
    ni = name_and_instance(fname)
    if ni is None:
        return False
    c = form_map_lookup(ir, ni[0])
    return c is not None and class_names_ok(c)


def names_ok(cname, inst, lname):
    fname = cname if inst is None else f'{cname}:{inst}'
    return split_on('.', fname + '.' + lname) == [fname, lname]


def check_line(ir, cname, inst, lname, gate, spec, mode, need_required):
    """mirror of Gates.checkLine; returns (bool, info)"""
    fname = cname if inst is None else f'{cname}:{inst}'
    res = resolve_loose(ir, fname)
    if res is None:
        return False, 'the form does not resolve'
    c, inst2 = res
    line = None
    for l in c['lines']:
        if l['name'] == lname:
            line = l
            break
    if line is None:
        return False, 'no such line'
    if not names_ok(cname, inst, lname):
        return False, 'names do not split'
    if need_required and not line['required']:
        return False, 'line is not required'
    outs = abs_body(G(c['name'], inst2, gate, spec), line)
    if mode == 'never':
        if outs:
            return False, f'{len(outs)} returning path(s), e.g. result {show_aval(outs[0][0])}'
        return True, 'no returning path'
    bad = [o for o in outs if o[1]]
    if bad:
        return False, f'{len(bad)} returning path(s) after reading the gate, e.g. result {show_aval(bad[0][0])}'
    return True, f'{len(outs)} returning path(s), none reads the gate'


def show_aval(a):
    if a[0] == 'known':
        v = a[1]
        return 'known ' + (v[0] if len(v) == 1 else f'{v[0]} {v[-1]}')
    if a[0] == 'unkT':
        return f'unknown ({"truthy" if a[1] else "falsy"})'
    return a[0]


# ======================================================================================================
# readers
# ======================================================================================================
def contexts(c, instanced):
    """instance contexts in which the lines of class c are analysed"""
    if c['instRule'][0] == 'oneOf':
        return list(c['instRule'][1])
    if c['name'] in instanced:
        return []                # w-2:<n>, 1099-*:<n> ...: input forms, their lines only hand inputs on
    return [None]


def const_keys(line):
    """(pattern, is_const) of every input read of the line, helper bodies included"""
    dfl = {n: v for n, v in line['defaults']}
    out = []
    for e in c09_gates.stmts_exprs(line['body']):
        for n in c09_gates.all_nodes(e):
            if n[0] == 'readI':
                key = n[1]
                if key[0] == 'var' and key[1] in dfl and dfl[key[1]][0] == 'str':
                    key = ['const', dfl[key[1]]]
                out.append((c09_gates.key_pattern(key), key[0] == 'const'))
    return out


def readers_of(ir, gate_full):
    """lines that read the gate input under a constant name: [(class, inst, line dict)], and the lines that read
    under a COMPUTED name that could be the gate (reported; they make the reader list incomplete)"""
    instanced = c09_gates.instanced_classes(ir)
    found, computed = [], []
    for c in ir['classes']:
        for inst in contexts(c, instanced):
            fname = c['name'] if inst is None else f'{c["name"]}:{inst}'
            for l in c['lines']:
                hit = False
                for pat, is_const in const_keys(l):
                    full = pat if '.' in pat else fname + '.' + pat
                    if is_const:
                        if full == gate_full:
                            hit = True
                    else:
                        rx = '^' + '.*'.join(re.escape(p) for p in full.split('{}')) + '$'
                        if re.match(rx, gate_full):
                            computed.append(f'{fname}.{l["name"]}')
                if hit:
                    found.append((c['name'], inst, l))
    return found, sorted(set(computed))


def gate_full_names(gate):
    """full input names of a reviewed gate: instances expanded"""
    form, key = gate['input'].split('.', 1)
    if gate.get('instances'):
        return [f'{form}:{i}.{key}' for i in gate['instances']]
    if gate.get('instance') is not None:
        return [f'{form}:{gate["instance"]}.{key}']
    return [gate['input']]


# ======================================================================================================
# generation
# ======================================================================================================
def lean_str(s):
    return json.dumps(s, ensure_ascii=False)


def lean_inst(inst):
    return 'none' if inst is None else f'(some {lean_str(inst)})'


def comment_safe(s):
    return str(s).replace('\n', ' ').replace('-/', '- /').replace('/-', '/ -')


def analyse_year(year, reviewed):
    """all facts that hold on the current tree: [{gate, input, class, inst, line, mode, required, info}], per-gate notes"""
    ir = c09_gates.year_ir(year)
    declared = c09_gates.declared_inputs(ir)
    facts, gates = [], []
    for gid, gate in sorted(c09_gates.reviewed_gates(year, reviewed).items()):
        kind = declared.get(gid)
        spec = spec_of(gate['declares'], kind) if kind else None
        for full in gate_full_names(gate):
            entry = {'gate': full, 'input': gid, 'declares': gate['declares'], 'readers': [], 'computed_readers': [],
                     'note': None}
            gates.append(entry)
            if gate.get('via'):
                entry['note'] = f'the value reaches the guard through line {gate["via"]}: not analysable per line'
                continue
            if kind is None:
                entry['note'] = 'input is not declared on this tree'
                continue
            if spec is None:
                entry['note'] = f'declaring answer {gate["declares"]!r} of a {kind} input is not expressible as a GateSpec'
                continue
            found, computed = readers_of(ir, full)
            entry['computed_readers'] = computed
            entry['spec'] = spec_lean(spec)
            for cname, inst, line in found:
                rd = {'class': cname, 'inst': inst, 'line': line['name'], 'required': bool(line['required'])}
                try:
                    ok_never, info_never = check_line(ir, cname, inst, line['name'], full, spec, 'never', False)
                    if ok_never:
                        rd['mode'], rd['info'] = 'never', info_never
                    else:
                        ok_after, info_after = check_line(ir, cname, inst, line['name'], full, spec, 'afterRead', False)
                        if ok_after:
                            rd['mode'], rd['info'] = 'afterRead', info_after
                        else:
                            rd['mode'], rd['info'] = None, info_after
                except (TooBig, RecursionError):
                    rd['mode'], rd['info'] = None, 'too many paths (not analysed)'
                entry['readers'].append(rd)
                if rd['mode']:
                    facts.append({'gate': full, 'input': gid, 'spec': list(spec), 'class': cname, 'inst': inst,
                                  'line': line['name'], 'mode': rd['mode'], 'required': rd['required']})
    return ir, facts, gates


def fact_key(f):
    return (f['gate'], f['class'], f['inst'] or '', f['line'])


def gate_status(entry):
    rs = entry['readers']
    if not rs:
        return 'analysis_inconclusive'
    st = []
    if any(r['mode'] == 'never' and r['required'] for r in rs):
        st.append('proved_form')
    elif any(r['mode'] == 'never' for r in rs):
        st.append('proved_line')
    if all(r['mode'] for r in rs) and not entry['computed_readers']:
        st.append('proved_read')
    return '+'.join(st) if st else 'analysis_inconclusive'


PART_BUDGET = 45.0        # seconds of kernel time aimed at per generated part module


def form_cost(ir, cname):
    c = form_map_lookup(ir, cname)
    return 1.0 + 0.2 * (len(c['lines']) + len(c['inputs'])) if c else 1.0


def pack(items, budget=PART_BUDGET):
    """items: [(cost, text lines)] -> list of bins (first-fit decreasing, deterministic)"""
    order = sorted(range(len(items)), key=lambda k: (-items[k][0], k))
    bins, loads = [], []
    for k in order:
        cost = items[k][0]
        for b in range(len(bins)):
            if loads[b] + cost <= budget:
                bins[b].append(k)
                loads[b] += cost
                break
        else:
            bins.append([k])
            loads.append(cost)
    return [sorted(b) for b in bins]


def line_stmt(year, f):
    return (f'checkLine year{year} {lean_str(f["class"])} {lean_inst(f["inst"])} {lean_str(f["line"])} '
            f'{lean_str(f["gate"])} {spec_lean(tuple(f["spec"]))} .{f["mode"]} {"true" if f["required"] else "false"}')


def describe(f):
    return (f'gate {f["gate"]} {spec_lean(tuple(f["spec"]))}: line {f["class"]}{":" + f["inst"] if f["inst"] else ""}.{f["line"]}'
            f' ({"required" if f["required"] else "optional"}) '
            f'{"never returns" if f["mode"] == "never" else "never returns after reading the gate"}')


def generate(years, out_dir, rebaseline=False, quiet=False):
    reviewed = c09_gates.load_reviewed()
    expected = {}
    if os.path.exists(EXPECTED) and not rebaseline:
        with open(EXPECTED, encoding='utf-8') as f:
            expected = json.load(f)
    new_expected = {}
    obligations, failed = {}, []
    written = {}
    for year in years:
        ir, facts, gates = analyse_year(year, reviewed)
        by_key = {fact_key(f): f for f in facts}
        new_expected[str(year)] = sorted(
            ({'gate': f['gate'], 'spec': f['spec'], 'class': f['class'], 'inst': f['inst'], 'line': f['line'],
              'mode': f['mode'], 'required': f['required']} for f in facts), key=fact_key)
        exp = new_expected[str(year)] if rebaseline or str(year) not in expected else expected[str(year)]
        items = []           # (cost, [lean lines])  -- kernel-evaluated obligations, packed into part modules
        sems = []            # lean lines of the main module
        obl = []
        # ---- line obligations: the baseline first, then facts that hold but are not in the baseline
        todo = [(e, 'baseline') for e in exp]
        seen = {fact_key(e) for e in exp}
        todo += [(f, 'extra') for f in sorted(facts, key=fact_key) if fact_key(f) not in seen]
        k = 0
        forms_needed = {}
        pending = []
        for e, origin in todo:
            k += 1
            oid = f'o{k}'
            spec = tuple(e['spec'])
            try:
                ok, info = check_line(ir, e['class'], e['inst'], e['line'], e['gate'], spec, e['mode'], e['required'])
            except (TooBig, RecursionError):
                ok, info = None, 'too many paths (not analysed)'
            rec = {'id': oid, 'year': year, 'gate': e['gate'], 'class': e['class'], 'inst': e['inst'], 'line': e['line'],
                   'mode': e['mode'], 'required': e['required'], 'info': info,
                   'status': ('proved' if origin == 'baseline' else 'extra') if ok else 'FAILED'}
            text = []
            if ok:
                text.append(f'/-- {comment_safe(describe(e))}{"" if origin == "baseline" else " (not in the baseline)"} -/')
                text.append(f'theorem {oid} : {line_stmt(year, e)} = true := by decide +kernel')
                forms_needed.setdefault((e['class'], e['inst']), []).append((oid, e))
            elif ok is False:
                text.append(f'-- FAILED-OBLIGATION {oid} {comment_safe(describe(e))}: {comment_safe(info)}')
                text.append(f'theorem {oid} : {line_stmt(year, e)} = false := by decide +kernel')
            else:
                text.append(f'-- FAILED-OBLIGATION {oid} {comment_safe(describe(e))}: {comment_safe(info)} (no theorem emitted)')
            if not ok:
                now = by_key.get(fact_key(e))
                rec['now'] = now['mode'] if now else None
                failed.append(dict(rec, witness=info))
                if now and now['mode'] != e['mode']:
                    pending.append(now)        # the weaker fact that still holds
            text.append('')
            items.append((1.0, text))
            obl.append(rec)
        for now in pending:
            k += 1
            oid = f'o{k}'
            items.append((1.0, [f'/-- {comment_safe(describe(now))} (weaker than the failed baseline fact) -/',
                                f'theorem {oid} : {line_stmt(year, now)} = true := by decide +kernel', '']))
            forms_needed.setdefault((now['class'], now['inst']), []).append((oid, now))
            obl.append({'id': oid, 'year': year, 'gate': now['gate'], 'class': now['class'], 'inst': now['inst'],
                        'line': now['line'], 'mode': now['mode'], 'required': now['required'], 'status': 'extra'})
        # ---- form obligations
        form_ids = {}
        j = 0
        for (cname, inst) in sorted(forms_needed, key=lambda t: (t[0], t[1] or '')):
            j += 1
            fid = f'f{j}'
            ok = form_ok(ir, cname, inst)
            stmt = f'formOk year{year} {lean_str(cname)} {lean_inst(inst)}'
            what = f'form {cname}{":" + inst if inst else ""}: the class it resolves to passes its naming assertions'
            if ok:
                items.append((form_cost(ir, cname), [f'/-- {comment_safe(what)} -/',
                                                     f'theorem {fid} : {stmt} = true := by decide +kernel', '']))
                form_ids[(cname, inst)] = fid
            else:
                items.append((form_cost(ir, cname), [f'-- FAILED-OBLIGATION {fid} {comment_safe(what)}',
                                                     f'theorem {fid} : {stmt} = false := by decide +kernel', '']))
                failed.append({'id': fid, 'year': year, 'class': cname, 'inst': inst, 'status': 'FAILED',
                               'witness': 'a class, line or input name contains a dot'})
            obl.append({'id': fid, 'year': year, 'class': cname, 'inst': inst, 'status': 'proved' if ok else 'FAILED',
                        'kind': 'form'})
        # ---- part modules
        header = ['/- GENERATED by tools/gen_c09.py from the habutax working tree and tools/c09_gates.json — do not edit. -/',
                  'import HabuVerif.Spec.Gates', f'import HabuVerif.Gen.Catalogue{year}',
                  'set_option autoImplicit false', 'set_option maxRecDepth 100000',
                  f'namespace HabuVerif.Gen.C09_{year}', 'open HabuVerif HabuVerif.Dsl HabuVerif.Gates HabuVerif.Gen', '']
        parts = pack(items)
        part_names = []
        for pn, idxs in enumerate(parts):
            name = f'C09_{year}_{pn}'
            part_names.append(name)
            body = list(header)
            for i in idxs:
                body.extend(items[i][1])
            body.append(f'end HabuVerif.Gen.C09_{year}')
            body.append('')
            written[name + '.lean'] = '\n'.join(body)
        # ---- main module: what the obligations mean
        main = ['/- GENERATED by tools/gen_c09.py from the habutax working tree and tools/c09_gates.json — do not edit. -/',
                'import HabuVerif.Proofs.GateLemmas'] + [f'import HabuVerif.Gen.{n}' for n in part_names] + [
                'set_option autoImplicit false', f'namespace HabuVerif.Gen.C09_{year}',
                'open HabuVerif HabuVerif.Dsl HabuVerif.Gates HabuVerif.Gen', '']
        for (cname, inst), olist in sorted(forms_needed.items(), key=lambda t: (t[0][0], t[0][1] or '')):
            fid = form_ids.get((cname, inst))
            if fid is None:
                continue
            for oid, e in olist:
                sem = f'(mkCat year{year}).sem (lineName {lean_str(e["class"])} {lean_inst(e["inst"])} {lean_str(e["line"])})'
                hyp = (f'∀ (vs : String → Option Val) (is : String → InpRes Val) (fs : String → Bool),\n'
                       f'    (∀ v, is {lean_str(e["gate"])} = .ok v → GateSpec.sat {spec_lean(tuple(e["spec"]))} v = true) → ∀ x,\n')
                main.append(f'/-- {comment_safe(describe(e))} -/')
                if e['mode'] == 'never':
                    main.append(f'theorem {oid}_sem : {hyp}    run vs is fs ({sem}) ≠ .val x :=\n  checkLine_never_sound {fid} {oid}')
                else:
                    main.append(f'theorem {oid}_sem : {hyp}    run vs is fs ({sem}) = .val x →\n'
                                f'    readsOn vs is fs {lean_str(e["gate"])} ({sem}) = false :=\n  checkLine_afterRead_sound {fid} {oid}')
                main.append('')
        main.append(f'end HabuVerif.Gen.C09_{year}')
        main.append('')
        written[f'C09_{year}.lean'] = '\n'.join(main)
        per_gate = []
        for g in gates:
            per_gate.append({'gate': g['gate'], 'input': g['input'], 'declares': g['declares'], 'status': gate_status(g),
                             'note': g['note'], 'computed_readers': g['computed_readers'],
                             'readers': [{'line': f'{r["class"]}{":" + r["inst"] if r["inst"] else ""}.{r["line"]}',
                                          'required': r['required'], 'mode': r['mode'], 'info': r['info']} for r in g['readers']]})
        counts = {}
        for g in per_gate:
            counts[g['status']] = counts.get(g['status'], 0) + 1
        obligations[str(year)] = {
            'modules': [f'HabuVerif.Gen.C09_{year}'] + [f'HabuVerif.Gen.{n}' for n in part_names],
            'theorems': obl, 'gates': per_gate, 'gate_status_counts': counts,
            'proved': sum(1 for o in obl if o['status'] == 'proved'), 'failed': sum(1 for o in obl if o['status'] == 'FAILED'),
            'extra': sum(1 for o in obl if o['status'] == 'extra'),
            'analysis_inconclusive': sorted(g['gate'] for g in per_gate if g['status'] == 'analysis_inconclusive')}
    written['c09_obligations.json'] = json.dumps(obligations, indent=1, sort_keys=True) + '\n'
    written['c09_failed.json'] = json.dumps(failed, indent=1, sort_keys=True) + '\n'
    os.makedirs(out_dir, exist_ok=True)
    # stale part modules of an earlier run (their number depends on the tree)
    for fn in sorted(os.listdir(out_dir)):
        if re.fullmatch(r'C09_(\d{4})(_\d+)?\.lean', fn) and fn not in written and int(fn[4:8]) in years:
            os.remove(os.path.join(out_dir, fn))
    for name, text in written.items():
        path = os.path.join(out_dir, name)
        try:
            with open(path, encoding='utf-8') as f:
                if f.read() == text:
                    continue
        except FileNotFoundError:
            pass
        with open(path, 'w', encoding='utf-8') as f:
            f.write(text)
    if rebaseline:
        with open(EXPECTED, 'w', encoding='utf-8') as f:
            json.dump(new_expected, f, indent=1, sort_keys=True)
            f.write('\n')
    if not quiet:
        for y in years:
            o = obligations[str(y)]
            print(f'{y}: {o["proved"]} proved, {o["failed"]} FAILED, {o["extra"]} extra, {len(o["modules"])} modules; '
                  f'gates: {o["gate_status_counts"]}')
        for f in failed:
            print(f'FAILED-OBLIGATION {f["year"]} {f["id"]} ' + (f'gate {f["gate"]} line {f["class"]}.{f["line"]} ({f["mode"]})'
                  if 'gate' in f else f'form {f["class"]}') + f': {f["witness"]}')
    return obligations, failed


def main(argv):
    out_dir = os.path.join(os.path.dirname(HERE), 'lean', 'HabuVerif', 'Gen')
    years = list(YEARS)
    rebaseline = quiet = False
    args = list(argv)
    while args:
        a = args.pop(0)
        if a == '--out-dir':
            out_dir = args.pop(0)
        elif a == '--years':
            years = [int(y) for y in args.pop(0).split(',')]
        elif a == '--rebaseline':
            rebaseline = True
        elif a == '--quiet':
            quiet = True
    sys.setrecursionlimit(20000)
    generate(years, out_dir, rebaseline=rebaseline, quiet=quiet)
    return 0


if __name__ == '__main__':
    sys.exit(main(sys.argv[1:]))
