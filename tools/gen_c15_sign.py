#!/venv/bin/python
"""Generate the Lean obligations for C15, second half (no impossible negative amounts): the sign analysis.

    python gen_c15_sign.py [--out-dir DIR] [--years 2021,2022,2023] [--rebaseline] [--quiet]

`lean/HabuVerif/Spec/Sign.lean` defines an abstract interpreter `nnLineWith trust year S class line` that decides
"this float/int line can only return not-negative values, given not-negative inputs and not-negative stored values of
the lines of the set S" (soundness: Proofs/SignSound.lean, `nnLine_sound` / `nnLineSum_sound_partial`).  This script is
a line-by-line Python mirror of that interpreter (`abs_expr`, `abs_stmt`, `abs_block` below).  Per year and per
variant

    strict   `nnLine`     sum(...) is unknown                           (soundness unconditional)
    sum      `nnLineSum`  sum(...) of not-negative values is not negative (soundness under hypothesis `PySumNN`)

it computes the GREATEST set S of (class, line) pairs of float/int lines that is closed (every line of S passes the
analysis relative to S), by iterating downwards from "all float/int lines", and writes under <out-dir> (default
lean/HabuVerif/Gen)

    C15Sign_<year>.lean        def S_<year> / SS_<year> : SSet  (class code -> line codes; `code` of the code points),
                               the same sets by NAME (`N_<year>`, `NS_<year>`) with `S_<year> = SSet.ofNames N_<year>`,
                               theorem sign_closed_<year>     : closedWith false year<year> S_<year>  = true
                               theorem sign_closed_sum_<year> : closedWith true  year<year> SS_<year> = true
                               (`by decide +kernel`), and the per-line corollaries are in Proofs/SignSound.lean
    c15_sign.json              per year and variant: the set, and for every float/int line NOT in it the reason (which
                               sub-expression is unknown)

EXPECTED lines.  tools/c15_sign_expected.json (written by `--rebaseline` on the reviewed tree) lists the lines that were
in the sets when the tree was reviewed.  A line of the baseline that is no longer in the set (a dropped `max(0, ...)`,
a misplaced parenthesis, a wrong operand, a lost cap) is reported as

    -- FAILED-OBLIGATION <variant> <class>.<line>: <reason>

in the generated module and recorded in c15_sign_failed.json; the closedness theorems are still emitted for the sets
that DO hold, so everything else keeps being checked.  If this mirror and the Lean definition ever disagree the build
of the generated module breaks (`decide` evaluates to false): the intended alarm.
Output is deterministic.  Only files written by this generator are replaced.
"""
import json
import math
import os
import struct
import sys

HERE = os.path.dirname(os.path.abspath(__file__))
TOOLS = HERE if os.path.exists(os.path.join(HERE, 'translate.py')) else '/verif/tools'
if TOOLS not in sys.path:
    sys.path.insert(0, TOOLS)

YEARS = (2021, 2022, 2023)
EXPECTED = os.path.join(TOOLS, 'c15_sign_expected.json')

_ir_cache = {}


def year_ir(year):
    if year not in _ir_cache:
        import translate
        ir, _rep = translate.translate_year(year)
        _ir_cache[year] = ir
    return _ir_cache[year]


# ======================================================================================================
# values of the model (Dsl/Val.lean) as Python values
# ======================================================================================================
class EnumV:
    __slots__ = ('e', 'm')

    def __init__(self, e, m):
        self.e, self.m = e, m

    def __eq__(self, o):
        return isinstance(o, EnumV) and (self.e, self.m) == (o.e, o.m)

    def __hash__(self):
        return hash((self.e, self.m))

    def __str__(self):
        return self.m

    def __format__(self, spec):
        return self.m


def decode(v):
    k = v[0]
    if k == 'none':
        return None
    if k == 'bool':
        return bool(v[1])
    if k == 'int':
        return int(v[1])
    if k == 'float':
        return struct.unpack('>d', bytes.fromhex(v[1]))[0]
    if k == 'str':
        return v[1]
    if k == 'enumv':
        return EnumV(v[1], v[2])
    if k == 'tuple':
        return tuple(decode(x) for x in v[1])
    if k == 'list':
        return [decode(x) for x in v[1]]
    if k == 'dict':
        return {decode(a): decode(b) for a, b in zip(v[1], v[2])}
    raise ValueError(v)


def is_num(x):
    return isinstance(x, (bool, int, float))


def val_nn(x):
    """Val.NN"""
    if isinstance(x, bool):
        return True
    if isinstance(x, float):
        return not (x < 0.0)
    if isinstance(x, int):
        return x >= 0
    return True


def val_nnreal(x):
    if isinstance(x, bool):
        return True
    if isinstance(x, float):
        return not (x < 0.0) and not math.isnan(x)
    if isinstance(x, int):
        return x >= 0
    return False


def val_items_nn(x):
    return isinstance(x, (list, tuple)) and all(val_nn(y) for y in x)


class Err(Exception):
    """the model operation answers `.error _`"""


def as_index(x):
    if isinstance(x, (bool, int)):
        return int(x)
    return None


def py_str(x):
    """Val.pyStr"""
    if x is None or isinstance(x, (bool, int, float, str, EnumV)):
        return str(x)
    raise Err()


def iter_items(x):
    """Val.iterItems"""
    if isinstance(x, (list, tuple)):
        return list(x)
    if isinstance(x, str):
        return list(x)
    if isinstance(x, dict):
        return list(x.keys())
    raise Err()


def model_guard(f):
    def g(*a):
        try:
            return f(*a)
        except Err:
            raise
        except (TypeError, ValueError, ZeroDivisionError, OverflowError, KeyError, IndexError, AttributeError):
            raise Err()
    return g


@model_guard
def apply_bin(op, a, b):
    """Dsl.applyBin"""
    if is_num(a) and is_num(b):
        if op == 'add':
            return a + b
        if op == 'sub':
            return a - b
        if op == 'mul':
            return a * b
        if op == 'div':
            return a / b
    if op == 'add':
        for t in (str, list, tuple):
            if isinstance(a, t) and isinstance(b, t):
                return a + b
        raise Err()
    if op == 'mul':
        for seq, n in ((a, b), (b, a)):
            if isinstance(seq, (str, list, tuple)) and as_index(n) is not None and not is_num(seq):
                if max(as_index(n), 0) * len(seq) > 1000000:
                    raise Err()
                return seq * as_index(n)
        raise Err()
    raise Err()


def ord_ok(a, b):
    """operands `ordCmp` accepts"""
    if isinstance(a, str) and isinstance(b, str):
        return True
    if isinstance(a, list) and isinstance(b, list):
        return True
    if isinstance(a, tuple) and isinstance(b, tuple):
        return True
    return is_num(a) and is_num(b)


@model_guard
def apply_builtin(f, args):
    """Dsl.applyBuiltin"""
    n = len(args)
    if f == 'sum' and n in (1, 2):
        start = args[1] if n == 2 else 0
        if isinstance(start, str):
            raise Err()
        items = iter_items(args[0])
        if not all(is_num(x) for x in items + [start]):
            raise Unsupported('sum of non-numbers')
        return sum(items, start)
    if f in ('min', 'max') and n >= 1:
        items = iter_items(args[0]) if n == 1 else list(args)
        if not items:
            raise Err()
        if not all(is_num(x) for x in items) and not all(isinstance(x, str) for x in items):
            raise Unsupported('min/max of containers')
        return (min if f == 'min' else max)(items)
    if f == 'float' and n == 0:
        return 0.0
    if f == 'float' and n == 1:
        if isinstance(args[0], str):
            raise Unsupported('float(str)')
        if is_num(args[0]):
            return float(args[0])
        raise Err()
    if f == 'str' and n == 0:
        return ''
    if f == 'str' and n == 1:
        return py_str(args[0])
    if f == 'len' and n == 1:
        if isinstance(args[0], (list, tuple, str, dict)):
            return len(args[0])
        raise Err()
    if f == 'round' and n in (1, 2):
        x = args[0]
        if not is_num(x):
            raise Err()
        if n == 1 or args[1] is None:
            return round(x)
        k = as_index(args[1])
        if k is None:
            raise Err()
        if isinstance(x, float) and k < 0:
            raise Unsupported('round(float, negative)')
        return round(x, k) if isinstance(x, float) else (int(x) if k >= 0 else round(int(x), k))
    if f == 'ceil' and n == 1:
        if is_num(args[0]):
            return math.ceil(args[0])
        raise Err()
    if f == 'list' and n == 0:
        return []
    if f == 'list' and n == 1:
        return iter_items(args[0])
    if f == 'range' and n in (1, 2):
        ks = [as_index(a) for a in args]
        if any(k is None for k in ks):
            raise Err()
        lo, hi = (0, ks[0]) if n == 1 else ks
        if hi - lo > 1000000:
            raise Err()
        return list(range(lo, hi))
    raise Err()


class Unsupported(Exception):
    """a constant fold this mirror does not reproduce exactly (never hit on the shipped forms)"""


@model_guard
def get_item(a, b):
    """Val.getItem"""
    if isinstance(a, dict):
        if isinstance(b, (list, dict)):
            raise Err()
        for k, v in a.items():
            if type(k) is type(b) or (is_num(k) and is_num(b)):
                if k == b:
                    return v
        raise Err()
    if isinstance(a, (list, tuple, str)):
        i = as_index(b)
        if i is None:
            raise Err()
        return a[i]
    raise Err()


# ======================================================================================================
# mirror of HabuVerif/Spec/Sign.lean
# ======================================================================================================
class SV:
    __slots__ = ('bot', 'nn', 'num', 'items', 'known', 'key')

    def __init__(self, bot=False, nn=False, num=False, items=False, known=None, key=None):
        self.bot, self.nn, self.num, self.items, self.known, self.key = bot, nn, num, items, known, key

    def ok(self):
        return self.bot or self.nn

    def __repr__(self):
        if self.bot:
            return 'bottom'
        fl = [n for n in ('nn', 'num', 'items') if getattr(self, n)]
        if self.known is not None:
            fl.append(f'known={self.known[0]!r}')
        if self.key is not None:
            fl.append(f'key={self.key}')
        return '{' + ','.join(fl) + '}' if fl else 'any'


def ANY():
    return SV()


def BOTTOM():
    return SV(bot=True)


def flags(nn, num, items):
    return SV(nn=bool(nn), num=bool(num), items=bool(items))


def NUMNN():
    return flags(True, True, False)


def NNONLY():
    return flags(True, False, False)


def of_const(x):
    return SV(nn=val_nn(x), num=is_num(x), items=val_items_nn(x), known=(x,))


def of_r(thunk):
    try:
        return of_const(thunk())
    except Err:
        return BOTTOM()


def join(a, b):
    if a.bot:
        return b
    if b.bot:
        return a
    return flags(a.nn and b.nn, a.num and b.num, a.items and b.items)


def forget(a):
    return SV(bot=a.bot, nn=a.nn, num=a.num, items=a.items)


def sv_le(a, b):
    return a.bot or (not b.bot and (not b.nn or a.nn) and (not b.num or a.num) and (not b.items or a.items)
                     and b.known is None and b.key is None)


def is_real_const(a):
    return a.known is not None and val_nnreal(a.known[0])


def item_of(a):
    return NNONLY() if a.items else ANY()


# environments: list of (name, SV), newest first
def env_get(env, x):
    for n, a in env:
        if n == x:
            return a
    return ANY()


def env_set(env, x, a):
    return [(x, a)] + env


def join_env(e1, e2):
    return [(n, join(a, env_get(e2, n))) for n, a in e1]


def forget_env(e):
    return [(n, forget(a)) for n, a in e]


def env_le(o, inv):
    return all(sv_le(env_get(o, n), a) for n, a in inv)


def join_opt_env(a, b):
    if a is None:
        return b
    if b is None:
        return a
    return join_env(a, b)


def opt_le(o, inv):
    return True if o is None else env_le(o, inv)


class BRes:
    __slots__ = ('next', 'cont', 'brk', 'ret')

    def __init__(self, next=None, cont=None, brk=None, ret=None):
        self.next, self.cont, self.brk, self.ret = next, cont, brk, (ret if ret is not None else BOTTOM())


def b_join(a, b):
    return BRes(join_opt_env(a.next, b.next), join_opt_env(a.cont, b.cont), join_opt_env(a.brk, b.brk),
                join(a.ret, b.ret))


def b_seq(a, b):
    return BRes(b.next, join_opt_env(a.cont, b.cont), join_opt_env(a.brk, b.brk), join(a.ret, b.ret))


def b_stable(b, inv):
    return opt_le(b.next, inv) and opt_le(b.cont, inv)


def b_finish(b, inv):
    return BRes(next=join_opt_env(inv, b.brk), ret=b.ret)


def b_result(b):
    return join(b.ret, of_const(None) if b.next is not None else BOTTOM())


def is_stop(ch):
    return ch in ':.'


def cls_of(s):
    out = []
    for ch in s:
        if is_stop(ch):
            break
        out.append(ch)
    return ''.join(out)


def line_of(s):
    return s.rsplit('.', 1)[1] if '.' in s else s


class K:
    """SCtx plus a log of where `unknown` came from"""

    def __init__(self, ir, cname, ths, S, trust):
        self.ir, self.cname, self.ths, self.S, self.trust = ir, cname, dict_first(ths), S, trust
        self.log = []

    def has(self, cls, ln):
        return (cls, ln) in self.S

    def note(self, what):
        if what not in self.log:
            self.log.append(what)


def dict_first(pairs):
    d = {}
    for n, t in pairs:
        d.setdefault(n, t)
    return d


def read_key(k, key):
    if key.bot:
        return BOTTOM()
    if key.known is not None:
        s = key.known[0]
        if not isinstance(s, str):
            k.note('v[<not a string>]')
            return ANY()
        if '.' in s:
            cl, ln = cls_of(s), line_of(s)
        else:
            cl, ln = k.cname, s
        if k.has(cl, ln):
            return NUMNN()
        k.note(f'reads {cl}.{ln} (not in the set)')
        return ANY()
    if key.key is not None:
        if k.has(*key.key):
            return NUMNN()
        k.note(f'reads {key.key[0]}:*.{key.key[1]} (not in the set)')
        return ANY()
    k.note('v[<computed key>]')
    return ANY()


def known_all(as_):
    out = []
    for a in as_:
        if a.known is None:
            return None
        out.append(a.known[0])
    return out


def fstr_key(as_):
    if len(as_) != 3:
        return None
    a, c = as_[0], as_[2]
    if a.known is None or not isinstance(a.known[0], str) or c.known is None or not isinstance(c.known[0], str):
        return None
    p, q = a.known[0], c.known[0]
    if any(is_stop(ch) for ch in p) and '.' in q:
        return (cls_of(p), line_of(q))
    return None


def fstr_val(as_):
    if any(a.bot for a in as_):
        return BOTTOM()
    cs = known_all(as_)
    if cs is not None:
        return of_r(lambda: ''.join(py_str(c) for c in cs))
    return SV(nn=True, key=fstr_key(as_))


def bin_flags(k, op, a, b):
    if a.bot or b.bot:
        return BOTTOM()
    if op == 'add':
        r = flags(a.nn and b.nn, a.num and b.num, a.items and b.items)
    elif op == 'mul':
        r = flags(a.nn and b.nn, a.num and b.num, False)
    elif op == 'div':
        r = flags(a.nn and b.nn, True, False)
    else:
        r = flags(False, True, False)
        k.note('a - b')
    return r


def bin_val(k, op, a, b):
    if a.known is not None and b.known is not None:
        if a.bot or b.bot:
            return BOTTOM()
        return of_r(lambda: apply_bin(op, a.known[0], b.known[0]))
    return bin_flags(k, op, a, b)


def call_flags(k, f, as_):
    n = len(as_)
    if f == 'sum' and n == 1:
        if as_[0].items and k.trust:
            return NUMNN()
        k.note('sum(...) (compensated float summation: not trusted)' if as_[0].items else 'sum of unknown items')
        return ANY()
    if f in ('min', 'max') and n == 1:
        if as_[0].items:
            return NNONLY()
        k.note(f'{f} of unknown items')
        return ANY()
    if f == 'min' and n >= 2:
        return flags(all(a.nn for a in as_), all(a.num for a in as_), False)
    if f == 'max' and n >= 2:
        return flags(as_[0].nn or any(is_real_const(a) for a in as_), all(a.num for a in as_), False)
    if f == 'float' and n == 1:
        if as_[0].nn and not as_[0].num:
            k.note('float(<not known to be a number>)')
        return flags(as_[0].nn and as_[0].num, True, False)
    if f == 'round' and n >= 1:
        return flags(as_[0].nn, True, False)
    if f == 'ceil' and n == 1:
        return flags(as_[0].nn, True, False)
    if f == 'len' and n == 1:
        return NUMNN()
    if f == 'list' and n == 1:
        return flags(True, False, as_[0].items)
    if f == 'range' and n == 1:
        return flags(True, False, True)
    if f == 'range' and n == 2:
        return flags(True, False, False)
    if f == 'str':
        return NNONLY()
    k.note(f'{f}/{n}')
    return ANY()


def call_val(k, f, as_):
    if any(a.bot for a in as_):
        return BOTTOM()
    cs = known_all(as_)
    if cs is not None:
        return of_r(lambda: apply_builtin(f, cs))
    return call_flags(k, f, as_)


def thresh_val(k, name):
    if name.bot:
        return BOTTOM()
    if name.known is not None and isinstance(name.known[0], str):
        t = k.ths.get(name.known[0])
        if t is None:
            return BOTTOM()
        if t[0] == 'scalar':
            v = decode(t[1])
            r = flags(val_nn(v), is_num(v), False)
        else:
            vs = [decode(v) for _key, v in t[1]]
            r = flags(all(val_nn(v) for v in vs), all(is_num(v) for v in vs), False)
        if not r.nn:
            k.note(f'threshold {name.known[0]} has a negative entry')
        return r
    k.note('threshold(<computed name>)')
    return ANY()


def bind_a(xs, item, env):
    if len(xs) == 1:
        return env_set(env, xs[0], item)
    return []


def const_items(it):
    if it.known is None:
        return None
    try:
        return iter_items(it.known[0])
    except Err:
        return None


def comp_elt(k, env, elt, xs, it):
    items = const_items(it)
    if items is not None and len(xs) == 1:
        r = BOTTOM()
        for item in items:
            r = join(r, abs_expr(k, env_set(env, xs[0], of_const(item)), elt))
        return r
    return abs_expr(k, bind_a(xs, item_of(it), env), elt)


def abs_expr(k, env, e):
    t = e[0]
    E = lambda x: abs_expr(k, env, x)          # noqa: E731
    if t == 'const':
        return of_const(decode(e[1]))
    if t == 'var':
        return env_get(env, e[1])
    if t == 'readI':
        return BOTTOM() if E(e[1]).bot else NNONLY()
    if t == 'readV':
        return read_key(k, E(e[1]))
    if t == 'fstr':
        return fstr_val(abs_args(k, env, e[1]))
    if t == 'bin':
        a = E(e[2])
        b = E(e[3])
        return bin_val(k, e[1], a, b)
    if t in ('neg', 'pos'):
        if E(e[1]).bot:
            return BOTTOM()
        k.note('-a' if t == 'neg' else '+a')
        return flags(False, True, False)
    if t == 'not':
        return BOTTOM() if E(e[1]).bot else NUMNN()
    if t in ('and', 'or'):
        a = E(e[1])
        b = E(e[2])
        return join(a, b)
    if t == 'cmp':
        return BOTTOM() if E(e[1]).bot else NUMNN()
    if t == 'ite':
        if E(e[1]).bot:
            return BOTTOM()
        a = E(e[2])
        b = E(e[3])
        return join(a, b)
    if t == 'call':
        return call_val(k, e[1], abs_args(k, env, e[2]))
    if t in ('method', 'attr'):
        if E(e[2] if t == 'method' else e[1]).bot:
            return BOTTOM()
        k.note('str method' if t == 'method' else 'enum attribute')
        return ANY()
    if t in ('attrFail', 'raise', 'notImpl', 'unsupported'):
        return BOTTOM()
    if t == 'threshold':
        return thresh_val(k, E(e[1]))
    if t == 'thresholdOf':
        if E(e[1]).bot:
            return BOTTOM()
        k.note('threshold of another form')
        return ANY()
    if t == 'loadedForm':
        return BOTTOM() if E(e[1]).bot else NNONLY()
    if t == 'instance':
        return NNONLY()
    if t in ('tuple', 'list'):
        as_ = abs_args(k, env, e[1])
        if any(a.bot for a in as_):
            return BOTTOM()
        cs = known_all(as_)
        if cs is not None:
            return of_const(tuple(cs) if t == 'tuple' else list(cs))
        return flags(True, False, all(a.nn for a in as_))
    if t == 'dict':
        return BOTTOM() if any(a.bot for a in abs_args(k, env, e[2])) else NNONLY()
    if t == 'index':
        a = E(e[1])
        b = E(e[2])
        if a.bot or b.bot:
            return BOTTOM()
        if a.known is not None and b.known is not None:
            return of_r(lambda: get_item(a.known[0], b.known[0]))
        if a.items:
            return NNONLY()
        k.note('x[i] of unknown items')
        return ANY()
    if t == 'slice':
        if E(e[1]).bot or E(e[2]).bot or E(e[3]).bot:
            return BOTTOM()
        k.note('slice')
        return ANY()
    if t == 'listComp':
        it = E(e[3])
        if it.bot:
            return BOTTOM()
        r = comp_elt(k, env, e[1], e[2], it)
        return flags(True, False, r.ok())
    if t == 'sumGen':
        it = E(e[3])
        if it.bot:
            return BOTTOM()
        r = comp_elt(k, env, e[1], e[2], it)
        if r.ok() and k.trust:
            return NUMNN()
        k.note('sum(...) (compensated float summation: not trusted)' if r.ok() else 'sum of unknown items')
        return ANY()
    if t == 'callHelper':
        as_ = abs_args(k, env, e[2])
        if any(a.bot for a in as_):
            return BOTTOM()
        if len(as_) != len(e[1]):
            return BOTTOM()
        henv = [(n, of_const(decode(v))) for n, v in e[3]]
        for n, a in zip(e[1], as_):
            henv = env_set(henv, n, a)
        return b_result(abs_block(k, henv, e[4]))
    if t == 'global':
        k.note(f'global {e[1]}')
        return ANY()
    raise ValueError(e)


def abs_args(k, env, es):
    return [abs_expr(k, env, x) for x in es]


def abs_stmt(k, env, s):
    t = s[0]
    if t == 'assign':
        a = abs_expr(k, env, s[2])
        return BRes() if a.bot else BRes(next=env_set(env, s[1], a))
    if t == 'unpack':
        return BRes() if abs_expr(k, env, s[2]).bot else BRes(next=[])
    if t == 'aug':
        a = abs_expr(k, env, s[3])
        return BRes() if a.bot else BRes(next=env_set(env, s[1], bin_flags(k, s[2], env_get(env, s[1]), a)))
    if t == 'ifS':
        if abs_expr(k, env, s[1]).bot:
            return BRes()
        a = abs_block(k, env, s[2])
        b = abs_block(k, env, s[3])
        return b_join(a, b)
    if t == 'forS':
        it = abs_expr(k, env, s[2])
        if it.bot:
            return BRes()
        item = item_of(it)
        c1 = forget_env(env)
        b1 = abs_block(k, bind_a(s[1], item, c1), s[3])
        if b_stable(b1, c1):
            return b_finish(b1, c1)
        o = join_opt_env(b1.next, b1.cont)
        c2 = join_env(c1, o if o is not None else [])
        b2 = abs_block(k, bind_a(s[1], item, c2), s[3])
        if b_stable(b2, c2):
            return b_finish(b2, c2)
        return b_finish(abs_block(k, bind_a(s[1], item, []), s[3]), [])
    if t == 'ret':
        return BRes(ret=abs_expr(k, env, s[1]))
    if t == 'expr':
        return BRes() if abs_expr(k, env, s[1]).bot else BRes(next=env)
    if t == 'append':
        a = abs_expr(k, env, s[2])
        return BRes() if a.bot else BRes(next=env_set(env, s[1], flags(True, False, env_get(env, s[1]).items and a.nn)))
    if t == 'assertS':
        return BRes() if abs_expr(k, env, s[1]).bot else BRes(next=env)
    if t == 'continueS':
        return BRes(cont=env)
    if t == 'breakS':
        return BRes(brk=env)
    if t == 'pass':
        return BRes(next=env)
    raise ValueError(s)


def abs_block(k, env, ss):
    if not ss:
        return BRes(next=env)
    r = abs_stmt(k, env, ss[0])
    if r.next is None:
        return r
    return b_seq(r, abs_block(k, r.next, ss[1:]))


def abs_body(k, line):
    return b_result(abs_block(k, [(n, of_const(decode(v))) for n, v in line['defaults']], line['body']))


def kind_ok(kind):
    return kind[0] in ('float', 'int')


def class_ok(c):
    return not any(is_stop(ch) for ch in c['name'])


def nn_line(ir, S, c, line, trust):
    """(nnLineWith trust year S c line, where unknown came from)"""
    if not kind_ok(line['kind']):
        return False, ['not a float/int line']
    if not class_ok(c):
        return False, ['class name contains : or .']
    k = K(ir, c['name'], c['thresholds'], S, trust)
    r = abs_body(k, line)
    return r.ok(), k.log


# ======================================================================================================
# the greatest closed set
# ======================================================================================================
def numeric_lines(ir):
    return {(c['name'], l['name']) for c in ir['classes'] for l in c['lines'] if kind_ok(l['kind'])}


def greatest_closed(ir, trust):
    S = numeric_lines(ir)
    rounds = 0
    while True:
        rounds += 1
        bad = set()
        for c in ir['classes']:
            for l in c['lines']:
                p = (c['name'], l['name'])
                if p in S and not nn_line(ir, S, c, l, trust)[0]:
                    bad.add(p)
        if not bad:
            return S, rounds
        S = S - bad


def reasons(ir, S, trust):
    out = {}
    for c in ir['classes']:
        for l in c['lines']:
            p = (c['name'], l['name'])
            if kind_ok(l['kind']) and p not in S:
                ok, log = nn_line(ir, S, c, l, trust)
                out[f'{p[0]}.{p[1]}'] = '; '.join(log) if log else ('passes now, excluded with a cycle' if ok else 'unknown')
    return out


# ======================================================================================================
# Lean output
# ======================================================================================================
def code(s):
    a = 1
    for ch in s:
        a = a * 0x110000 + ord(ch)
    return a


def lean_str(s):
    out = ['"']
    for ch in s:
        if ch == '"':
            out.append('\\"')
        elif ch == '\\':
            out.append('\\\\')
        elif ord(ch) < 32 or ord(ch) > 126:
            out.append('\\u{%x}' % ord(ch))
        else:
            out.append(ch)
    out.append('"')
    return ''.join(out)


def grouped(ir, S):
    """class names in catalogue order (first occurrence), each with its lines of S in declaration order"""
    out, seen = [], set()
    for c in ir['classes']:
        if c['name'] in seen:
            continue
        seen.add(c['name'])
        lines, lseen = [], set()
        for cc in ir['classes']:
            if cc['name'] != c['name']:
                continue
            for l in cc['lines']:
                if (c['name'], l['name']) in S and l['name'] not in lseen:
                    lseen.add(l['name'])
                    lines.append(l['name'])
        if lines:
            out.append((c['name'], lines))
    return out


def lean_sets(name, nname, groups):
    rows = []
    for cn, lines in groups:
        rows.append(f'  ({code(cn)}, [{", ".join(str(code(l)) for l in lines)}])')
    nrows = []
    for cn, lines in groups:
        nrows.append(f'  ({lean_str(cn)}, [{", ".join(lean_str(l) for l in lines)}])')
    return (f'def {nname} : List (String × List String) := [\n' + ',\n'.join(nrows) + ']\n\n'
            f'def {name} : SSet := [\n' + ',\n'.join(rows) + ']\n')


def generate(years, out_dir, rebaseline=False, quiet=False):
    expected = {}
    if os.path.exists(EXPECTED) and not rebaseline:
        with open(EXPECTED, encoding='utf-8') as f:
            expected = json.load(f)
    new_expected, report, failed = {}, {}, []
    for year in years:
        ir = year_ir(year)
        total = len(numeric_lines(ir))
        rep = {'numeric_lines': total}
        text = [f'/- GENERATED by tools/gen_c15_sign.py from the habutax working tree — do not edit. -/',
                'import HabuVerif.Spec.Sign', f'import HabuVerif.Gen.Catalogue{year}',
                'set_option autoImplicit false', 'set_option maxRecDepth 100000',
                f'namespace HabuVerif.Gen.C15Sign_{year}', 'open HabuVerif HabuVerif.Dsl HabuVerif.Sign HabuVerif.Gen', '']
        for variant, trust, sname, nname, thm in (('strict', False, f'S_{year}', f'N_{year}', f'sign_closed_{year}'),
                                                  ('sum', True, f'SS_{year}', f'NS_{year}', f'sign_closed_sum_{year}')):
            S, rounds = greatest_closed(ir, trust)
            why = reasons(ir, S, trust)
            names = sorted(f'{a}.{b}' for a, b in S)
            new_expected.setdefault(str(year), {})[variant] = names
            exp = names if rebaseline or str(year) not in expected else expected[str(year)].get(variant, names)
            lost = [n for n in exp if n not in set(names)]
            rep[variant] = {'size': len(S), 'rounds': rounds, 'in': names, 'not_in': why, 'lost': lost}
            for n in lost:
                failed.append({'year': year, 'variant': variant, 'line': n, 'witness': why.get(n, 'line vanished')})
                text.append(f'-- FAILED-OBLIGATION {variant} {n}: {why.get(n, "line vanished")}'.replace('-/', '- /'))
            groups = grouped(ir, S)
            text.append(f'/-- the greatest closed set of the `{variant}` variant: {len(S)} of {total} float/int lines -/')
            text.append(lean_sets(sname, nname, groups))
            text.append(f'theorem {sname}_names : {sname} = SSet.ofNames {nname} := by decide +kernel\n')
            text.append(f'theorem {thm} : closedWith {"true" if trust else "false"} year{year} {sname} = true := by decide +kernel\n')
            if not quiet:
                print(f'{year} {variant}: |S| = {len(S)} of {total} float/int lines ({rounds} rounds), lost vs baseline: {len(lost)}')
        text.append(f'end HabuVerif.Gen.C15Sign_{year}')
        report[str(year)] = rep
        os.makedirs(out_dir, exist_ok=True)
        with open(os.path.join(out_dir, f'C15Sign_{year}.lean'), 'w', encoding='utf-8') as f:
            f.write('\n'.join(text) + '\n')
    with open(os.path.join(out_dir, 'c15_sign.json'), 'w', encoding='utf-8') as f:
        json.dump(report, f, indent=1, sort_keys=True)
        f.write('\n')
    with open(os.path.join(out_dir, 'c15_sign_failed.json'), 'w', encoding='utf-8') as f:
        json.dump(failed, f, indent=1, sort_keys=True)
        f.write('\n')
    if rebaseline:
        with open(EXPECTED, 'w', encoding='utf-8') as f:
            json.dump(new_expected, f, indent=1, sort_keys=True)
            f.write('\n')
    return report, failed


def main(argv):
    out_dir = os.path.join(os.path.dirname(TOOLS), 'lean', 'HabuVerif', 'Gen')
    years, rebaseline, quiet = YEARS, False, False
    k = 1
    while k < len(argv):
        a = argv[k]
        if a == '--out-dir':
            out_dir = argv[k + 1]
            k += 1
        elif a == '--years':
            years = tuple(int(y) for y in argv[k + 1].split(','))
            k += 1
        elif a == '--rebaseline':
            rebaseline = True
        elif a == '--quiet':
            quiet = True
        else:
            raise SystemExit(f'unknown argument {a}')
        k += 1
    generate(years, out_dir, rebaseline, quiet)
    return 0


if __name__ == '__main__':
    sys.exit(main(sys.argv))
