#!/venv/bin/python
"""Generate the Lean obligations for C10 (every name a form definition can refer to resolves).

    python gen_c10.py [--out-dir DIR] [--years 2021,2022,2023] [--quiet]

The decision procedure is lean/HabuVerif/Dsl/RefsCheck.lean (sound: Proofs/RefsCheckSound.lean).  For every year,
under <out-dir> (default lean/HabuVerif/Gen):

    C10_<year>_ix.lean     the index of the year as a LITERAL (names as ASCII code lists: strings are hopeless in the
                           kernel), the reviewed list of deliberately absent forms (tools/c10_absent_forms.json), the
                           list `bad<year>` of (class, line) pairs whose references do NOT resolve on this tree, and
                               theorem ix<year>_ok  : mkIx year<year> = some ix<year>              := by decide +kernel
                               theorem abs<year>_ok : codesAll? absent<year> = some absentN<year>  := by decide +kernel
    C10_<year>_<k>.lean    per class (packed into part modules that build in parallel)
                               theorem r_<class> : classRefsOK env<year> bad<year> Y<year>.c_<class> = true
                               theorem s_<class> : classScanOK year<year> Y<year>.c_<class> = true
                           and for what fails on the current tree, the PROVED NEGATIONS
                               -- FAILED-OBLIGATION <id> <witness>
                               theorem r_<class>_all : classRefsOK env<year> [] Y<year>.c_<class> = false
                               theorem bad_<class>_l<k> : lineFails env<year> Y<year>.c_<class> <line def> = true
                               theorem s_<class> : classScanOK ... = false,  theorem sbad_<class>_l<k> : lineScanOK ... = false
    C10_<year>.lean        the assembled theorem
                               theorem c10_<year> : Resolves cat<year> (fun f => classOf f ∈ absent<year>)
                           when every class passes, otherwise
                               theorem c10_<year>_rest : ResolvesExcept cat<year> (…) (BadLine year<year> bad<year>)
                           (the resolution property for every line program but the listed ones).
    c10_obligations.json   every obligation with its status;  c10_failed.json  the failed ones with a WITNESS:
                           class, line, `v`/`i`, the pattern, an unresolved name it stands for, and why.

Which obligations hold is decided here by a line-by-line Python mirror of Dsl/Refs.lean (`refs_of_line`) and of
Dsl/RefsCheck.lean (`pat_ok`, `scan_*`) on the translator's IR.  If mirror and Lean definition ever disagree, the
build of the generated module breaks (in either direction): the intended alarm.  Output is deterministic; only
files written by this generator are replaced.
"""
import json
import os
import re
import sys

HERE = os.path.dirname(os.path.abspath(__file__))
if HERE not in sys.path:
    sys.path.insert(0, HERE)

YEARS = (2021, 2022, 2023)
ABSENT = os.path.join(HERE, 'c10_absent_forms.json')
STAR_WINDOW = 64          # how far an unbounded {n} hole is explored when looking for a witness

_ir_cache = {}


def year_ir(year):
    if year not in _ir_cache:
        import translate
        ir, _rep = translate.translate_year(year)
        _ir_cache[year] = ir
    return _ir_cache[year]


def load_absent():
    with open(ABSENT, encoding='utf-8') as f:
        data = json.load(f)
    return {int(y): [e['form'] for e in data[y]] for y in data if y.isdigit()}


# ======================================================================================================
# mirror of HabuVerif/Dsl/Refs.lean
# ======================================================================================================
ANY = ('any',)
INST = ('inst',)


def a_str(pieces):
    return ('str', tuple(pieces))


def a_int(lo, hi):
    return ('int', lo, hi)


def a_items(a):
    return ('items', a)


def pieces_of(a):
    if a[0] == 'str':
        return list(a[1])
    if a[0] == 'int':
        return [('nat', a[1], a[2])]
    if a[0] == 'inst':
        return [('inst',)]
    if a[0] == 'intOneOf':
        return [('oneOf', tuple(str(n) for n in a[1]))]
    return [('any',)]


def opt_max(a, b):
    return max(a, b) if a is not None and b is not None else None


def opt_add_hi(a, b):
    return max(a + b - 1, 0) if a is not None and b is not None else None


def str_choices(a):
    if a[0] == 'str' and len(a[1]) == 1:
        p = a[1][0]
        if p[0] == 'lit':
            return [p[1]]
        if p[0] == 'oneOf':
            return list(p[1])
    return None


def nat_choices(a):
    """AVal.natChoices: a bounded int description as the finite list of naturals it stands for"""
    if a[0] == 'int' and a[2] is not None:
        return list(range(a[1], max(a[2], a[1])))          # List.range' lo (hi - lo), Nat subtraction
    if a[0] == 'intOneOf':
        return list(a[1])
    return None


def nat_union(x, y):
    return list(x) + [n for n in y if n not in x]


def nat_hull(u):
    lo = min(u) if u else 0                                # u.foldl min (u.headD 0)
    hi = max(list(u) + [0]) + 1                            # u.foldl max 0 + 1
    return a_int(lo, hi)


def join_nats(x, y):
    u = nat_union(x, y)
    h = nat_hull(u)
    if len(u) == max(h[2] - h[1], 0):
        return h
    if len(u) <= 64:
        return ('intOneOf', tuple(u))
    return h


def join(a, b):
    if a == b:
        return a
    x, y = nat_choices(a), nat_choices(b)
    if x is not None and y is not None:
        return join_nats(x, y)
    if a[0] == 'int' and b[0] == 'int':
        return a_int(min(a[1], b[1]), opt_max(a[2], b[2]))
    x, y = str_choices(a), str_choices(b)
    if x is not None and y is not None:
        return a_str([('oneOf', tuple(x + y))])
    return ANY


def join_all(xs):
    if not xs:
        return ANY
    if len(xs) == 1:
        return xs[0]
    return join(xs[0], join_all(xs[1:]))


def items_of(a):
    if a[0] == 'items':
        return a[1]
    if a[0] == 'str' and len(a[1]) == 1 and a[1][0][0] == 'lit':
        return a_str([('oneOf', tuple(a[1][0][1]))])      # the characters of the literal
    return ANY


def abs_elem(v):
    if v[0] == 'str':
        return a_str([('lit', v[1])])
    if v[0] == 'int':
        return a_int(v[1], v[1] + 1) if v[1] >= 0 else ANY
    return ANY


def abs_val(v):
    if v[0] == 'str':
        return a_str([('lit', v[1])])
    if v[0] == 'int':
        return a_int(v[1], v[1] + 1) if v[1] >= 0 else ANY
    if v[0] in ('list', 'tuple'):
        return a_items(join_all([abs_elem(x) for x in v[1]]))
    return ANY


def range_hi(a):
    if a[0] == 'int' and a[2] is not None:
        return max(a[2] - 1, 0)
    return None


def modifies(s):
    k = s[0]
    if k == 'assign':
        return [s[1]]
    if k == 'unpack':
        return list(s[1])
    if k == 'aug':
        return [s[1]]
    if k == 'ifS':
        return modifies_b(s[2]) + modifies_b(s[3])
    if k == 'forS':
        return list(s[1]) + modifies_b(s[3])
    if k == 'append':
        return [s[1]]
    return []


def modifies_b(ss):
    out = []
    for s in ss:
        out += modifies(s)
    return out


def env_get(G, x):
    for k, a in G:
        if k == x:
            return a
    return ANY


def env_erase(G, xs):
    return [p for p in G if p[0] not in xs]


def env_bind(G, xs, a):
    if len(xs) == 1:
        return [(xs[0], a)] + G
    return env_erase(G, xs)


def env_set(G, x, a):
    if any(k == x for k, _ in G):
        return [(x, a) if k == x else (k, b) for k, b in G]
    return [(x, a)] + G


def helper_env(params, args, defaults, body):
    G = [(n, abs_val(v)) for n, v in defaults]
    for p, a in zip(params, args):
        G = env_set(G, p, a)
    return env_erase(G, modifies_b(body))


def loop_env(G, xs, a, body):
    if len(xs) == 1:
        return G if xs[0] in modifies_b(body) else [(xs[0], a)] + G
    return G


def abs_bin(op, a, b):
    if op == 'add' and a[0] == 'items' and b[0] == 'items':
        return a_items(join(a[1], b[1]))
    if op == 'add' and a[0] == 'int' and b[0] == 'int':
        return a_int(a[1] + b[1], opt_add_hi(a[2], b[2]))
    return ANY


def abs_call(f, args):
    if f == 'range' and len(args) == 1:
        return a_items(a_int(0, range_hi(args[0])))
    if f == 'range' and len(args) == 2 and args[0][0] == 'int':
        return a_items(a_int(args[0][1], range_hi(args[1])))
    if f == 'list' and len(args) == 1:
        return a_items(items_of(args[0]))
    return ANY


def abs_e(G, e):
    k = e[0]
    if k == 'const':
        return abs_val(e[1])
    if k == 'var':
        return env_get(G, e[1])
    if k == 'fstr':
        ps = []
        for x in e[1]:
            ps += pieces_of(abs_e(G, x))
        return a_str(ps)
    if k == 'instance':
        return INST
    if k == 'call':
        return abs_call(e[1], [abs_e(G, x) for x in e[2]])
    if k == 'bin':
        return abs_bin(e[1], abs_e(G, e[2]), abs_e(G, e[3]))
    if k in ('list', 'tuple'):
        return a_items(join_all([abs_e(G, x) for x in e[1]]))
    if k == 'ite':
        return join(abs_e(G, e[2]), abs_e(G, e[3]))
    return ANY


class Refs:
    def __init__(self):
        self.v = []
        self.i = []


def refs_e(G, e, R):
    k = e[0]
    if k in ('const', 'var', 'raise', 'instance', 'global', 'unsupported'):
        return
    if k == 'readI':
        R.i.append(pieces_of(abs_e(G, e[1])))
        refs_e(G, e[1], R)
    elif k == 'readV':
        R.v.append(pieces_of(abs_e(G, e[1])))
        refs_e(G, e[1], R)
    elif k in ('fstr', 'notImpl', 'tuple', 'list'):
        refs_es(G, e[1], R)
    elif k == 'bin':
        refs_e(G, e[2], R)
        refs_e(G, e[3], R)
    elif k in ('neg', 'pos', 'not', 'attrFail', 'loadedForm'):
        refs_e(G, e[1], R)
    elif k in ('and', 'or', 'index'):
        refs_e(G, e[1], R)
        refs_e(G, e[2], R)
    elif k == 'cmp':
        refs_e(G, e[1], R)
        refs_es(G, e[3], R)
    elif k in ('ite', 'slice'):
        refs_e(G, e[1], R)
        refs_e(G, e[2], R)
        refs_e(G, e[3], R)
    elif k == 'call':
        refs_es(G, e[2], R)
    elif k == 'method':
        refs_e(G, e[2], R)
        refs_es(G, e[3], R)
    elif k == 'attr':
        refs_e(G, e[1], R)
    elif k == 'threshold':
        refs_e(G, e[1], R)
        refs_e(G, e[3], R)
    elif k == 'thresholdOf':
        refs_e(G, e[1], R)
        refs_e(G, e[2], R)
        refs_e(G, e[4], R)
    elif k == 'dict':
        refs_es(G, e[2], R)
    elif k in ('listComp', 'sumGen'):
        refs_e(G, e[3], R)
        G2 = env_bind(G, list(e[2]), items_of(abs_e(G, e[3])))
        refs_es(G2, e[4], R)
        refs_e(G2, e[1], R)
    elif k == 'callHelper':
        refs_es(G, e[2], R)
        refs_b(helper_env(list(e[1]), [abs_e(G, x) for x in e[2]], e[3], e[4]), e[4], R)
    else:
        raise ValueError(e)


def refs_es(G, es, R):
    for e in es:
        refs_e(G, e, R)


def refs_s(G, s, R):
    k = s[0]
    if k == 'assign':
        refs_e(G, s[2], R)
    elif k == 'unpack':
        refs_e(G, s[2], R)
    elif k == 'aug':
        refs_e(G, s[3], R)
    elif k == 'ifS':
        refs_e(G, s[1], R)
        refs_b(G, s[2], R)
        refs_b(G, s[3], R)
    elif k == 'forS':
        refs_e(G, s[2], R)
        refs_b(loop_env(G, list(s[1]), items_of(abs_e(G, s[2])), s[3]), s[3], R)
    elif k in ('ret', 'expr'):
        refs_e(G, s[1], R)
    elif k == 'append':
        refs_e(G, s[2], R)
    elif k == 'assertS':
        refs_e(G, s[1], R)
        refs_e(G, s[2], R)
    elif k in ('continueS', 'breakS', 'pass'):
        pass
    else:
        raise ValueError(s)


def refs_b(G, ss, R):
    for s in ss:
        refs_s(G, s, R)


def refs_of_line(line):
    """(refsV, refsI) of a line of the IR"""
    G = env_erase([(n, abs_val(v)) for n, v in line['defaults']], modifies_b(line['body']))
    R = Refs()
    refs_b(G, line['body'], R)
    return R.v, R.i


def show_piece(p):
    if p[0] == 'lit':
        return p[1]
    if p[0] == 'nat':
        return '{%d..%s}' % (p[1], '' if p[2] is None else p[2])
    if p[0] == 'oneOf':
        return '{' + '|'.join(p[1]) + '}'
    if p[0] == 'inst':
        return '{instance}'
    return '{?}'


def show_pat(p):
    return ''.join(show_piece(x) for x in p)


# ======================================================================================================
# mirror of HabuVerif/Dsl/RefsCheck.lean  (on Python strings; `None` = not ASCII)
# ======================================================================================================
def codes(s):
    return s if s.isascii() else None


def codes_all(ss):
    return list(ss) if all(s.isascii() for s in ss) else None


class Entry:
    def __init__(self, c):
        self.name = c['name']
        self.any_inst = c['instRule'][0] == 'any'
        self.insts = [] if self.any_inst else list(c['instRule'][1])
        self.lines = [l['name'] for l in c['lines']]
        self.inputs = [n for n, _ in c['inputs']]
        self.ascii = all(s.isascii() for s in [self.name] + self.lines + self.inputs + self.insts)
        self.ok = all('.' not in s for s in [self.name] + self.lines + self.inputs)

    def names(self, v):
        return self.lines if v else self.inputs

    def accepts(self, inst):
        if inst is None:
            return self.any_inst
        return self.any_inst or inst in self.insts


class Env:
    def __init__(self, ir, absent):
        self.entries = [Entry(c) for c in reversed(ir['classes'])]
        self.valid = all(e.ascii for e in self.entries) and all(a.isascii() for a in absent)
        self.absent = list(absent)

    def lookup(self, cn):
        for e in self.entries:
            if e.name == cn:
                return e
        return None


def form_key_ok(E, v, f, k):
    """(ok, reason)"""
    if ':' not in f:
        cn, inst = f, None
    else:
        cn, inst = f.split(':', 1)
        if ':' in inst:
            return False, f'form name {f!r} has more than one colon'
    e = E.lookup(cn)
    if e is None:
        if cn in E.absent:
            return True, f'form class {cn!r} is deliberately absent'
        return False, f'no form class {cn!r} in the year\'s form list (and it is not listed as deliberately absent)'
    if not e.ok:
        return False, f'class {cn!r} violates a naming assertion'
    if not e.accepts(inst):
        return False, f'class {cn!r} does not accept instance {inst!r}'
    if k not in e.names(v):
        return False, f'form {f!r} has no {"line" if v else "input"} {k!r}'
    return True, ''


def name_ok(E, v, m):
    if '.' not in m:
        return False, 'no dot'
    f, k = m.split('.', 1)
    if '.' in k:
        return False, f'name {m!r} has more than one dot'
    return form_key_ok(E, v, f, k)


def key_ok(E, v, own, k):
    if '.' in k:
        return name_ok(E, v, k)
    if k in own.names(v):
        return True, ''
    return False, f'the own form {own.name!r} has no {"line" if v else "input"} {k!r}'


def piece_expand(inst, p):
    if p[0] == 'lit':
        c = codes(p[1])
        return None if c is None else [c]
    if p[0] == 'nat':
        if p[2] is None:
            return None
        return [str(n) for n in range(p[1], p[1] + max(p[2] - p[1], 0))]
    if p[0] == 'oneOf':
        return codes_all(p[1])
    if p[0] == 'inst':
        return None if inst is None else [inst]
    return None


def expand_pat(inst, pat):
    if not pat:
        return ['']
    a = piece_expand(inst, pat[0])
    if a is None:
        return None
    b = expand_pat(inst, pat[1:])
    if b is None:
        return None
    return [x + y for x in a for y in b]


def star_ok(E, v, pat):
    if len(pat) != 3 or pat[0][0] != 'lit' or pat[1][0] != 'nat' or pat[1][2] is not None or pat[2][0] != 'lit':
        return False
    a, b = codes(pat[0][1]), codes(pat[2][1])
    if a is None or b is None or b == '':
        return False
    if b[0] != '.' or '.' in b[1:]:
        return False
    k = b[1:]
    if ':' not in a:
        return False
    cn, rest = a.split(':', 1)
    if rest != '' or '.' in cn:
        return False
    e = E.lookup(cn)
    if e is None:
        return cn in E.absent
    return e.ok and e.any_inst and k in e.names(v)


def keys_ok(E, v, own, ks):
    if ks is None:
        return False
    return all(key_ok(E, v, own, k)[0] for k in ks)


def pat_ok(E, v, own, pat):
    if star_ok(E, v, pat):
        return True
    if own.any_inst:
        return keys_ok(E, v, own, expand_pat(None, pat))
    return all(keys_ok(E, v, own, expand_pat(i, pat)) for i in own.insts)


def own_ix(E, c):
    if codes(c['name']) is None:
        return None
    return E.lookup(c['name'])


def qualified(own_name, inst, key):
    return key if '.' in key else f'{own_name}{":" + inst if inst else ""}.{key}'


def witness_of(E, v, own, pat):
    """an unresolved name the failing pattern stands for, and why"""
    insts = [None] if own.any_inst else list(own.insts)
    for inst in insts:
        ks = expand_pat(inst, pat)
        if ks is not None:
            for k in ks:
                ok, why = key_ok(E, v, own, k)
                if not ok:
                    return {'name': qualified(own.name, inst, k), 'key': k, 'instance': inst, 'why': why}
            continue
        # not finitely expandable: say why, and explore unbounded holes for a concrete culprit
        kinds = [p[0] for p in pat]
        if any(p[0] == 'lit' and codes(p[1]) is None for p in pat) or \
                any(p[0] == 'oneOf' and codes_all(p[1]) is None for p in pat):
            return {'name': None, 'key': None, 'instance': inst, 'why': 'a name with a non-ASCII character'}
        if 'any' in kinds or ('inst' in kinds and inst is None):
            return {'name': None, 'key': None, 'instance': inst,
                    'why': 'part of the key is computed at run time (not a literal, a loop index or the instance '
                           'of a finite-instance form): cannot be resolved statically'}
        bounded = [('nat', p[1], p[1] + STAR_WINDOW) if p[0] == 'nat' and p[2] is None else p for p in pat]
        for k in expand_pat(inst, bounded) or []:
            ok, why = key_ok(E, v, own, k)
            if not ok:
                return {'name': qualified(own.name, inst, k), 'key': k, 'instance': inst,
                        'why': f'the loop index is not bounded by the code; {why}'}
        return {'name': None, 'key': None, 'instance': inst,
                'why': f'unbounded loop index outside the instance position of a form that accepts every instance '
                       f'(no unresolved name below index {STAR_WINDOW})'}
    return {'name': None, 'key': None, 'instance': None, 'why': 'the class accepts no instance'}


# ---- structural scan -----------------------------------------------------------------------------------
def class_of(f):
    return f.split(':', 1)[0]


def thresh_known(ths, name):
    return name[0] == 'const' and name[1][0] == 'str' and any(n == name[1][1] for n, _ in ths)


def thresholds_of(ir, form):
    if form[0] == 'const' and form[1][0] == 'str':
        for c in reversed(ir['classes']):
            if c['name'] == class_of(form[1][1]):
                return c['thresholds']
    return None


def scan_e(ir, ths, e, out):
    """append (what) for every offending node"""
    k = e[0]
    S = lambda x: scan_e(ir, ths, x, out)          # noqa: E731
    SS = lambda xs: [scan_e(ir, ths, x, out) for x in xs]    # noqa: E731
    if k in ('const', 'var', 'instance'):
        return
    if k in ('readI', 'readV', 'neg', 'pos', 'not', 'loadedForm'):
        S(e[1])
    elif k in ('fstr', 'notImpl', 'tuple', 'list'):
        SS(e[1])
    elif k == 'bin':
        S(e[2]), S(e[3])
    elif k in ('and', 'or', 'index'):
        S(e[1]), S(e[2])
    elif k == 'cmp':
        S(e[1]), SS(e[3])
    elif k in ('ite', 'slice'):
        S(e[1]), S(e[2]), S(e[3])
    elif k == 'call':
        SS(e[2])
    elif k == 'method':
        S(e[2]), SS(e[3])
    elif k == 'attr':
        S(e[1])
    elif k == 'attrFail':
        out.append('attribute access that raises AttributeError')
    elif k == 'raise':
        if e[1] in ('attributeError', 'nameError', 'unsupported', 'internal'):
            out.append(f'raises {e[1]}')
    elif k == 'threshold':
        if not thresh_known(ths, e[1]):
            out.append('threshold name is not a constant of the form\'s threshold table: ' + describe_name(e[1]))
        S(e[3])
    elif k == 'thresholdOf':
        t2 = thresholds_of(ir, e[1])
        if t2 is None:
            out.append('threshold of a form that is not a constant name of the year\'s form list')
        elif not thresh_known(t2, e[2]):
            out.append('threshold name is not a constant of the other form\'s threshold table: ' + describe_name(e[2]))
        S(e[4])
    elif k == 'dict':
        SS(e[2])
    elif k in ('listComp', 'sumGen'):
        S(e[1]), S(e[3]), SS(e[4])
    elif k == 'callHelper':
        SS(e[2])
        scan_b(ir, ths, e[4], out)
    elif k == 'global':
        if not any(n == e[1] for n, _ in ir['globals']):
            out.append(f'unknown global {e[1]!r}')
    elif k == 'unsupported':
        out.append(f'construct outside the translated subset: {e[1]}')
    else:
        raise ValueError(e)


def describe_name(e):
    if e[0] == 'const' and e[1][0] == 'str':
        return repr(e[1][1])
    if e[0] == 'fstr':
        return 'f"' + ''.join(x[1][1] if x[0] == 'const' and x[1][0] == 'str' else '{…}' for x in e[1]) + '"'
    return f'<{e[0]}>'


def scan_s(ir, ths, s, out):
    k = s[0]
    if k in ('assign', 'unpack'):
        scan_e(ir, ths, s[2], out)
    elif k == 'aug':
        scan_e(ir, ths, s[3], out)
    elif k == 'ifS':
        scan_e(ir, ths, s[1], out)
        scan_b(ir, ths, s[2], out)
        scan_b(ir, ths, s[3], out)
    elif k == 'forS':
        scan_e(ir, ths, s[2], out)
        scan_b(ir, ths, s[3], out)
    elif k in ('ret', 'expr'):
        scan_e(ir, ths, s[1], out)
    elif k == 'append':
        scan_e(ir, ths, s[2], out)
    elif k == 'assertS':
        scan_e(ir, ths, s[1], out)
        scan_e(ir, ths, s[2], out)
    elif k in ('continueS', 'breakS', 'pass'):
        pass
    else:
        raise ValueError(s)


def scan_b(ir, ths, ss, out):
    for s in ss:
        scan_s(ir, ths, s, out)


def scan_line(ir, c, line):
    out = []
    scan_b(ir, c['thresholds'], line['body'], out)
    return out


# ======================================================================================================
# analysis of a year
# ======================================================================================================
def analyse_year(year, absent):
    ir = year_ir(year)
    E = Env(ir, absent)
    res = {'ir': ir, 'env': E, 'classes': []}
    for c in ir['classes']:
        own = own_ix(E, c) if E.valid else None
        entry = {'name': c['name'], 'own': own is not None, 'lines': [], 'patterns': 0}
        for k, l in enumerate(c['lines']):
            rv, ri = refs_of_line(l)
            entry['patterns'] += len(rv) + len(ri)
            fails = []
            if own is not None:
                seen = set()
                for v, pats in ((True, rv), (False, ri)):
                    for p in pats:
                        key = (v, show_pat(p))
                        if not pat_ok(E, v, own, p) and key not in seen:
                            seen.add(key)
                            w = witness_of(E, v, own, p)
                            fails.append(dict(w, kind='v' if v else 'i', pattern=show_pat(p)))
            entry['lines'].append({'k': k, 'name': l['name'], 'refs_fail': fails, 'scan_fail': scan_line(ir, c, l),
                                   'npat': len(rv) + len(ri)})
        res['classes'].append(entry)
    return res


# ======================================================================================================
# generation
# ======================================================================================================
def lean_str(s):
    return json.dumps(s, ensure_ascii=False)


def ident(s):
    return ''.join(ch if ch.isalnum() else '_' for ch in s)


def comment_safe(s):
    return str(s).replace('\n', ' ').replace('-/', '- /').replace('/-', '/ -')


def lean_codes(s):
    return '[' + ', '.join(str(b) for b in s.encode('ascii')) + ']'


def lean_codes_list(ss):
    return '[' + ', '.join(lean_codes(s) for s in ss) + ']'


def lean_entry(e):
    return ('{ name := %s, anyInst := %s, insts := %s, ok := %s, lines := %s, inputs := %s }' %
            (lean_codes(e.name), 'true' if e.any_inst else 'false', lean_codes_list(e.insts),
             'true' if e.ok else 'false', lean_codes_list(e.lines), lean_codes_list(e.inputs)))


PART_BUDGET = 600        # key patterns per part module (about 15 s of kernel time each)


def pack(costs, budget=PART_BUDGET):
    order = sorted(range(len(costs)), key=lambda k: (-costs[k], k))
    bins, loads = [], []
    for k in order:
        for b in range(len(bins)):
            if loads[b] + costs[k] <= budget:
                bins[b].append(k)
                loads[b] += costs[k]
                break
        else:
            bins.append([k])
            loads.append(costs[k])
    return [sorted(b) for b in bins]


def generate(years, out_dir, quiet=False):
    absent_all = load_absent()
    obligations, failed = {}, []
    written = {}
    for year in years:
        absent = absent_all.get(year, [])
        A = analyse_year(year, absent)
        ir, E = A['ir'], A['env']
        Y = f'Y{year}'
        gen_note = '/- GENERATED by tools/gen_c10.py from the habutax working tree and tools/c10_absent_forms.json — do not edit. -/'
        bad = [(c['name'], l['name']) for c in A['classes'] for l in c['lines'] if l['refs_fail']]
        obl = []
        # ------------------------------------------------------------------ index module
        ixm = [gen_note, 'import HabuVerif.Dsl.RefsCheck', f'import HabuVerif.Gen.Catalogue{year}',
               'set_option autoImplicit false', 'set_option maxRecDepth 100000',
               f'namespace HabuVerif.Gen.C10_{year}', 'open HabuVerif HabuVerif.Dsl HabuVerif.Gen', '']
        if E.valid:
            ixm.append(f'/-- the names of the {year} forms as ASCII codes, in the order of `YearDecl.formMap` -/')
            ixm.append(f'def ix{year} : YearIx := [\n  ' + ',\n  '.join(lean_entry(e) for e in E.entries) + ']')
            ixm.append('')
            ixm.append('/-- form classes the year deliberately does not ship (reviewed: tools/c10_absent_forms.json) -/')
            ixm.append(f'def absent{year} : List String := [{", ".join(lean_str(a) for a in absent)}]')
            ixm.append(f'def absentN{year} : List (List Nat) := {lean_codes_list(absent)}')
            ixm.append(f'def env{year} : CEnv := ⟨ix{year}, absentN{year}⟩')
            ixm.append('')
            ixm.append('/-- (class, line) pairs whose references do NOT all resolve on the current tree '
                       '(each with a proved negation) -/')
            ixm.append(f'def bad{year} : List (String × String) := '
                       f'[{", ".join(f"({lean_str(a)}, {lean_str(b)})" for a, b in bad)}]')
            ixm.append('')
            ixm.append(f'theorem ix{year}_ok : mkIx year{year} = some ix{year} := by decide +kernel')
            ixm.append(f'theorem abs{year}_ok : codesAll? absent{year} = some absentN{year} := by decide +kernel')
            obl.append({'id': f'ix{year}_ok', 'year': year, 'kind': 'index', 'status': 'proved'})
        else:
            ixm.append('-- FAILED-OBLIGATION ix: a class, line, input, instance or absent-form name is not ASCII: '
                       'the check cannot be run')
            ixm.append(f'theorem ix{year}_none : (mkEnv year{year} '
                       f'[{", ".join(lean_str(a) for a in absent)}]).isNone = true := by decide +kernel')
            obl.append({'id': f'ix{year}_ok', 'year': year, 'kind': 'index', 'status': 'FAILED'})
            failed.append({'id': f'ix{year}_ok', 'year': year, 'kind': 'index', 'status': 'FAILED',
                           'witness': 'a name is not ASCII'})
        ixm += ['', f'end HabuVerif.Gen.C10_{year}', '']
        written[f'C10_{year}_ix.lean'] = '\n'.join(ixm)
        # ------------------------------------------------------------------ class obligations
        items, costs = [], []
        assemble = []             # r_<cid> in class order
        for c, ce in zip(ir['classes'], A['classes']):
            cid = ident(c['name'])
            text = []
            cdef = f'{Y}.c_{cid}'
            bad_lines = [l for l in ce['lines'] if l['refs_fail']]
            scan_lines = [l for l in ce['lines'] if l['scan_fail']]
            if E.valid and ce['own']:
                what = f'class {c["name"]}: every key pattern of every line resolves'
                if bad_lines:
                    text.append(f'-- FAILED-OBLIGATION r_{cid}_all {comment_safe(what)}: fails for line(s) '
                                f'{", ".join(l["name"] for l in bad_lines)}')
                    text.append(f'theorem r_{cid}_all : classRefsOK env{year} [] {cdef} = false := by decide +kernel')
                    for l in bad_lines:
                        lid = f'bad_{cid}_l{l["k"]}'
                        ldef = f'{Y}.c_{cid}_l{l["k"]}_{ident(l["name"])}'
                        for w in l['refs_fail']:
                            text.append(f'-- FAILED-OBLIGATION {lid} line {c["name"]}.{l["name"]}: {w["kind"]}[{comment_safe(w["pattern"])}]'
                                        f' -> {comment_safe(w["name"])}: {comment_safe(w["why"])}')
                        text.append(f'theorem {lid} : (ownIx env{year} {cdef}).map (fun own => lineRefsOK env{year} own {ldef})'
                                    f' = some false := by decide +kernel')
                        rec = {'id': lid, 'year': year, 'kind': 'refs', 'class': c['name'], 'line': l['name'],
                               'status': 'FAILED', 'witness': l['refs_fail']}
                        obl.append(rec)
                        failed.append(rec)
                    text.append(f'/-- {comment_safe(what)}, except the failing line(s) -/')
                else:
                    text.append(f'/-- {comment_safe(what)} -/')
                text.append(f'theorem r_{cid} : classRefsOK env{year} bad{year} {cdef} = true := by decide +kernel')
                obl.append({'id': f'r_{cid}', 'year': year, 'kind': 'refs', 'class': c['name'],
                            'status': 'proved', 'except': [l['name'] for l in bad_lines], 'patterns': ce['patterns']})
                assemble.append(f'r_{cid}')
            elif E.valid:
                text.append(f'-- FAILED-OBLIGATION r_{cid} class {c["name"]}: its name is not ASCII')
                text.append(f'theorem r_{cid} : classRefsOK env{year} bad{year} {cdef} = false := by decide +kernel')
                rec = {'id': f'r_{cid}', 'year': year, 'kind': 'refs', 'class': c['name'], 'line': None,
                       'status': 'FAILED', 'witness': [{'why': 'class name is not ASCII'}]}
                obl.append(rec)
                failed.append(rec)
                assemble = None
            # scan
            swhat = (f'class {c["name"]}: no attribute/name error node, every threshold is a constant of the table '
                     f'it is looked up in')
            if scan_lines:
                text.append(f'-- FAILED-OBLIGATION s_{cid} {comment_safe(swhat)}: fails for line(s) '
                            f'{", ".join(l["name"] for l in scan_lines)}')
                text.append(f'theorem s_{cid} : classScanOK year{year} {cdef} = false := by decide +kernel')
                for l in scan_lines:
                    lid = f'sbad_{cid}_l{l["k"]}'
                    ldef = f'{Y}.c_{cid}_l{l["k"]}_{ident(l["name"])}'
                    text.append(f'-- FAILED-OBLIGATION {lid} line {c["name"]}.{l["name"]}: {comment_safe("; ".join(l["scan_fail"]))}')
                    text.append(f'theorem {lid} : lineScanOK year{year} {cdef} {ldef} = false := by decide +kernel')
                    rec = {'id': lid, 'year': year, 'kind': 'scan', 'class': c['name'], 'line': l['name'],
                           'status': 'FAILED', 'witness': [{'why': w} for w in l['scan_fail']]}
                    obl.append(rec)
                    failed.append(rec)
            else:
                text.append(f'/-- {comment_safe(swhat)} -/')
                text.append(f'theorem s_{cid} : classScanOK year{year} {cdef} = true := by decide +kernel')
                obl.append({'id': f's_{cid}', 'year': year, 'kind': 'scan', 'class': c['name'], 'status': 'proved'})
            text.append('')
            items.append(text)
            costs.append(10 + ce['patterns'] * (2 if bad_lines else 1))
        header = [gen_note, f'import HabuVerif.Gen.C10_{year}_ix', 'set_option autoImplicit false',
                  'set_option maxRecDepth 100000', f'namespace HabuVerif.Gen.C10_{year}',
                  'open HabuVerif HabuVerif.Dsl HabuVerif.Gen', '']
        part_names = []
        for pn, idxs in enumerate(pack(costs)):
            name = f'C10_{year}_{pn}'
            part_names.append(name)
            body = list(header)
            for i in idxs:
                body.extend(items[i])
            body += [f'end HabuVerif.Gen.C10_{year}', '']
            written[name + '.lean'] = '\n'.join(body)
        # ------------------------------------------------------------------ main module
        main = [gen_note, 'import HabuVerif.Proofs.RefsCheckSound'] + [f'import HabuVerif.Gen.{n}' for n in part_names] + [
            'set_option autoImplicit false', f'namespace HabuVerif.Gen.C10_{year}',
            'open HabuVerif HabuVerif.Dsl HabuVerif.Gen', '']
        thm = None
        if E.valid and assemble is not None:
            chain = 'classesRefsOK_nil'
            for r in reversed(assemble):
                chain = f'classesRefsOK_cons {r}\n    ({chain})'
            main.append(f'theorem classes{year}_ok : classesRefsOK env{year} bad{year} year{year}.classes = true :=\n  {chain}')
            main.append('')
            if not bad:
                thm = f'c10_{year}'
                main.append(f'/-- **C10, {year}**: every line or input name that any line program of the {year} catalogue can read\n'
                            f'(any path, any stores) names a form of the catalogue that has it, or a deliberately absent form. -/')
                main.append(f'theorem c10_{year} : Resolves cat{year} (fun f => decide (classOf f ∈ absent{year})) :=\n'
                            f'  c10_of_obligations_all (y := year{year}) ix{year}_ok abs{year}_ok classes{year}_ok')
            else:
                thm = f'c10_{year}_rest'
                main.append(f'/-- **C10, {year}, without the failing lines**: every line or input name that any line program of the\n'
                            f'{year} catalogue — except the {len(bad)} line(s) of `bad{year}`, whose failure is proved — can read names a\n'
                            f'form of the catalogue that has it, or a deliberately absent form. -/')
                main.append(f'theorem c10_{year}_rest : ResolvesExcept cat{year} (fun f => decide (classOf f ∈ absent{year}))\n'
                            f'    (BadLine year{year} bad{year}) :=\n'
                            f'  c10_of_obligations (y := year{year}) ix{year}_ok abs{year}_ok classes{year}_ok')
        else:
            main.append('-- no assembled theorem: the index could not be built (see FAILED-OBLIGATION above)')
        main += ['', f'end HabuVerif.Gen.C10_{year}', '']
        if thm:
            main += [f'#print axioms HabuVerif.Gen.C10_{year}.{thm}', '']
        written[f'C10_{year}.lean'] = '\n'.join(main)
        obligations[str(year)] = {
            'modules': [f'HabuVerif.Gen.C10_{year}', f'HabuVerif.Gen.C10_{year}_ix'] + [f'HabuVerif.Gen.{n}' for n in part_names],
            'theorem': thm, 'absent': absent, 'bad': [list(b) for b in bad], 'theorems': obl,
            'proved': sum(1 for o in obl if o['status'] == 'proved'),
            'failed': sum(1 for o in obl if o['status'] == 'FAILED'),
            'patterns': sum(c['patterns'] for c in A['classes']),
            'lines': sum(len(c['lines']) for c in A['classes'])}
    written['c10_obligations.json'] = json.dumps(obligations, indent=1, sort_keys=True, ensure_ascii=False) + '\n'
    written['c10_failed.json'] = json.dumps(failed, indent=1, sort_keys=True, ensure_ascii=False) + '\n'
    os.makedirs(out_dir, exist_ok=True)
    for fn in sorted(os.listdir(out_dir)):
        if re.fullmatch(r'C10_(\d{4})(_\d+|_ix)?\.lean', fn) and fn not in written and int(fn[4:8]) in years:
            os.remove(os.path.join(out_dir, fn))
    for name, text in written.items():
        path = os.path.join(out_dir, name)
        try:
            with open(path, encoding='utf-8') as f:
                if f.read() == text:
                    continue
        except FileNotFoundError:
            pass
        with open(path, 'w', encoding='utf-8') as f:
            f.write(text)
    if not quiet:
        for y in years:
            o = obligations[str(y)]
            print(f'{y}: {o["lines"]} lines, {o["patterns"]} key patterns; {o["proved"]} proved, {o["failed"]} FAILED, '
                  f'{len(o["modules"])} modules; theorem {o["theorem"]}')
        for f in failed:
            ws = f.get('witness')
            if isinstance(ws, list):
                for w in ws:
                    print(f'FAILED-OBLIGATION {f["year"]} {f["id"]} {f.get("class")}.{f.get("line")}: '
                          f'{w.get("kind", "")}[{w.get("pattern", "")}] -> {w.get("name")}: {w.get("why")}')
            else:
                print(f'FAILED-OBLIGATION {f["year"]} {f["id"]}: {ws}')
    return obligations, failed


def main(argv):
    out_dir = os.path.join(os.path.dirname(HERE), 'lean', 'HabuVerif', 'Gen')
    years = list(YEARS)
    quiet = False
    args = list(argv)
    while args:
        a = args.pop(0)
        if a == '--out-dir':
            out_dir = args.pop(0)
        elif a == '--years':
            years = [int(y) for y in args.pop(0).split(',')]
        elif a == '--quiet':
            quiet = True
    sys.setrecursionlimit(20000)
    generate(years, out_dir, quiet=quiet)
    return 0


if __name__ == '__main__':
    sys.exit(main(sys.argv[1:]))
