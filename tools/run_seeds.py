#!/venv/bin/python
"""Development-time campaign (not a registered command): apply every seeded change of /verif/seeded/<id>/patch.diff
to a SCRATCH clone of /repo, run the property's quick check from a SCRATCH copy of /verif against it, and record
what the check reported.  /repo and /verif/lean are never touched, so this can run next to other work.

    tools/run_seeds.py [ids...]        results -> /verif/seeded/RESULTS.json
"""
import json
import os
import shutil
import subprocess
import sys
import time

VERIF = os.path.dirname(os.path.dirname(os.path.abspath(__file__)))
SCR = os.environ.get('HV_SEEDS_SCR', '/var/tmp/hv-seeds')      # a second campaign can run next to the first


def sh(cmd, cwd=None, env=None, timeout=3600):
    p = subprocess.run(cmd, cwd=cwd, env=env, shell=isinstance(cmd, str), stdout=subprocess.PIPE,
                       stderr=subprocess.STDOUT, timeout=timeout)
    return p.returncode, p.stdout.decode('utf-8', 'replace')


def main(ids):
    manifest = json.load(open(os.path.join(VERIF, 'MANIFEST.json')))
    claimed = [c['property_id'] for c in manifest['checks']]
    ids = ids or [i for i in sorted(os.listdir(os.path.join(VERIF, 'seeded'))) if i[:3] in claimed and os.path.isdir(os.path.join(VERIF, 'seeded', i))]
    shutil.rmtree(SCR, ignore_errors=True)
    os.makedirs(SCR)
    sh(['git', 'clone', '-q', '/repo', SCR + '/repo'])
    sh(['rsync', '-a', '--exclude', 'evidence/replays', VERIF + '/', SCR + '/verif/'])
    env = dict(os.environ, HABUTAX_REPO=SCR + '/repo', PYTHONDONTWRITEBYTECODE='1', HABUTAX_VERIF='1')
    out_path = os.environ.get('HV_SEEDS_OUT', os.path.join(VERIF, 'seeded', 'RESULTS.json'))
    results = json.load(open(out_path)) if os.path.exists(out_path) else {}
    head = sh(['git', '-C', '/repo', 'rev-parse', '--short', 'HEAD'])[1].strip()
    try:
        for sid in ids:
            pid = sid[:3]       # seeded/C09b is a second change for property C09
            t0 = time.time()
            sh(['git', 'checkout', '-q', '--', '.'], cwd=SCR + '/repo')
            code, o = sh(['git', 'apply', os.path.join(VERIF, 'seeded', sid, 'patch.diff')], cwd=SCR + '/repo')
            if code != 0:
                results[sid] = {'applies': False, 'log': o[-400:]}
                continue
            code, o = sh(['/venv/bin/python', '-W', 'ignore', 'tools/check.py', pid, 'quick'], cwd=SCR + '/verif', env=env)
            lines = o.split('\n')
            viol = [l for l in lines if l.startswith('VIOLATION')]
            what = []
            for i, l in enumerate(lines):
                if l.startswith('VIOLATION') and i + 1 < len(lines):
                    what.append(lines[i + 1].strip()[:300])
            results[sid] = {'applies': True, 'repo_head': head, 'exit': code, 'violations': len(viol),
                            'with_failing_input': len([v for v in viol if 'no-failing-input-found' not in v]),
                            'first': viol[:3], 'what': what[:3], 'summary': [l for l in lines if ' quick: ' in l][-1:],
                            'seconds': round(time.time() - t0)}
            print(sid, results[sid]['exit'], results[sid]['violations'], results[sid]['with_failing_input'], flush=True)
            json.dump(results, open(out_path, 'w'), indent=1, sort_keys=True)
    finally:
        shutil.rmtree(SCR, ignore_errors=True)
    return 0


if __name__ == '__main__':
    sys.exit(main(sys.argv[1:]))
